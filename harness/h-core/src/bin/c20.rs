//! C20 correspondence harness: arrow-string predicates and functions on Unicode strings.
//!
//! Case lines (strings are hex of UTF-8; a row list is comma separated, `~` = null row,
//! `_` = empty string, `-` = no rows):
//!   C20 like|nlike|ilike|nilike|sw|ew|ct|eqi <var> <patterns> <haystacks>
//!        (one pattern = broadcast; answer: one char per row, 0/1/n)
//!   C20 rx <var> <regexes> <haystacks>            regexp_is_match / regexp_is_match_scalar
//!   C20 rxf|rxmf <var> <flags> <regexes> <haystacks>   regexp_is_match / regexp_match with a per-row flags array
//!   C20 substr <kind> <start> <len|N> <rows>      kind s0..s3 = Utf8/LargeUtf8/Utf8View/Dict, b0..b3 = Binary/LargeBinary/BinaryView/FixedSizeBinary
//!   C20 substrc <var> <start> <len|N> <rows>      substring_by_char
//!   C20 len|bitlen <kind> <rows>
//!   C20 concat <var> <lefts> <rights>
//! `var` selects which input encoding / scalar-vs-array configuration's answer is *reported*
//! (compared with the Lean model); every other configuration is run as well and must give the
//! same answer (oracle: results identical for Utf8, LargeUtf8, Utf8View, dictionary; scalar
//! and array patterns), and a naive backtracking matcher inside the harness must agree too.
use arrow_array::builder::*;
use arrow_array::cast::AsArray;
use arrow_array::types::*;
use arrow_array::*;
use arrow_schema::ArrowError;
use std::cell::RefCell;
use std::collections::HashMap;
use std::sync::Arc;
use vcommon::*;

type Row = Option<String>;

// ------------------------------------------------------------------ line protocol
fn parse_row(t: &str) -> Row {
    match t {
        "~" => None,
        "_" => Some(String::new()),
        h => Some(String::from_utf8(unhex(h)).expect("utf8 row")),
    }
}
fn parse_rows(t: &str) -> Vec<Row> {
    if t == "-" { vec![] } else { t.split(',').map(parse_row).collect() }
}
fn show_row_bytes(r: &Option<Vec<u8>>) -> String {
    match r {
        None => "~".into(),
        Some(b) if b.is_empty() => "_".into(),
        Some(b) => hex(b),
    }
}
fn show_row(r: &Row) -> String {
    show_row_bytes(&r.as_ref().map(|s| s.as_bytes().to_vec()))
}
fn show_rows(rs: &[Row]) -> String {
    if rs.is_empty() { "-".into() } else { rs.iter().map(show_row).collect::<Vec<_>>().join(",") }
}
fn show_rows_bytes(rs: &[Option<Vec<u8>>]) -> String {
    if rs.is_empty() { "-".into() } else { rs.iter().map(show_row_bytes).collect::<Vec<_>>().join(",") }
}
fn show_tri(rs: &[Option<bool>]) -> String {
    if rs.is_empty() {
        "-".into()
    } else {
        rs.iter().map(|r| match r { None => 'n', Some(true) => '1', Some(false) => '0' }).collect()
    }
}
fn err_class(e: &ArrowError) -> String {
    match e {
        ArrowError::ComputeError(_) => "ERR:compute".into(),
        ArrowError::InvalidArgumentError(_) => "ERR:invalid-arg".into(),
        ArrowError::NotYetImplemented(_) => "ERR:not-impl".into(),
        _ => "ERR:other".into(),
    }
}

// ------------------------------------------------------------------ array construction
const JUNK_HEAD: &str = "J\u{212A}\u{e9}lvin-junk-row-longer-than-12";
const JUNK_TAIL: &str = "tail\u{1F600}";

/// string array in encoding `enc`:
/// 0 Utf8, 1 LargeUtf8, 2 Utf8View, 3 Dictionary<Int32,Utf8> (builder: distinct values, null keys),
/// 4 hand-made dictionary (Int8 keys when it fits): an unused value, a NULL value referenced by
///   valid keys, duplicate values, null keys,
/// 5 / 6 Utf8 / LargeUtf8 whose null slots hold non-empty bytes and whose validity buffer is
///   present even when every row is valid, 7 Utf8View with non-empty views under nulls.
/// `sliced` builds a longer array and slices it (non-zero offset, trailing garbage).
fn mk_str(rows: &[Row], enc: usize, sliced: bool) -> ArrayRef {
    let mut all: Vec<Row> = Vec::with_capacity(rows.len() + 3);
    if sliced {
        all.push(Some(JUNK_HEAD.to_string()));
        all.push(None);
    }
    all.extend(rows.iter().cloned());
    if sliced {
        all.push(Some(JUNK_TAIL.to_string()));
    }
    let it = all.iter().map(|r| r.as_deref());
    let a: ArrayRef = match enc {
        0 => Arc::new(it.collect::<StringArray>()),
        1 => Arc::new(it.collect::<LargeStringArray>()),
        2 => Arc::new(it.collect::<StringViewArray>()),
        3 => {
            let mut b = StringDictionaryBuilder::<Int32Type>::new();
            for r in it {
                match r {
                    Some(s) => {
                        b.append_value(s);
                    }
                    None => b.append_null(),
                }
            }
            Arc::new(b.finish())
        }
        4 => {
            let unused = if all.len() % 2 == 0 { "unusedK" } else { "unus\u{212A}d" };
            let mut vals: Vec<Option<String>> = vec![Some(unused.to_string()), None];
            let mut keys: Vec<Option<i32>> = vec![];
            for (i, r) in all.iter().enumerate() {
                match r {
                    None => keys.push(if i % 2 == 0 { None } else { Some(1) }),
                    Some(s) => {
                        let found = vals.iter().position(|v| v.as_deref() == Some(s.as_str()));
                        match found {
                            Some(k) if i % 3 != 0 => keys.push(Some(k as i32)),
                            _ => {
                                // a fresh (possibly duplicate) dictionary entry
                                vals.push(Some(s.clone()));
                                keys.push(Some(vals.len() as i32 - 1));
                            }
                        }
                    }
                }
            }
            let values: ArrayRef = Arc::new(vals.iter().map(|v| v.as_deref()).collect::<StringArray>());
            if vals.len() <= 127 {
                let k: Int8Array = keys.iter().map(|k| k.map(|k| k as i8)).collect();
                Arc::new(DictionaryArray::<Int8Type>::try_new(k, values).unwrap())
            } else {
                let k: Int32Array = keys.iter().copied().collect();
                Arc::new(DictionaryArray::<Int32Type>::try_new(k, values).unwrap())
            }
        }
        5 | 6 => {
            let mut data: Vec<u8> = vec![];
            let mut offs: Vec<usize> = vec![0];
            let mut valid: Vec<bool> = vec![];
            for (i, r) in all.iter().enumerate() {
                match r {
                    Some(s) => data.extend_from_slice(s.as_bytes()),
                    None => data.extend_from_slice(if i % 2 == 0 { "Kk".as_bytes() } else { "\u{e9}\u{20AC}".as_bytes() }),
                }
                valid.push(r.is_some());
                offs.push(data.len());
            }
            let nulls = arrow_buffer::NullBuffer::from(valid);
            if enc == 5 {
                let o = arrow_buffer::OffsetBuffer::new(offs.iter().map(|x| *x as i32).collect::<Vec<i32>>().into());
                Arc::new(StringArray::new(o, data.into(), Some(nulls)))
            } else {
                let o = arrow_buffer::OffsetBuffer::new(offs.iter().map(|x| *x as i64).collect::<Vec<i64>>().into());
                Arc::new(LargeStringArray::new(o, data.into(), Some(nulls)))
            }
        }
        _ => {
            let filled: Vec<String> = all
                .iter()
                .enumerate()
                .map(|(i, r)| match r {
                    Some(s) => s.clone(),
                    None => if i % 2 == 0 { "Kk".to_string() } else { "under-null-\u{e9}\u{20AC}-longer-than-12".to_string() },
                })
                .collect();
            let a = StringViewArray::from_iter_values(filled.iter().map(|s| s.as_str()));
            let nulls = arrow_buffer::NullBuffer::from(all.iter().map(|r| r.is_some()).collect::<Vec<bool>>());
            Arc::new(StringViewArray::new(a.views().clone(), a.data_buffers().to_vec(), Some(nulls)))
        }
    };
    if sliced { a.slice(2, rows.len()) } else { a }
}
const ENC_NAMES: [&str; 8] = ["utf8", "large", "view", "dict", "dictx", "utf8nj", "largenj", "viewnj"];

/// the value type matching encoding `enc` (patterns for a dictionary haystack are plain Utf8)
fn val_enc(enc: usize) -> usize {
    match enc {
        3 | 4 | 5 => 0,
        6 => 1,
        7 => 2,
        e => e,
    }
}

fn bool_rows(b: &BooleanArray) -> Vec<Option<bool>> {
    (0..b.len()).map(|i| if b.is_null(i) { None } else { Some(b.value(i)) }).collect()
}

/// rows of any string-ish array (Utf8 / LargeUtf8 / Utf8View / Binary* / FSB / dictionary of those)
fn bytes_rows(a: &dyn Array) -> Vec<Option<Vec<u8>>> {
    use arrow_schema::DataType::*;
    let n = a.len();
    let get = |i: usize| -> Option<Vec<u8>> {
        if a.is_null(i) {
            return None;
        }
        Some(match a.data_type() {
            Utf8 => a.as_string::<i32>().value(i).as_bytes().to_vec(),
            LargeUtf8 => a.as_string::<i64>().value(i).as_bytes().to_vec(),
            Utf8View => a.as_string_view().value(i).as_bytes().to_vec(),
            Binary => a.as_binary::<i32>().value(i).to_vec(),
            LargeBinary => a.as_binary::<i64>().value(i).to_vec(),
            BinaryView => a.as_binary_view().value(i).to_vec(),
            FixedSizeBinary(_) => a.as_fixed_size_binary().value(i).to_vec(),
            t => panic!("unexpected type {t}"),
        })
    };
    if let Some(d) = a.as_any_dictionary_opt() {
        let vals = bytes_rows(d.values().as_ref());
        if vals.is_empty() {
            return vec![None; n];
        }
        let keys = d.normalized_keys();
        return (0..n).map(|i| if d.keys().is_null(i) { None } else { vals[keys[i]].clone() }).collect();
    }
    (0..n).map(get).collect()
}

/// validity of the UTF-8 actually stored in a string array (bypassing the typed accessors)
fn stored_utf8_ok(a: &dyn Array) -> bool {
    use arrow_schema::DataType::*;
    if let Some(d) = a.as_any_dictionary_opt() {
        return stored_utf8_ok(d.values().as_ref());
    }
    match a.data_type() {
        Utf8 => {
            let s = a.as_string::<i32>();
            (0..s.len()).all(|i| {
                let o = s.value_offsets();
                std::str::from_utf8(&s.value_data()[o[i] as usize..o[i + 1] as usize]).is_ok()
            })
        }
        LargeUtf8 => {
            let s = a.as_string::<i64>();
            (0..s.len()).all(|i| {
                let o = s.value_offsets();
                std::str::from_utf8(&s.value_data()[o[i] as usize..o[i + 1] as usize]).is_ok()
            })
        }
        Utf8View => {
            let s = a.as_string_view();
            (0..s.len()).all(|i| s.is_null(i) || std::str::from_utf8(s.value(i).as_bytes()).is_ok())
        }
        _ => true,
    }
}

// ------------------------------------------------------------------ naive oracles (harness side)
#[derive(Clone, Copy, PartialEq, Debug)]
enum Tok {
    Lit(char),
    One,
    Many,
}
fn tokenise(p: &[char]) -> Vec<Tok> {
    let mut out = vec![];
    let mut i = 0;
    while i < p.len() {
        match p[i] {
            '\\' => {
                if i + 1 < p.len() {
                    out.push(Tok::Lit(p[i + 1]));
                    i += 1;
                } else {
                    out.push(Tok::Lit('\\'));
                }
            }
            '%' => out.push(Tok::Many),
            '_' => out.push(Tok::One),
            c => out.push(Tok::Lit(c)),
        }
        i += 1;
    }
    out
}
fn like_naive(p: &[Tok], s: &[char], eqv: &dyn Fn(char, char) -> bool) -> bool {
    match p.first() {
        None => s.is_empty(),
        Some(Tok::Lit(c)) => !s.is_empty() && eqv(*c, s[0]) && like_naive(&p[1..], &s[1..], eqv),
        Some(Tok::One) => !s.is_empty() && like_naive(&p[1..], &s[1..], eqv),
        Some(Tok::Many) => (0..=s.len()).any(|k| like_naive(&p[1..], &s[k..], eqv)),
    }
}

thread_local! {
    static FOLD: RefCell<HashMap<(char, char), bool>> = RefCell::new(HashMap::new());
}
/// "a and b are equal under Unicode simple case folding **as implemented by the regex engine**":
/// the one-character case-insensitive regex for `a` matches `b`.
fn fold_eq(a: char, b: char) -> bool {
    if a == b {
        return true;
    }
    FOLD.with(|m| {
        *m.borrow_mut().entry((a, b)).or_insert_with(|| {
            let re = regex::RegexBuilder::new(&format!("^(?:{})$", regex::escape(&a.to_string())))
                .case_insensitive(true)
                .dot_matches_new_line(true)
                .build()
                .unwrap();
            re.is_match(&b.to_string())
        })
    })
}
fn ascii_fold_eq(a: char, b: char) -> bool {
    a.to_ascii_lowercase() == b.to_ascii_lowercase()
}

// --- tiny backtracking regex matcher for the generated regex subset
#[derive(Debug, Clone)]
enum Re {
    Lit(char),
    Any,
    Class(bool, Vec<char>),
    Start,
    End,
    Group(Vec<Vec<Re>>), // alternation of sequences
    Star(Box<Re>),
    Plus(Box<Re>),
    Opt(Box<Re>),
}
fn re_parse_alt(p: &[char], i: &mut usize) -> Option<Vec<Vec<Re>>> {
    let mut alts = vec![vec![]];
    while *i < p.len() {
        let c = p[*i];
        let atom = match c {
            ')' => break,
            '|' => {
                *i += 1;
                alts.push(vec![]);
                continue;
            }
            '(' => {
                *i += 1;
                let g = re_parse_alt(p, i)?;
                if *i >= p.len() || p[*i] != ')' {
                    return None;
                }
                *i += 1;
                Re::Group(g)
            }
            '[' => {
                *i += 1;
                let neg = *i < p.len() && p[*i] == '^';
                if neg {
                    *i += 1;
                }
                let mut set = vec![];
                while *i < p.len() && p[*i] != ']' {
                    if p[*i] == '\\' {
                        *i += 1;
                    }
                    set.push(*p.get(*i)?);
                    *i += 1;
                }
                if *i >= p.len() {
                    return None;
                }
                *i += 1;
                Re::Class(neg, set)
            }
            '.' => {
                *i += 1;
                Re::Any
            }
            '^' => {
                *i += 1;
                Re::Start
            }
            '$' => {
                *i += 1;
                Re::End
            }
            '\\' => {
                *i += 1;
                let c = *p.get(*i)?;
                if c.is_alphanumeric() {
                    return None; // \w, \d, \b ...: outside the subset of the naive matcher
                }
                *i += 1;
                Re::Lit(c)
            }
            '*' | '+' | '?' | '{' | '}' | ']' => return None,
            c => {
                *i += 1;
                Re::Lit(c)
            }
        };
        let atom = if *i < p.len() {
            match p[*i] {
                '*' => {
                    *i += 1;
                    Re::Star(Box::new(atom))
                }
                '+' => {
                    *i += 1;
                    Re::Plus(Box::new(atom))
                }
                '?' => {
                    *i += 1;
                    Re::Opt(Box::new(atom))
                }
                _ => atom,
            }
        } else {
            atom
        };
        alts.last_mut().unwrap().push(atom);
    }
    Some(alts)
}
struct ReCtx<'a> {
    s: &'a [char],
    ci: bool,
    dotall: bool,
}
impl ReCtx<'_> {
    fn ceq(&self, a: char, b: char) -> bool {
        if self.ci { fold_eq(a, b) } else { a == b }
    }
    /// match `seq` at position `pos`, then continuation `k`
    fn seq(&self, seq: &[Re], pos: usize, k: &dyn Fn(usize) -> bool) -> bool {
        match seq.first() {
            None => k(pos),
            Some(r) => self.one(r, pos, &|p2| self.seq(&seq[1..], p2, k)),
        }
    }
    fn one(&self, r: &Re, pos: usize, k: &dyn Fn(usize) -> bool) -> bool {
        let s = self.s;
        match r {
            Re::Lit(c) => pos < s.len() && self.ceq(*c, s[pos]) && k(pos + 1),
            Re::Any => pos < s.len() && (self.dotall || s[pos] != '\n') && k(pos + 1),
            Re::Class(neg, set) => pos < s.len() && (set.iter().any(|c| self.ceq(*c, s[pos])) != *neg) && k(pos + 1),
            Re::Start => pos == 0 && k(pos),
            Re::End => pos == s.len() && k(pos),
            Re::Group(alts) => alts.iter().any(|a| self.seq(a, pos, k)),
            Re::Opt(a) => self.one(a, pos, k) || k(pos),
            Re::Plus(a) => self.one(a, pos, &|p2| self.one(&Re::Star(a.clone()), p2, k)),
            Re::Star(a) => k(pos) || self.one(a, pos, &|p2| p2 > pos && self.one(r, p2, k)),
        }
    }
}
/// `Some(result)` when the regex text is in the supported subset
fn regex_naive(re: &str, flags: &str, s: &str) -> Option<bool> {
    if re.is_empty() && flags.is_empty() {
        return Some(true);
    }
    let p: Vec<char> = re.chars().collect();
    let mut i = 0;
    let alts = re_parse_alt(&p, &mut i)?;
    if i != p.len() {
        return None;
    }
    let sc: Vec<char> = s.chars().collect();
    let ctx = ReCtx { s: &sc, ci: flags.contains('i'), dotall: flags.contains('s') };
    let top = Re::Group(alts);
    Some((0..=sc.len()).any(|st| ctx.one(&top, st, &|_| true)))
}

// ------------------------------------------------------------------ running the real code
type LikeFn = fn(&dyn Datum, &dyn Datum) -> Result<BooleanArray, ArrowError>;
fn like_fn(op: &str) -> LikeFn {
    use arrow_string::like::*;
    match op {
        "like" => like,
        "nlike" => nlike,
        "ilike" => ilike,
        "nilike" => nilike,
        "sw" => starts_with,
        "ew" => ends_with,
        "ct" => contains,
        "eqi" => eq_ignore_ascii_case,
        _ => panic!("op"),
    }
}

#[derive(Clone, Copy, Debug, PartialEq)]
struct Cfg {
    enc: usize,
    sliced: bool,
    scalar: bool,
    /// array pattern given as a dictionary (only enc 0 / 3)
    dict_pat: bool,
}
fn cfg_of(var: usize, one_pat: bool) -> Cfg {
    let enc = var % 4;
    Cfg { enc, sliced: (var / 4) % 2 == 1, scalar: one_pat && (var / 8) % 2 == 1, dict_pat: (var / 16) % 2 == 1 && (enc == 0 || enc == 3) }
}
fn cfg_name(c: &Cfg) -> String {
    format!(
        "enc:{}{}{}{}",
        ENC_NAMES[c.enc],
        if c.sliced { "+sliced" } else { "" },
        if c.scalar { "+scalar" } else { "+array" },
        if c.dict_pat { "+dictpat" } else { "" }
    )
}

fn run_like_cfg(op: &str, c: Cfg, pats: &[Row], hays: &[Row]) -> String {
    let f = like_fn(op);
    let pats = pats.to_vec();
    let hays = hays.to_vec();
    guarded(move || {
        let h = mk_str(&hays, c.enc, c.sliced);
        let r = if c.scalar {
            let p = mk_str(&pats[..1], if c.dict_pat { 3 } else { val_enc(c.enc) }, false);
            f(&h, &Scalar::new(p))
        } else {
            let full: Vec<Row> = if pats.len() == 1 { vec![pats[0].clone(); hays.len()] } else { pats.clone() };
            let p = mk_str(&full, if c.dict_pat { 3 } else { val_enc(c.enc) }, c.sliced);
            f(&h, &p)
        };
        match r {
            Ok(b) => show_tri(&bool_rows(&b)),
            Err(e) => err_class(&e),
        }
    })
}

/// haystack given as a `Scalar` (the `(true, ..)` arms of `string_apply`), pattern an array
/// (or, with `both`, a `Scalar` too)
fn run_like_ls(op: &str, enc: usize, dict_pat: bool, both: bool, pats: &[Row], hays: &[Row]) -> String {
    let f = like_fn(op);
    let pats = pats.to_vec();
    let hays = hays.to_vec();
    guarded(move || {
        let h = Scalar::new(mk_str(&hays[..1], enc, false));
        let penc = if dict_pat { 3 } else { val_enc(enc) };
        let r = if both { f(&h, &Scalar::new(mk_str(&pats[..1], penc, false))) } else { f(&h, &mk_str(&pats, penc, enc % 2 == 1)) };
        match r {
            Ok(b) => show_tri(&bool_rows(&b)),
            Err(e) => err_class(&e),
        }
    })
}

/// starts_with / ends_with / contains on Binary / LargeBinary / BinaryView holding the same bytes
/// (`binary_like.rs`, `binary_predicate.rs`)
fn run_like_bin(op: &str, kind: usize, scalar: bool, sliced: bool, pats: &[Row], hays: &[Row]) -> String {
    let f = like_fn(op);
    let pats = pats.to_vec();
    let hays = hays.to_vec();
    guarded(move || {
        let h = mk_bin(&hays, kind, sliced);
        let r = if scalar {
            f(&h, &Scalar::new(mk_bin(&pats[..1], kind, false)))
        } else {
            let full: Vec<Row> = if pats.len() == 1 { vec![pats[0].clone(); hays.len()] } else { pats.clone() };
            f(&h, &mk_bin(&full, kind, false))
        };
        match r {
            Ok(b) => show_tri(&bool_rows(&b)),
            Err(e) => err_class(&e),
        }
    })
}

fn run_rx_cfg(var: usize, c: Cfg, flags: Option<&str>, pats: &[Row], hays: &[Row]) -> String {
    use arrow_string::regexp::*;
    let pats = pats.to_vec();
    let hays = hays.to_vec();
    let flags = flags.map(|s| s.to_string());
    guarded(move || {
        let enc = val_enc(c.enc);
        let h = mk_str(&hays, if c.enc >= 5 { c.enc } else { enc }, c.sliced);
        let r = if c.scalar {
            match &pats[0] {
                None => return "SCALAR-NULL".to_string(),
                Some(p) => match enc {
                    0 => regexp_is_match_scalar(h.as_string::<i32>(), p, flags.as_deref()),
                    1 => regexp_is_match_scalar(h.as_string::<i64>(), p, flags.as_deref()),
                    _ => regexp_is_match_scalar(h.as_string_view(), p, flags.as_deref()),
                },
            }
        } else {
            let full: Vec<Row> = if pats.len() == 1 { vec![pats[0].clone(); hays.len()] } else { pats.clone() };
            let p = mk_str(&full, enc, c.sliced);
            // with var bit 16 every third row of the flags array is NULL (= no flags for that row)
            let fl: Option<Vec<Row>> = flags.as_ref().map(|f| (0..hays.len()).map(|i| if (var / 16) % 2 == 1 && i % 3 == 2 { None } else { Some(f.clone()) }).collect());
            // with var bit 2048 the pattern array has another string type than the haystacks
            if (var / 2048) % 2 == 1 {
                let fa = fl.map(|f| mk_str(&f, 0, false));
                let p0 = mk_str(&full, 0, false);
                let fo = fa.as_ref().map(|a| a.as_string::<i32>());
                let r = match enc {
                    0 => regexp_is_match(h.as_string::<i32>(), p0.as_string::<i32>(), fo),
                    1 => regexp_is_match(h.as_string::<i64>(), p0.as_string::<i32>(), fo),
                    _ => regexp_is_match(h.as_string_view(), p0.as_string::<i32>(), fo),
                };
                return match r {
                    Ok(b) => show_tri(&bool_rows(&b)),
                    Err(e) => err_class(&e),
                };
            }
            match enc {
                0 => {
                    let fa = fl.map(|f| mk_str(&f, 0, false));
                    regexp_is_match(h.as_string::<i32>(), p.as_string::<i32>(), fa.as_ref().map(|a| a.as_string::<i32>()))
                }
                1 => {
                    let fa = fl.map(|f| mk_str(&f, 1, false));
                    regexp_is_match(h.as_string::<i64>(), p.as_string::<i64>(), fa.as_ref().map(|a| a.as_string::<i64>()))
                }
                _ => {
                    let fa = fl.map(|f| mk_str(&f, 2, false));
                    regexp_is_match(h.as_string_view(), p.as_string_view(), fa.as_ref().map(|a| a.as_string_view()))
                }
            }
        };
        match r {
            Ok(b) => show_tri(&bool_rows(&b)),
            Err(e) => err_class(&e),
        }
    })
}

fn mk_bin(rows: &[Row], kind: usize, sliced: bool) -> ArrayRef {
    let mut all: Vec<Option<Vec<u8>>> = vec![];
    let w = rows.iter().flatten().map(|s| s.len()).next().unwrap_or(0);
    if sliced {
        all.push(Some(if kind == 3 { vec![0xA5; w] } else { JUNK_HEAD.as_bytes().to_vec() }));
    }
    all.extend(rows.iter().map(|r| r.as_ref().map(|s| s.as_bytes().to_vec())));
    let it = all.iter().map(|r| r.as_deref());
    let a: ArrayRef = match kind {
        0 => Arc::new(it.collect::<BinaryArray>()),
        1 => Arc::new(it.collect::<LargeBinaryArray>()),
        2 => Arc::new(it.collect::<BinaryViewArray>()),
        _ => Arc::new(FixedSizeBinaryArray::try_from_sparse_iter_with_size(it, w as i32).unwrap()),
    };
    if sliced { a.slice(1, rows.len()) } else { a }
}

struct Out {
    answer: String,
    oracle: Vec<String>,
    tags: String,
}

fn classify_tag(p: &str) -> &'static str {
    let clp = |s: &str| s.bytes().any(|b| b == b'%' || b == b'_' || b == b'\\');
    if !clp(p) {
        "pred:eq"
    } else if p.ends_with('%') && !clp(&p[..p.len() - 1]) {
        "pred:startswith"
    } else if p.starts_with('%') && !clp(&p[1..]) {
        "pred:endswith"
    } else if p.starts_with('%') && p.ends_with('%') && p.len() >= 2 && !clp(&p[1..p.len() - 1]) {
        "pred:contains"
    } else {
        "pred:regex"
    }
}

fn run_case(line: &str) -> Out {
    let t: Vec<&str> = line.split(' ').collect();
    assert_eq!(t[0], "C20");
    let mut oracle = vec![];
    let mut tags = format!("op:{}", t[1]);
    let answer = match t[1] {
        op @ ("like" | "nlike" | "ilike" | "nilike" | "sw" | "ew" | "ct" | "eqi") => {
            let var: usize = t[2].parse().unwrap();
            let pats = parse_rows(t[3]);
            let hays = parse_rows(t[4]);
            let one = pats.len() == 1;
            let lscalar = hays.len() == 1 && pats.len() > 1;
            let c = cfg_of(var, one);
            tags.push(' ');
            let ans = if lscalar {
                tags.push_str(&format!("enc:{}+left-scalar{}", ENC_NAMES[c.enc], if c.dict_pat { "+dictpat" } else { "" }));
                run_like_ls(op, c.enc, c.dict_pat, false, &pats, &hays)
            } else {
                tags.push_str(&cfg_name(&c));
                run_like_cfg(op, c, &pats, &hays)
            };
            // harness-side naive answer
            let full: Vec<Row> = if one && !lscalar { vec![pats[0].clone(); hays.len()] } else { pats.clone() };
            let hays_full: Vec<Row> = if lscalar { vec![hays[0].clone(); pats.len()] } else { hays.clone() };
            let naive: Vec<Option<bool>> = full
                .iter()
                .zip(hays_full.iter())
                .map(|(p, h)| {
                    let (p, h) = (p.as_ref()?, h.as_ref()?);
                    let pc: Vec<char> = p.chars().collect();
                    let hc: Vec<char> = h.chars().collect();
                    Some(match op {
                        "like" => like_naive(&tokenise(&pc), &hc, &|a, b| a == b),
                        "nlike" => !like_naive(&tokenise(&pc), &hc, &|a, b| a == b),
                        "ilike" => like_naive(&tokenise(&pc), &hc, &fold_eq),
                        "nilike" => !like_naive(&tokenise(&pc), &hc, &fold_eq),
                        "sw" => hc.len() >= pc.len() && hc[..pc.len()] == pc[..],
                        "ew" => hc.len() >= pc.len() && hc[hc.len() - pc.len()..] == pc[..],
                        "ct" => pc.is_empty() || hc.windows(pc.len()).any(|w| w == &pc[..]),
                        _ => hc.len() == pc.len() && hc.iter().zip(pc.iter()).all(|(a, b)| ascii_fold_eq(*a, *b)),
                    })
                })
                .collect();
            let naive = show_tri(&naive);
            let len_mismatch = full.len() != hays_full.len();
            if len_mismatch {
                tags.push_str(" err:length-mismatch");
                if ans != "ERR:invalid-arg" {
                    oracle.push(format!("arrays of different lengths: impl {} but an InvalidArgumentError is documented", ans));
                }
            } else if ans != naive {
                oracle.push(format!("{}: impl {} vs naive char-level matcher {}", cfg_name(&c), ans, naive));
            }
            // every other configuration must give the same answer
            if lscalar {
                for enc in 0..8 {
                    for dict_pat in [false, true] {
                        if dict_pat && val_enc(enc) != 0 {
                            continue;
                        }
                        let a2 = run_like_ls(op, enc, dict_pat, false, &pats, &hays);
                        if a2 != ans {
                            oracle.push(format!("encodings differ: left-scalar {} gives {} but left-scalar {} dictpat {} gives {}", ENC_NAMES[c.enc], ans, ENC_NAMES[enc], dict_pat, a2));
                        }
                    }
                }
                // ... and the same rows as two arrays
                let a2 = run_like_cfg(op, Cfg { enc: var % 3, sliced: false, scalar: false, dict_pat: false }, &pats, &hays_full);
                if a2 != ans {
                    oracle.push(format!("left scalar gives {} but the broadcast array gives {}", ans, a2));
                }
            } else {
                for enc in 0..8 {
                    for scalar in [false, true] {
                        for sliced in [false, true] {
                            if (scalar && !one) || (sliced && (enc + var) % 2 == 0) {
                                continue;
                            }
                            // the layout variants 4..7 run one configuration each
                            if enc >= 4 && (sliced != ((enc + var) % 3 == 0) || scalar != (one && (enc + var) % 2 == 0)) {
                                continue;
                            }
                            let c2 = Cfg { enc, sliced, scalar, dict_pat: false };
                            if c2 == c {
                                continue;
                            }
                            let a2 = run_like_cfg(op, c2, &pats, &hays);
                            if a2 != ans {
                                oracle.push(format!("encodings differ: {} gives {} but {} gives {}", cfg_name(&c), ans, cfg_name(&c2), a2));
                            }
                        }
                    }
                }
                if one && hays.len() == 1 {
                    // both operands scalar
                    let a2 = run_like_ls(op, var % 8, false, true, &pats, &hays);
                    if a2 != ans {
                        oracle.push(format!("both operands scalar: {} vs {}", a2, ans));
                    }
                    tags.push_str(" both-scalar");
                }
                // documented errors: operand types must match; LIKE is not defined on binary
                if var % 16 == 5 && !hays.is_empty() {
                    let (pp, hh) = (pats.clone(), hays.clone());
                    let f = like_fn(op);
                    let e = guarded(move || {
                        let full: Vec<Row> = if pp.len() == 1 { vec![pp[0].clone(); hh.len()] } else { pp.clone() };
                        match f(&mk_str(&hh, 0, false), &mk_str(&full, 1 + var / 16 % 2, false)) {
                            Ok(b) => show_tri(&bool_rows(&b)),
                            Err(e) => err_class(&e),
                        }
                    });
                    if e != "ERR:invalid-arg" {
                        oracle.push(format!("Utf8 vs LargeUtf8/Utf8View operands: {} instead of an error", e));
                    }
                    tags.push_str(" err:type-mismatch");
                }
                if var % 16 == 6 && !len_mismatch && !matches!(op, "sw" | "ew" | "ct") {
                    let e = run_like_bin(op, var / 16 % 3, false, false, &pats, &hays);
                    if e != "ERR:invalid-arg" {
                        oracle.push(format!("{} on binary operands: {} instead of an error", op, e));
                    }
                    tags.push_str(" err:like-on-binary");
                }
            }
            if (op == "sw" || op == "ew" || op == "ct") && !lscalar && !len_mismatch {
                for kind in 0..3 {
                    for scalar in [false, true] {
                        if scalar && !one {
                            continue;
                        }
                        let a2 = run_like_bin(op, kind, scalar, (kind + var) % 2 == 1, &pats, &hays);
                        if a2 != ans {
                            oracle.push(format!("encodings differ: {} gives {} but binary kind {} scalar {} gives {}", cfg_name(&c), ans, kind, scalar, a2));
                        }
                    }
                }
                tags.push_str(" binary-checked");
            }
            if op == "like" || op == "nlike" || op == "ilike" || op == "nilike" {
                for p in pats.iter().flatten().take(3) {
                    tags.push(' ');
                    tags.push_str(classify_tag(p));
                    if p.ends_with('\\') && !p.ends_with("\\\\") {
                        tags.push_str(" trailing-backslash");
                    }
                    if p.contains('\\') {
                        tags.push_str(" escape");
                    }
                }
            }
            if !pats.iter().flatten().all(|p| p.is_ascii()) {
                tags.push_str(" pat-nonascii");
            }
            if !hays.iter().flatten().all(|p| p.is_ascii()) {
                tags.push_str(" hay-nonascii");
            } else if op == "ilike" || op == "nilike" {
                tags.push_str(" ascii-fast-path-eligible");
            }
            if hays.iter().flatten().any(|h| h.len() > 12) {
                tags.push_str(" long-view");
            }
            if ans.contains('0') && ans.contains('1') {
                tags.push_str(" nt");
            }
            // repaired finding (907f942): a dictionary whose values array is empty (all rows null) reaches
            // `normalized_keys` (assert_ne!(v_len, 0)) whenever the pattern is an array; the
            // dictionary+array configuration is always among the ones run for this line
            if lscalar {
                tags.push_str(" left-scalar");
            }
            if (!lscalar && hays.iter().all(|h| h.is_none()))
                || (!c.scalar && c.dict_pat && pats.iter().all(|p| p.is_none()))
                || (lscalar && pats.iter().all(|p| p.is_none()))
            {
                tags.push_str(" kf:dict-empty-values");
            }
            ans
        }
        "rx" => {
            let var: usize = t[2].parse().unwrap();
            let pats = parse_rows(t[3]);
            let hays = parse_rows(t[4]);
            let one = pats.len() == 1;
            let c = cfg_of(var, one);
            let flags: Option<&str> = match (var / 32) % 4 {
                0 => None,
                1 => Some("i"),
                2 => Some("s"),
                _ => Some("is"),
            };
            tags.push_str(&format!(" {} flags:{}", cfg_name(&Cfg { enc: val_enc(c.enc), ..c }), flags.unwrap_or("none")));
            let ans = run_rx_cfg(var, c, flags, &pats, &hays);
            let full: Vec<Row> = if one { vec![pats[0].clone(); hays.len()] } else { pats.clone() };
            // naive answer (null handling of the array kernel: null if either side null;
            // the scalar kernel keeps the haystack's nulls)
            let mut supported = true;
            let row_flags = |i: usize| -> Option<&str> { if !c.scalar && (var / 16) % 2 == 1 && i % 3 == 2 { None } else { flags } };
            let naive: Vec<Option<bool>> = full
                .iter()
                .zip(hays.iter())
                .enumerate()
                .map(|(i, (p, h))| {
                    let (p, h) = (p.as_ref()?, h.as_ref()?);
                    match regex_naive(p, row_flags(i).unwrap_or(""), h) {
                        Some(b) => Some(b),
                        None => {
                            supported = false;
                            None
                        }
                    }
                })
                .collect();
            // an invalid expression is an error as soon as it has to be compiled: always for a scalar
            // pattern, for the first row with both sides non-null for an array pattern
            let complete = |p: &str, f: Option<&str>| match f {
                Some(f) => format!("(?{}){}", f, p),
                None => p.to_string(),
            };
            let invalid = |p: &str, f: Option<&str>| !complete(p, f).is_empty() && regex::Regex::new(&complete(p, f)).is_err();
            let expect_err = if full.len() != hays.len() {
                true
            } else if c.scalar {
                pats[0].as_deref().is_some_and(|p| invalid(p, flags))
            } else {
                full.iter().zip(hays.iter()).enumerate().any(|(i, (p, h))| h.is_some() && p.as_deref().is_some_and(|p| invalid(p, row_flags(i))))
            };
            if ans != "SCALAR-NULL" && (ans == "ERR:compute") != expect_err {
                oracle.push(format!("{}: impl {} but error expected: {}", cfg_name(&c), ans, expect_err));
            }
            if expect_err {
                tags.push_str(" err:invalid-regex-or-length");
            }
            if supported && !ans.starts_with("ERR") && ans != "SCALAR-NULL" && full.len() == hays.len() {
                let naive = show_tri(&naive);
                if ans != naive {
                    oracle.push(format!("{}: impl {} vs naive backtracking regex matcher {}", cfg_name(&c), ans, naive));
                }
                tags.push_str(" naive-checked");
            }
            if ans != "SCALAR-NULL" {
                for enc in [0usize, 1, 2, 5, 6, 7] {
                    for scalar in [false, true] {
                        if scalar && (!one || pats[0].is_none()) {
                            continue;
                        }
                        if scalar != c.scalar && flags.is_some() && (var / 16) % 2 == 1 {
                            continue; // per-row NULL flags exist only for array operands
                        }
                        let c2 = Cfg { enc, sliced: (enc + var) % 3 == 0, scalar, dict_pat: false };
                        let a2 = run_rx_cfg(if !scalar && enc < 3 { var | 2048 } else { var }, c2, flags, &pats, &hays);
                        if a2 != ans {
                            oracle.push(format!("encodings differ: {} gives {} but {} gives {}", cfg_name(&c), ans, cfg_name(&c2), a2));
                        }
                    }
                }
            }
            if ans.contains('0') && ans.contains('1') {
                tags.push_str(" nt");
            }
            ans
        }
        "rxm" => {
            // regexp_match: the captured groups (or the whole match) per row
            let var: usize = t[2].parse().unwrap();
            let pats = parse_rows(t[3]);
            let hays = parse_rows(t[4]);
            let one = pats.len() == 1;
            let flags: Option<&str> = match (var / 32) % 4 {
                0 => None,
                1 => Some("i"),
                2 => Some("s"),
                _ => Some("is"),
            };
            let (p2, h2) = (pats.clone(), hays.clone());
            let run = move |enc: usize, scalar: bool, sliced: bool| -> String {
                let (pats, hays) = (p2.clone(), h2.clone());
                let fl = flags.map(|f| f.to_string());
                guarded(move || {
                    let h = mk_str(&hays, enc, sliced);
                    let r = if scalar {
                        let p = Scalar::new(mk_str(&pats[..1], val_enc(enc), false));
                        let f = fl.as_ref().map(|f| Scalar::new(mk_str(&[Some(f.clone())], val_enc(enc), false)));
                        arrow_string::regexp::regexp_match(h.as_ref(), &p, f.as_ref().map(|x| x as &dyn Datum))
                    } else {
                        let full: Vec<Row> = if pats.len() == 1 { vec![pats[0].clone(); hays.len()] } else { pats.clone() };
                        let p = mk_str(&full, val_enc(enc), sliced);
                        let f = fl.as_ref().map(|f| mk_str(&vec![Some(f.clone()); hays.len()], val_enc(enc), false));
                        arrow_string::regexp::regexp_match(h.as_ref(), &p, f.as_ref().map(|x| x as &dyn Datum))
                    };
                    match r {
                        Ok(a) => {
                            if a.len() != hays.len() {
                                return format!("WRONG-LEN:{}", a.len());
                            }
                            let l = a.as_list::<i32>();
                            let rows: Vec<String> = (0..l.len())
                                .map(|i| {
                                    if l.is_null(i) {
                                        "~".to_string()
                                    } else {
                                        let v = bytes_rows(l.value(i).as_ref());
                                        if v.is_empty() { "E".to_string() } else { v.iter().map(show_row_bytes).collect::<Vec<_>>().join("+") }
                                    }
                                })
                                .collect();
                            if rows.is_empty() { "-".to_string() } else { rows.join(",") }
                        }
                        Err(e) => err_class(&e),
                    }
                })
            };
            let enc = [0usize, 1, 2, 5, 6, 7][var % 6];
            let scalar = one && (var / 8) % 2 == 1;
            let ans = run(enc, scalar, (var / 4) % 2 == 1);
            tags.push_str(&format!(" enc:{}{} flags:{}", ENC_NAMES[enc], if scalar { "+scalar" } else { "+array" }, flags.unwrap_or("none")));
            // expected: straight from the regex engine
            let full: Vec<Row> = if one { vec![pats[0].clone(); hays.len()] } else { pats.clone() };
            let complete = |p: &str| match flags {
                Some(f) => format!("(?{}){}", f, p),
                None => p.to_string(),
            };
            let mut any_invalid = false;
            let want: Vec<String> = full
                .iter()
                .zip(hays.iter())
                .map(|(p, h)| match (p, h) {
                    (Some(p), Some(h)) => {
                        let cp = complete(p);
                        if cp.is_empty() {
                            return "_".to_string();
                        }
                        match regex::Regex::new(&cp) {
                            Err(_) => {
                                any_invalid = true;
                                "~".to_string()
                            }
                            Ok(re) => match re.captures(h) {
                                None => "~".to_string(),
                                Some(caps) => {
                                    let v: Vec<String> = caps.iter().skip(if caps.len() > 1 { 1 } else { 0 }).flatten().map(|m| show_row(&Some(m.as_str().to_string()))).collect();
                                    if v.is_empty() { "E".to_string() } else { v.join("+") }
                                }
                            },
                        }
                    }
                    _ => "~".to_string(),
                })
                .collect();
            let want = if want.is_empty() { "-".to_string() } else { want.join(",") };
            if scalar && pats[0].is_some() && regex::Regex::new(&complete(pats[0].as_ref().unwrap())).is_err() {
                any_invalid = true;
            }
            if full.len() != hays.len() {
                // regexp_match zips; nothing documented — only encoding identity is checked
                tags.push_str(" err:length-mismatch");
            } else if any_invalid {
                if ans != "ERR:compute" {
                    oracle.push(format!("invalid regular expression: impl {} instead of an error", ans));
                }
                tags.push_str(" err:invalid-regex-or-length");
            } else if ans != want {
                oracle.push(format!("regexp_match: impl {} vs captures of the regex engine {}", ans, want));
            }
            for enc2 in [0usize, 1, 2, 5, 6, 7] {
                for sc in [false, true] {
                    if sc && !one {
                        continue;
                    }
                    let a2 = run(enc2, sc, (enc2 + var) % 2 == 0);
                    if a2 != ans {
                        oracle.push(format!("encodings differ: reported {} but {} scalar {} gives {}", ans, ENC_NAMES[enc2], sc, a2));
                    }
                }
            }
            if ans.contains('~') && ans.chars().any(|c| c.is_ascii_hexdigit()) {
                tags.push_str(" nt");
            }
            ans
        }
        op @ ("rxf" | "rxmf") => {
            // regexp_is_match / regexp_match with a PER-ROW flags array:
            //   C20 rxf|rxmf <var> <flags> <patterns> <haystacks>      (flags row: hex text, `_` = "", `~` = null)
            // row i must be matched with pattern_i under flags_i, independently of every other row
            let var: usize = t[2].parse().unwrap();
            let flags = parse_rows(t[3]);
            let pats = parse_rows(t[4]);
            let hays = parse_rows(t[5]);
            let is_match = op == "rxf";
            let run = |enc: usize, sliced: bool, fl: &[Row], pp: &[Row], hh: &[Row]| -> String {
                let (fl, pp, hh) = (fl.to_vec(), pp.to_vec(), hh.to_vec());
                guarded(move || {
                    use arrow_string::regexp::*;
                    let h = mk_str(&hh, enc, sliced);
                    let ve = val_enc(enc);
                    let p = mk_str(&pp, ve, !sliced);
                    let f = mk_str(&fl, ve, false);
                    if is_match {
                        let r = match ve {
                            0 => regexp_is_match(h.as_string::<i32>(), p.as_string::<i32>(), Some(f.as_string::<i32>())),
                            1 => regexp_is_match(h.as_string::<i64>(), p.as_string::<i64>(), Some(f.as_string::<i64>())),
                            _ => regexp_is_match(h.as_string_view(), p.as_string_view(), Some(f.as_string_view())),
                        };
                        match r {
                            Ok(b) => show_tri(&bool_rows(&b)),
                            Err(e) => err_class(&e),
                        }
                    } else {
                        match regexp_match(h.as_ref(), &p, Some(&f as &dyn Datum)) {
                            Ok(a) => {
                                let l = a.as_list::<i32>();
                                let rows: Vec<String> = (0..l.len())
                                    .map(|i| {
                                        if l.is_null(i) {
                                            "~".to_string()
                                        } else {
                                            let v = bytes_rows(l.value(i).as_ref());
                                            if v.is_empty() { "E".to_string() } else { v.iter().map(show_row_bytes).collect::<Vec<_>>().join("+") }
                                        }
                                    })
                                    .collect();
                                if rows.is_empty() { "-".to_string() } else { rows.join(",") }
                            }
                            Err(e) => err_class(&e),
                        }
                    }
                })
            };
            let encs = [0usize, 1, 2, 5, 6, 7];
            let enc = encs[var % 6];
            let ans = run(enc, (var / 8) % 2 == 1, &flags, &pats, &hays);
            tags.push_str(&format!(" enc:{}", ENC_NAMES[enc]));
            // expected, row by row, each row compiled on its own with the regex engine
            let n = hays.len();
            let ok_shape = flags.len() == n && pats.len() == n;
            let mut invalid = false;
            let want: Vec<String> = (0..if ok_shape { n } else { 0 })
                .map(|i| match (&pats[i], &hays[i]) {
                    (Some(p), Some(h)) => {
                        let cp = match &flags[i] {
                            Some(f) => format!("(?{}){}", f, p),
                            None => p.clone(),
                        };
                        if cp.is_empty() {
                            return if is_match { "1".to_string() } else { "_".to_string() };
                        }
                        match regex::Regex::new(&cp) {
                            Err(_) => {
                                invalid = true;
                                "~".to_string()
                            }
                            Ok(re) if is_match => (if re.is_match(h) { "1" } else { "0" }).to_string(),
                            Ok(re) => match re.captures(h) {
                                None => "~".to_string(),
                                Some(caps) => {
                                    let v: Vec<String> = caps.iter().skip(if caps.len() > 1 { 1 } else { 0 }).flatten().map(|m| show_row(&Some(m.as_str().to_string()))).collect();
                                    if v.is_empty() { "E".to_string() } else { v.join("+") }
                                }
                            },
                        }
                    }
                    _ => (if is_match { "n" } else { "~" }).to_string(),
                })
                .collect();
            if ok_shape {
                let want = if want.is_empty() { "-".to_string() } else if is_match { want.concat() } else { want.join(",") };
                if invalid {
                    tags.push_str(" err:invalid-regex-or-length");
                    if ans != "ERR:compute" {
                        oracle.push(format!("invalid regular expression in a row that must be evaluated: impl {} instead of an error", ans));
                    }
                } else if ans != want {
                    oracle.push(format!("per-row flags: impl {} but matching every row on its own gives {}", ans, want));
                }
                // the same rows in reverse order must give the reversed answer (no history inside a batch)
                if !invalid {
                    let rev = |v: &[Row]| v.iter().rev().cloned().collect::<Vec<Row>>();
                    let a2 = run(enc, false, &rev(&flags), &rev(&pats), &rev(&hays));
                    let back: String = if is_match { a2.chars().rev().collect() } else { a2.split(',').rev().collect::<Vec<_>>().join(",") };
                    if back != ans && !ans.starts_with("ERR") {
                        oracle.push(format!("row order matters: forward {} but reversed rows give {}", ans, a2));
                    }
                }
            }
            for e2 in encs {
                let a2 = run(e2, (e2 + var) % 2 == 0, &flags, &pats, &hays);
                if a2 != ans {
                    oracle.push(format!("encodings differ: {} gives {} but {} gives {}", ENC_NAMES[enc], ans, ENC_NAMES[e2], a2));
                }
            }
            let distinct = |v: &[Row]| v.iter().collect::<std::collections::BTreeSet<_>>().len();
            if distinct(&flags) > 1 {
                tags.push_str(" flags:non-uniform");
            }
            if ok_shape && (0..n).any(|i| (0..i).any(|j| pats[i].is_some() && pats[i] == pats[j] && flags[i] != flags[j])) {
                tags.push_str(" rx:same-pattern-different-flags nt");
            }
            if ok_shape && (0..n).any(|i| (0..i).any(|j| flags[i] == flags[j] && pats[i] != pats[j])) {
                tags.push_str(" rx:same-flags-different-patterns");
            }
            ans
        }
        "substr" => {
            let kind = t[2];
            let start: i64 = t[3].parse().unwrap();
            let len: Option<u64> = if t[4] == "N" { None } else { Some(t[4].parse().unwrap()) };
            let rows = parse_rows(t[5]);
            let is_str = kind.starts_with('s');
            let k: usize = kind[1..2].parse().unwrap();
            let sliced = kind.len() > 2;
            let rows2 = rows.clone();
            let run = move |is_str: bool, k: usize, sliced: bool| -> (String, bool) {
                let rows = rows2.clone();
                let mut utf8_ok = true;
                let u = &mut utf8_ok;
                let s = guarded(move || {
                    let a = if is_str { mk_str(&rows, k, sliced) } else { mk_bin(&rows, k, sliced) };
                    match arrow_string::substring::substring(a.as_ref(), start, len) {
                        Ok(r) => {
                            if r.len() != rows.len() {
                                return format!("WRONG-LEN:{}", r.len());
                            }
                            *u = stored_utf8_ok(r.as_ref());
                            show_rows_bytes(&bytes_rows(r.as_ref()))
                        }
                        Err(e) => err_class(&e),
                    }
                });
                (s, utf8_ok)
            };
            let (ans, ok) = run(is_str, k, sliced);
            if !ok {
                oracle.push("substring returned a string array holding invalid UTF-8".into());
            }
            tags.push_str(&format!(" kind:{}", kind));
            // same answer for the other encodings of the same family
            if is_str {
                for k2 in 0..8 {
                    // (the hand-made dictionary always has an unreferenced value: only when asked for)
                    if k2 != k && k2 != 4 {
                        let (a2, ok2) = run(true, k2, false);
                        if a2 != ans || !ok2 {
                            oracle.push(format!("encodings differ: s{} gives {} but s{} gives {} (utf8 ok {})", k, ans, k2, a2, ok2));
                        }
                    }
                }
            } else {
                let same_len = rows.iter().flatten().map(|s| s.len()).collect::<std::collections::BTreeSet<_>>().len() <= 1;
                for k2 in 0..4 {
                    if k2 != k && (k2 != 3 || same_len) && (k != 3 || same_len) {
                        let (a2, _) = run(false, k2, false);
                        if a2 != ans {
                            oracle.push(format!("encodings differ: b{} gives {} but b{} gives {}", k, ans, k2, a2));
                        }
                    }
                }
            }
            if ans.starts_with("ERR") {
                tags.push_str(" boundary-error");
            }
            // repaired finding (2fa7ec5): start / length at or beyond the i32 offset range (all encodings of the
            // family are run for every line, so the i32 limit is the relevant one)
            const SAFE: u64 = (1 << 31) - 65536;
            if start.unsigned_abs() >= SAFE || len.is_some_and(|l| l >= SAFE) {
                tags.push_str(" kf:substr-huge-arg");
            }
            // known finding: a sliced dictionary still holds the junk rows as unreferenced values
            // (the hand-made dictionary s4 always has an unused value)
            if is_str {
                let n_all = rows.len();
                let unused4 = if n_all % 2 == 0 { "unusedK" } else { "unus\u{212A}d" };
                let mut cands: Vec<&str> = if k == 4 { vec![unused4] } else { vec![] };
                if k == 3 && sliced {
                    cands.extend([JUNK_HEAD, JUNK_TAIL]);
                }
                if k == 4 && sliced {
                    cands.extend([JUNK_HEAD, JUNK_TAIL, "unusedK", "unus\u{212A}d"]);
                }
                let bad = cands.iter().any(|v| {
                    let n = v.len() as i128;
                    let st = if start > 0 { (start as i128).min(n) } else if start == 0 { 0 } else { (n + start as i128).max(0) };
                    let en = match len {
                        Some(l) => (st + l as i128).min(n),
                        None => n,
                    };
                    !v.is_char_boundary(st as usize) || !v.is_char_boundary(en as usize)
                });
                if bad {
                    tags.push_str(" kf:substr-dict-unreferenced");
                }
            }
            // repaired finding (479a5bc): byte_substring used to cut the bytes stored under NULL slots (layouts s5/s6,
            // run for every string line): a multi-byte character there makes the whole call fail
            if is_str {
                let cut_bad = |v: &str| {
                    let n = v.len() as i128;
                    let st = if start > 0 { (start as i128).min(n) } else if start == 0 { 0 } else { (n + start as i128).max(0) };
                    let en = match len {
                        Some(l) => (st + l as i128).min(n),
                        None => n,
                    };
                    !v.is_char_boundary(st as usize) || !v.is_char_boundary(en as usize)
                };
                let shift = if (k == 5 || k == 6) && sliced { [0usize, 2] } else { [0usize, 0] };
                if rows.iter().enumerate().any(|(i, r)| r.is_none() && shift.iter().any(|sh| (i + sh) % 2 == 1) && cut_bad("\u{e9}\u{20AC}")) {
                    tags.push_str(" kf:substr-null-slot-content");
                }
            }
            if start < 0 {
                tags.push_str(" neg-start");
            }
            if rows.iter().flatten().any(|s| !s.is_ascii()) && (start != 0 || len.is_some()) {
                tags.push_str(" nt");
            }
            ans
        }
        "substrc" => {
            let var: usize = t[2].parse().unwrap();
            let start: i64 = t[3].parse().unwrap();
            let len: Option<u64> = if t[4] == "N" { None } else { Some(t[4].parse().unwrap()) };
            let rows = parse_rows(t[5]);
            let rows2 = rows.clone();
            let nj = (var / 4) % 2 == 1;
            let run = move |large: bool, sliced: bool| -> String {
                let rows = rows2.clone();
                guarded(move || {
                    let a = mk_str(&rows, if large { 1 } else { 0 } + if nj { 5 } else { 0 }, sliced);
                    let r: Result<ArrayRef, ArrowError> = if large {
                        arrow_string::substring::substring_by_char(a.as_string::<i64>(), start, len).map(|x| Arc::new(x) as ArrayRef)
                    } else {
                        arrow_string::substring::substring_by_char(a.as_string::<i32>(), start, len).map(|x| Arc::new(x) as ArrayRef)
                    };
                    match r {
                        Ok(r) => {
                            if !stored_utf8_ok(r.as_ref()) {
                                return "INVALID-UTF8".into();
                            }
                            show_rows_bytes(&bytes_rows(r.as_ref()))
                        }
                        Err(e) => err_class(&e),
                    }
                })
            };
            let ans = run(var % 2 == 1, (var / 2) % 2 == 1);
            let other = run(var % 2 == 0, false);
            if other != ans {
                oracle.push(format!("encodings differ: {} vs {}", ans, other));
            }
            // naive: char-indexed substring on Rust strings
            let naive: Vec<Row> = rows
                .iter()
                .map(|r| {
                    r.as_ref().map(|s| {
                        let cs: Vec<char> = s.chars().collect();
                        let n = cs.len() as i128;
                        let st = if start >= 0 { (start as i128).min(n) } else { (n + start as i128).max(0) };
                        let en = match len {
                            None => n,
                            Some(l) => (st + l as i128).min(n),
                        };
                        cs[st as usize..en as usize].iter().collect::<String>()
                    })
                })
                .collect();
            if show_rows(&naive) != ans {
                oracle.push(format!("impl {} vs naive char-indexed substring {}", ans, show_rows(&naive)));
            }
            tags.push_str(if rows.iter().flatten().all(|s| s.is_ascii()) { " ascii-path" } else { " utf8-path nt" });
            if nj {
                tags.push_str(" layout:null-junk");
            }
            if start < 0 {
                tags.push_str(" neg-start");
            }
            ans
        }
        op @ ("len" | "bitlen") => {
            let kind: usize = t[2].parse().unwrap();
            let rows = parse_rows(t[3]);
            let rows2 = rows.clone();
            let run = move |kind: usize| -> String {
                let rows = rows2.clone();
                guarded(move || {
                    // 0..3 plain, 4..7 sliced, 8..10 binary, 11 FixedSizeBinary, 12 hand-made dictionary,
                    // 13/14/15 null-junk Utf8/LargeUtf8/Utf8View, 16 run-end encoded Utf8
                    let a: ArrayRef = match kind {
                        0..=3 => mk_str(&rows, kind, false),
                        4..=7 => mk_str(&rows, kind - 4, true),
                        8..=11 => mk_bin(&rows, kind - 8, false),
                        12 => mk_str(&rows, 4, true),
                        13 | 14 => mk_str(&rows, kind - 8, kind == 14),
                        15 => mk_str(&rows, 7, false),
                        _ => {
                            let vals = mk_str(&rows, 0, false);
                            let ends: Int32Array = (1..=rows.len() as i32).collect();
                            Arc::new(RunArray::<Int32Type>::try_new(&ends, vals.as_ref()).unwrap())
                        }
                    };
                    let r = if op == "len" { arrow_string::length::length(a.as_ref()) } else { arrow_string::length::bit_length(a.as_ref()) };
                    match r {
                        Ok(r) => {
                            let ints = |x: &dyn Array, i: usize| -> i64 {
                                match x.data_type() {
                                    arrow_schema::DataType::Int32 => x.as_primitive::<Int32Type>().value(i) as i64,
                                    _ => x.as_primitive::<Int64Type>().value(i),
                                }
                            };
                            let v: Vec<String> = (0..r.len())
                                .map(|i| {
                                    if let Some(d) = r.as_any_dictionary_opt() {
                                        if d.values().is_empty() {
                                            return "~".to_string();
                                        }
                                        let k = d.normalized_keys();
                                        if d.keys().is_null(i) || d.values().is_null(k[i]) { "~".to_string() } else { ints(d.values().as_ref(), k[i]).to_string() }
                                    } else if let Some(ree) = r.as_any().downcast_ref::<RunArray<Int32Type>>() {
                                        let j = ree.get_physical_index(i);
                                        if ree.values().is_null(j) { "~".to_string() } else { ints(ree.values().as_ref(), j).to_string() }
                                    } else if r.is_null(i) {
                                        "~".to_string()
                                    } else {
                                        ints(r.as_ref(), i).to_string()
                                    }
                                })
                                .collect();
                            if r.len() != rows.len() {
                                return format!("WRONG-LEN:{}", r.len());
                            }
                            show_list(&v)
                        }
                        Err(e) => err_class(&e),
                    }
                })
            };
            let ans = run(kind);
            let same_w = rows.iter().all(|r| r.is_some()) && rows.iter().flatten().map(|s| s.len()).collect::<std::collections::BTreeSet<_>>().len() == 1;
            for k2 in 0..17 {
                // FixedSizeBinary needs equal widths (and length() reports the width under nulls too);
                // empty dictionaries / run arrays are not constructible
                if k2 != kind && (k2 != 11 || same_w) && (k2 != 16 || !rows.is_empty()) {
                    let a2 = run(k2);
                    if a2 != ans {
                        oracle.push(format!("encodings differ: kind {} gives {} but kind {} gives {}", kind, ans, k2, a2));
                    }
                }
            }
            tags.push_str(&format!(" kind:{}", kind));
            if rows.iter().flatten().any(|s| !s.is_ascii()) {
                tags.push_str(" nt");
            }
            ans
        }
        "concat" => {
            let var: usize = t[2].parse().unwrap();
            let l = parse_rows(t[3]);
            let r = parse_rows(t[4]);
            let (l2, r2) = (l.clone(), r.clone());
            // 0/1 typed Utf8/LargeUtf8, 2 Utf8View, 3/4 Utf8/LargeUtf8 through concat_elements_dyn,
            // 5/6/7 Binary/LargeBinary/BinaryView, 8 FixedSizeBinary, 9/10/11 null-junk Utf8/LargeUtf8/Utf8View
            let run = move |enc: usize, sliced: bool| -> String {
                let (l, r) = (l2.clone(), r2.clone());
                guarded(move || {
                    use arrow_string::concat_elements::*;
                    let (a, b): (ArrayRef, ArrayRef) = match enc {
                        0..=2 => (mk_str(&l, enc, sliced), mk_str(&r, enc, sliced && enc != 2)),
                        3 | 4 => (mk_str(&l, enc - 3, sliced), mk_str(&r, enc - 3, !sliced)),
                        5..=8 => (mk_bin(&l, enc - 5, sliced), mk_bin(&r, enc - 5, false)),
                        _ => (mk_str(&l, enc - 4, sliced), mk_str(&r, enc - 4, !sliced)),
                    };
                    let res: Result<ArrayRef, ArrowError> = match enc {
                        0 | 9 => concat_elements_utf8(a.as_string::<i32>(), b.as_string::<i32>()).map(|x| Arc::new(x) as ArrayRef),
                        1 | 10 => concat_elements_utf8(a.as_string::<i64>(), b.as_string::<i64>()).map(|x| Arc::new(x) as ArrayRef),
                        _ => concat_elements_dyn(a.as_ref(), b.as_ref()),
                    };
                    match res {
                        Ok(x) => {
                            if x.len() != l.len() {
                                return format!("WRONG-LEN:{}", x.len());
                            }
                            if !stored_utf8_ok(x.as_ref()) {
                                return "INVALID-UTF8".into();
                            }
                            show_rows_bytes(&bytes_rows(x.as_ref()))
                        }
                        Err(e) => err_class(&e),
                    }
                })
            };
            let ans = run(var % 12, (var / 12) % 2 == 1);
            let fsb_ok = |rows: &[Row]| rows.iter().flatten().map(|s| s.len()).collect::<std::collections::BTreeSet<_>>().len() <= 1;
            let fsb = fsb_ok(&l) && fsb_ok(&r);
            for enc in 0..12 {
                if enc == 8 && (!fsb || l.len() != r.len()) {
                    continue;
                }
                let a2 = run(enc, (enc + var) % 2 == 0);
                if a2 != ans {
                    oracle.push(format!("encodings differ: reported {} vs enc {} {}", ans, enc, a2));
                }
            }
            if l.len() != r.len() {
                tags.push_str(" err:length-mismatch");
            }
            if l.len() == r.len() {
                // also the n-ary kernel with three operands: l ++ r ++ l
                let many = {
                    let (l, r) = (l.clone(), r.clone());
                    guarded(move || {
                        let a = mk_str(&l, 0, false);
                        let b = mk_str(&r, 0, true);
                        match arrow_string::concat_elements::concat_elements_utf8_many(&[a.as_string::<i32>(), b.as_string::<i32>(), a.as_string::<i32>()]) {
                            Ok(x) => show_rows_bytes(&bytes_rows(&x)),
                            Err(e) => err_class(&e),
                        }
                    })
                };
                let want: Vec<Row> = l.iter().zip(r.iter()).map(|(a, b)| Some(format!("{}{}{}", a.as_ref()?, b.as_ref()?, a.as_ref()?))).collect();
                if many != show_rows(&want) {
                    oracle.push(format!("concat_elements_utf8_many: {} vs {}", many, show_rows(&want)));
                }
            }
            tags.push_str(&format!(" enc:{}", ["utf8", "large", "view", "utf8-dyn", "large-dyn", "binary", "largebinary", "binaryview", "fsb", "utf8nj", "largenj", "viewnj"][var % 12]));
            if l.iter().zip(r.iter()).any(|(a, b)| matches!((a, b), (Some(a), Some(b)) if a.len() <= 12 && b.len() <= 12 && a.len() + b.len() > 12)) {
                tags.push_str(" concat:inline+inline>12");
            }
            if l.iter().chain(r.iter()).flatten().any(|s| !s.is_ascii()) {
                tags.push_str(" nt");
            }
            ans
        }
        _ => "bad-op".to_string(),
    };
    Out { answer, oracle, tags }
}

// ------------------------------------------------------------------ generators
const ALPHA: &[char] = &[
    'a', 'b', 'A', 'k', 'K', '\u{212A}', 's', 'S', '\u{17F}', '\u{DF}', '\u{130}', 'i', 'I', '\u{131}', '\u{e9}', '\u{c9}', 'e', '\u{301}',
    '\u{20AC}', '\u{4E2D}', '\u{1F600}', '\u{10FFFF}', '\u{7FF}', '\u{800}', '\u{FFFF}', '\u{10000}', '\u{80}', '\u{7f}', '.', '^', '$', '*', '+', '?',
    '(', ')', '[', ']', '{', '}', '|', '\\', '%', '_', '\n', ' ', '-', '#', '&', '~', '\r', '\u{3c3}', '\u{3c2}', '\u{3a3}',
];
const ASCII_ALPHA: &[char] = &['a', 'b', 'A', 'B', 'k', 'K', 's', 'S', 'z', 'Z', '@', '[', '`', '{', '.', '*', '\\', '%', '_', '\n', ' ', '0'];
const PAT_SYMS: &[char] = &['%', '_', '\\', 'a', '\u{e9}', '.', '\n'];
const HAY_SYMS: &[char] = &['a', '\u{e9}', '.', '\n', '\\', '%', '_'];
const IPAT_SYMS: &[char] = &['%', '_', '\\', 'a', 'A', 'k'];
const IHAY_SYMS: &[char] = &['a', 'A', 'k', 'K', '\\', '%'];

/// all strings over `syms` of length ≤ n
fn all_strings(syms: &[char], n: usize) -> Vec<String> {
    let mut out = vec![String::new()];
    let mut last = vec![String::new()];
    for _ in 0..n {
        let mut next = vec![];
        for s in &last {
            for c in syms {
                let mut t = s.clone();
                t.push(*c);
                next.push(t);
            }
        }
        out.extend(next.iter().cloned());
        last = next;
    }
    out
}

fn rand_string(rng: &mut Rng, alpha: &[char], max: usize) -> String {
    let n = rng.usize(max + 1);
    (0..n).map(|_| *rng.pick(alpha)).collect()
}

fn rand_pattern(rng: &mut Rng, alpha: &[char]) -> String {
    let n = match rng.below(10) {
        0 => 0,
        1..=5 => 1 + rng.usize(4),
        _ => 1 + rng.usize(9),
    };
    let mut p = String::new();
    for _ in 0..n {
        match rng.below(10) {
            0 | 1 => p.push('%'),
            2 => p.push('_'),
            3 => p.push('\\'),
            _ => p.push(*rng.pick(alpha)),
        }
    }
    // shape bias: make the shortcut shapes and their near misses frequent
    match rng.below(12) {
        0 => format!("{}%", p.replace(['%', '_', '\\'], "x")),
        1 => format!("%{}", p.replace(['%', '_', '\\'], "y")),
        2 => format!("%{}%", p.replace(['%', '_', '\\'], "z")),
        3 => p.replace(['%', '_', '\\'], "w"),
        4 => format!("{}\\%", p.replace(['%', '_', '\\'], "x")),
        5 => format!("{}\\", p),
        6 => format!("%{}\\%", p.replace(['%', '_', '\\'], "x")),
        _ => p,
    }
}

/// a haystack derived from the pattern (so that matches are frequent), possibly perturbed
fn instantiate(rng: &mut Rng, p: &str, alpha: &[char]) -> String {
    let pc: Vec<char> = p.chars().collect();
    let mut s = String::new();
    for t in tokenise(&pc) {
        match t {
            Tok::Lit(c) => {
                if rng.chance(1, 6) {
                    // case variants and the non-ASCII members of the simple-case-folding class
                    let mut alts: Vec<char> = c.to_uppercase().chain(c.to_lowercase()).collect();
                    match c {
                        'k' | 'K' => alts.push('\u{212A}'),
                        's' | 'S' => alts.push('\u{17F}'),
                        '\u{DF}' => alts.push('\u{1E9E}'),
                        '\u{3c3}' | '\u{3c2}' | '\u{3a3}' => alts.extend(['\u{3c3}', '\u{3c2}', '\u{3a3}']),
                        '\u{212A}' => alts.extend(['k', 'K']),
                        '\u{17F}' => alts.extend(['s', 'S']),
                        _ => {}
                    }
                    s.push(*rng.pick(&alts));
                } else {
                    s.push(c)
                }
            }
            Tok::One => s.push(*rng.pick(alpha)),
            Tok::Many => s.push_str(&rand_string(rng, alpha, 3)),
        }
    }
    match rng.below(8) {
        0 => {
            s.push(*rng.pick(alpha));
        }
        1 => {
            s.insert(0, *rng.pick(alpha));
        }
        2 => {
            s.pop();
        }
        3 => {
            if !s.is_empty() {
                s.remove(0);
            }
        }
        _ => {}
    }
    s
}

fn gen_rows(rng: &mut Rng, alpha: &[char], n: usize, maxlen: usize, pats: &[String]) -> Vec<Row> {
    let mut rows = gen_rows0(rng, alpha, n, maxlen, pats);
    // all-null columns are rare: as a dictionary they have an empty values array, on which
    // `AnyDictionaryArray::normalized_keys` asserts (repaired in 907f942; tag kept for the histogram)
    if n > 0 && rows.iter().all(|r| r.is_none()) && !rng.chance(1, 4) {
        rows[0] = Some(rand_string(rng, alpha, maxlen));
    }
    // a modest share of all-null columns (repaired in 907f942; tag kept for the histogram)
    if n > 0 && n <= 3 && rng.chance(1, 80) {
        rows.iter_mut().for_each(|r| *r = None);
    }
    rows
}
fn gen_rows0(rng: &mut Rng, alpha: &[char], n: usize, maxlen: usize, pats: &[String]) -> Vec<Row> {
    (0..n)
        .map(|_| {
            if rng.chance(1, 15) {
                None
            } else if !pats.is_empty() && rng.chance(2, 3) {
                let p = rng.pick(pats).clone();
                Some(instantiate(rng, &p, alpha))
            } else if rng.chance(1, 8) {
                // long (> 12 bytes: out-of-line view)
                let mut s = rand_string(rng, alpha, maxlen);
                while s.len() <= 12 {
                    s.push(*rng.pick(alpha));
                }
                Some(s)
            } else {
                Some(rand_string(rng, alpha, maxlen))
            }
        })
        .collect()
}

fn regex_escape_char(c: char) -> String {
    if "\\.+*?()|[]{}^$#&-~".contains(c) { format!("\\{}", c) } else { c.to_string() }
}
/// random regex text in the subset the naive matcher understands
fn rand_regex(rng: &mut Rng, alpha: &[char], depth: usize) -> String {
    let n = 1 + rng.usize(4);
    let mut s = String::new();
    for _ in 0..n {
        let atom = match rng.below(12) {
            0 => ".".to_string(),
            1 if depth < 2 => format!("({}|{})", rand_regex(rng, alpha, depth + 1), rand_regex(rng, alpha, depth + 1)),
            2 => {
                let k = 1 + rng.usize(3);
                let body: String = (0..k)
                    .map(|_| {
                        let c = *rng.pick(alpha);
                        if "\\]^[-&~".contains(c) { format!("\\{}", c) } else { c.to_string() }
                    })
                    .collect();
                format!("[{}{}]", if rng.chance(1, 4) { "^" } else { "" }, body)
            }
            _ => regex_escape_char(*rng.pick(alpha)),
        };
        s.push_str(&atom);
        match rng.below(10) {
            0 => s.push('*'),
            1 => s.push('+'),
            2 => s.push('?'),
            _ => {}
        }
    }
    if depth == 0 {
        if rng.chance(1, 4) {
            s.insert(0, '^');
        }
        if rng.chance(1, 4) {
            s.push('$');
        }
    }
    s
}

struct Gen {
    rng: Rng,
    thorough: bool,
}

fn like_line(op: &str, var: usize, pats: &[Row], hays: &[Row]) -> String {
    format!("C20 {} {} {} {}", op, var, show_rows(pats), show_rows(hays))
}

impl Gen {

    fn random_case(&mut self) -> String {
        let rng = &mut self.rng;
        let var = rng.usize(64);
        match rng.below(100) {
            0..=29 => {
                // like / nlike, one pattern
                let alpha: &[char] = if rng.chance(1, 4) { ASCII_ALPHA } else { ALPHA };
                let p = rand_pattern(rng, alpha);
                let n = 1 + rng.usize(12);
                let hays = gen_rows(rng, alpha, n, 16, &[p.clone()]);
                let pat = if rng.chance(1, 40) { None } else { Some(p) };
                let op = if rng.chance(1, 3) { "nlike" } else { "like" };
                like_line(op, var, &[pat], &hays)
            }
            30..=39 => {
                // like with per-row patterns (exercises the predicate cache of binary_predicate)
                let alpha: &[char] = ALPHA;
                let k = 1 + rng.usize(3);
                let ps: Vec<String> = (0..k).map(|_| rand_pattern(rng, alpha)).collect();
                let n = 2 + rng.usize(10);
                let mut pats: Vec<Row> = vec![];
                let mut cur = rng.pick(&ps).clone();
                for _ in 0..n {
                    if rng.chance(1, 3) {
                        cur = rng.pick(&ps).clone();
                    }
                    pats.push(if rng.chance(1, 15) { None } else { Some(cur.clone()) });
                }
                let hays = gen_rows(rng, alpha, n, 14, &ps);
                let op = *rng.pick(&["like", "nlike", "ilike", "nilike"]);
                if rng.chance(1, 4) {
                    // the haystack is the scalar operand
                    let h = hays.iter().flatten().next().cloned();
                    return like_line(op, var, &pats, &[h]);
                }
                like_line(op, var, &pats, &hays)
            }
            40..=57 => {
                // ilike / nilike: ASCII (fast paths + Lean model) or full alphabet (oracle only)
                let ascii = rng.chance(1, 2);
                let alpha: &[char] = if ascii { ASCII_ALPHA } else { ALPHA };
                let p = rand_pattern(rng, alpha);
                let n = 1 + rng.usize(12);
                let hays = gen_rows(rng, alpha, n, 16, &[p.clone()]);
                let op = if rng.chance(1, 3) { "nilike" } else { "ilike" };
                like_line(op, var, &[Some(p)], &hays)
            }
            58..=69 => {
                // starts_with / ends_with / contains / eq_ignore_ascii_case
                let alpha: &[char] = if rng.chance(1, 4) { ASCII_ALPHA } else { ALPHA };
                let n = 1 + rng.usize(12);
                let hays = gen_rows(rng, alpha, n, 16, &[]);
                let op = *rng.pick(&["sw", "ew", "ct", "ct", "eqi"]);
                let mk_needle = |rng: &mut Rng, hays: &[Row]| -> Row {
                    if rng.chance(1, 20) {
                        return None;
                    }
                    // mostly a piece of some haystack
                    let h: Vec<&String> = hays.iter().flatten().collect();
                    if !h.is_empty() && rng.chance(3, 4) {
                        let cs: Vec<char> = rng.pick(&h).chars().collect();
                        let a = rng.usize(cs.len() + 1);
                        let b = a + rng.usize(cs.len() - a + 1);
                        let (a, b) = match op {
                            "sw" if rng.chance(2, 3) => (0, b),
                            "ew" if rng.chance(2, 3) => (a, cs.len()),
                            "eqi" => (0, cs.len()),
                            _ => (a, b),
                        };
                        let s: String = cs[a..b].iter().collect();
                        Some(if op == "eqi" && rng.bool() { s.to_ascii_uppercase() } else { s })
                    } else {
                        Some(rand_string(rng, alpha, 4))
                    }
                };
                let pats: Vec<Row> = if rng.bool() { vec![mk_needle(rng, &hays)] } else { (0..n).map(|_| mk_needle(rng, &hays)).collect() };
                like_line(op, var, &pats, &hays)
            }
            70..=77 => {
                // regexp_is_match
                let alpha: &[char] = if rng.chance(1, 3) { ASCII_ALPHA } else { ALPHA };
                let n = 1 + rng.usize(8);
                let one = rng.bool();
                let res: Vec<String> = (0..if one { 1 } else { 1 + rng.usize(3) }).map(|_| if rng.chance(1, 25) { String::new() } else { rand_regex(rng, alpha, 0) }).collect();
                let pats: Vec<Row> = if one {
                    vec![Some(res[0].clone())]
                } else {
                    (0..n).map(|_| if rng.chance(1, 12) { None } else { Some(rng.pick(&res).clone()) }).collect()
                };
                let hays: Vec<Row> = (0..n)
                    .map(|_| {
                        if rng.chance(1, 12) {
                            None
                        } else {
                            // strings built from the regex's own literal characters
                            let src: Vec<char> = rng.pick(&res).chars().filter(|c| !"\\()[]|*+?^$".contains(*c)).collect();
                            let mut s = String::new();
                            for _ in 0..rng.usize(6) {
                                if !src.is_empty() && rng.chance(3, 4) { s.push(*rng.pick(&src)) } else { s.push(*rng.pick(alpha)) }
                            }
                            Some(s)
                        }
                    })
                    .collect();
                let var = rng.usize(128);
                let (mut pats, mut hays) = (pats, hays);
                if rng.chance(1, 15) {
                    // an expression that does not compile, in a row that must be evaluated
                    pats[0] = Some(rng.pick(&["(", "[a", "*a", "a{2", "\\", "(?P<n>a)(?P<n>b)"]).to_string());
                    if hays[0].is_none() {
                        hays[0] = Some("a".to_string());
                    }
                }
                if rng.chance(1, 3) {
                    // per-row flags, patterns repeated across rows
                    let fl: Vec<Row> = (0..hays.len())
                        .map(|_| match rng.below(8) {
                            0 => None,
                            1 | 2 => Some("i".to_string()),
                            3 => Some("s".to_string()),
                            4 => Some("m".to_string()),
                            5 => Some("is".to_string()),
                            6 => Some("im".to_string()),
                            _ => Some("i".to_string()),
                        })
                        .collect();
                    let base: Vec<Row> = pats.clone();
                    let pp: Vec<Row> = (0..hays.len()).map(|i| if base.len() == 1 { base[0].clone() } else if rng.bool() { base[0].clone() } else { base[i].clone() }).collect();
                    return format!("C20 {} {} {} {} {}", if rng.bool() { "rxf" } else { "rxmf" }, var, show_rows(&fl), show_rows(&pp), show_rows(&hays));
                }
                if rng.chance(1, 3) {
                    // regexp_match: add a capture group around a part of some pattern
                    let pats: Vec<Row> = pats.iter().map(|p| p.as_ref().map(|p| if p.len() > 1 && !p.starts_with('^') && rng.bool() { format!("({})", p) } else { p.clone() })).collect();
                    return format!("C20 rxm {} {} {}", var, show_rows(&pats), show_rows(&hays));
                }
                format!("C20 rx {} {} {}", var, show_rows(&pats), show_rows(&hays))
            }
            78..=87 => {
                // substring (byte indexed)
                let is_str = rng.chance(2, 3);
                let k = if is_str { rng.usize(8) } else { rng.usize(4) };
                let n = 1 + rng.usize(6);
                let alpha: &[char] = if rng.chance(1, 4) { ASCII_ALPHA } else { ALPHA };
                let rows: Vec<Row> = if !is_str && k == 3 {
                    // fixed size binary: equal byte lengths
                    let w = rng.usize(9);
                    (0..n)
                        .map(|_| {
                            if rng.chance(1, 10) {
                                None
                            } else {
                                let mut s = String::new();
                                while s.len() < w {
                                    let c = *rng.pick(alpha);
                                    if s.len() + c.len_utf8() <= w { s.push(c) } else { s.push('x') }
                                }
                                Some(s)
                            }
                        })
                        .collect()
                } else {
                    gen_rows(rng, alpha, n, 8, &[])
                };
                let maxb = rows.iter().flatten().map(|s| s.len()).max().unwrap_or(0) as i64;
                let start = rng.pick_or(&[0, 1, -1, 2, -2, maxb, -maxb, maxb + 1, -maxb - 1, 1000, -1000], -maxb - 2, maxb + 2);
                let len = match rng.below(6) {
                    0 => "N".to_string(),
                    1 => "0".to_string(),
                    2 => "1000".to_string(),
                    _ => rng.range(0, maxb + 2).to_string(),
                };
                let sliced = rng.chance(1, 3);
                // a share of huge arguments (tag kf:substr-huge-arg, repaired in 2fa7ec5)
                let (start, len) = if rng.chance(1, 12) {
                    let hs: [i64; 9] = [i32::MAX as i64, 1 << 31, (1 << 32) + 1, i64::MAX, i64::MIN, -(1 << 31), -(1 << 31) - 1, -(1 << 32) - 1, 1];
                    let hl: [u64; 7] = [i32::MAX as u64, 1 << 31, 1 << 32, i64::MAX as u64, 1 << 63, u64::MAX, 2];
                    if rng.bool() { (*rng.pick(&hs), len) } else { (start, rng.pick(&hl).to_string()) }
                } else {
                    (start, len)
                };
                format!("C20 substr {}{}{} {} {} {}", if is_str { 's' } else { 'b' }, k, if sliced { "x" } else { "" }, start, len, show_rows(&rows))
            }
            88..=93 => {
                // substring_by_char
                let n = 1 + rng.usize(6);
                let alpha: &[char] = if rng.chance(1, 3) { ASCII_ALPHA } else { ALPHA };
                let rows = gen_rows(rng, alpha, n, 8, &[]);
                let maxc = rows.iter().flatten().map(|s| s.chars().count()).max().unwrap_or(0) as i64;
                let start = rng.pick_or(&[0, 1, -1, 2, -2, maxc, -maxc, maxc + 1, -maxc - 1, 1000, -1000, i64::MAX, i64::MIN], -maxc - 2, maxc + 2);
                let len = match rng.below(7) {
                    0 => "N".to_string(),
                    1 => "0".to_string(),
                    2 => "1000".to_string(),
                    3 => u64::MAX.to_string(),
                    _ => rng.range(0, maxc + 2).to_string(),
                };
                format!("C20 substrc {} {} {} {}", rng.usize(8), start, len, show_rows(&rows))
            }
            94..=96 => {
                let n = rng.usize(8);
                let rows = gen_rows(rng, ALPHA, n, 20, &[]);
                let kinds: Vec<usize> = (0..17).filter(|k| *k != 11 && (*k != 16 || n > 0)).collect();
                format!("C20 {} {} {}", if rng.bool() { "len" } else { "bitlen" }, rng.pick(&kinds), show_rows(&rows))
            }
            _ => {
                let n = rng.usize(8);
                let l = gen_rows(rng, ALPHA, n, 10, &[]);
                let r = gen_rows(rng, ALPHA, n, 10, &[]);
                let mut var = rng.usize(24);
                if var % 12 == 8 {
                    var += 1; // FixedSizeBinary needs equal widths: only in the dense block
                }
                format!("C20 concat {} {} {}", var, show_rows(&l), show_rows(&r))
            }
        }
    }
}

/// Deterministic block of boundary cases emitted in every run (a corpus generated in code).
fn dense_cases() -> Vec<(String, &'static str)> {
    let mut out: Vec<(String, &'static str)> = vec![];
    let some = |s: &str| Some(s.to_string());
    // ---- 1. simple-case-folding classes x every shortcut shape x both operand kinds
    let classes: [&[char]; 9] = [
        &['k', 'K', '\u{212A}'],
        &['s', 'S', '\u{17F}'],
        &['\u{b5}', '\u{3bc}', '\u{39c}'],
        &['\u{e5}', '\u{c5}', '\u{212B}'],
        &['\u{3c9}', '\u{3a9}', '\u{2126}'],
        &['\u{3c3}', '\u{3c2}', '\u{3a3}'],
        &['\u{df}', '\u{1E9E}'],
        &['i', 'I', '\u{130}', '\u{131}'],
        &['\u{1c4}', '\u{1c5}', '\u{1c6}'],
    ];
    let shapes: [(&str, &str); 10] = [("", ""), ("", "%"), ("%", ""), ("%", "%"), ("a", "%"), ("%", "a"), ("_", ""), ("", "_"), ("%a", "%"), ("a\\%", "%")];
    let mut v = 0usize;
    for cl in classes.iter() {
        for pm in cl.iter() {
            for (pre, post) in shapes.iter() {
                let pat = format!("{}{}{}", pre, pm, post);
                // rows: every member of the class placed so that each shape can match, plus near misses
                let mut all_rows: Vec<Row> = vec![];
                for hm in cl.iter() {
                    for ctx in [("", ""), ("a", ""), ("", "a"), ("a", "b"), ("x", ""), ("a%", "z")] {
                        all_rows.push(Some(format!("{}{}{}", ctx.0, hm, ctx.1)));
                    }
                }
                all_rows.push(some("a"));
                all_rows.push(None);
                let ascii_rows: Vec<Row> = all_rows.iter().filter(|r| r.as_ref().is_none_or(|s| s.is_ascii())).cloned().collect();
                for rows in [&all_rows, &ascii_rows] {
                    for op in ["ilike", "nilike", "like", "eqi"] {
                        if op == "eqi" && !(pre.is_empty() && post.is_empty()) {
                            continue;
                        }
                        v += 1;
                        // scalar pattern (var bit 8) and array pattern alternate; all encodings rotate
                        out.push((like_line(op, v % 64, &[Some(pat.clone())], rows), "dense:fold-class"));
                    }
                }
                // the haystack as the scalar operand, every shape of this member as array patterns
                if pre.is_empty() && post.is_empty() {
                    let pats: Vec<Row> = shapes.iter().map(|(a, b)| Some(format!("{}{}{}", a, pm, b))).collect();
                    for hm in cl.iter() {
                        v += 1;
                        out.push((like_line("ilike", v % 64, &pats, &[Some(format!("a{}", hm))]), "dense:fold-class"));
                    }
                }
            }
        }
    }
    // ---- 2. Utf8View boundaries: inline length 12, 4-byte prefix; needle lengths around them
    let abc = "abcdefghijklmnopqrstuvwxyz0123456789ABCDEFGHIJKLMNOPQRSTUVWXYZabcdefghijklmnopqrstuvwxyz";
    let mut hays: Vec<Row> = (0..=15).map(|l| some(&abc[..l])).collect();
    for l in [16, 17, 20, 31, 32, 33, 63, 64, 65, 80] {
        hays.push(some(&abc[..l]));
    }
    // the same tails, for ends_with
    for l in [3, 4, 5, 11, 12, 13, 14, 20] {
        hays.push(some(&abc[40 - l..40]));
    }
    hays.push(some("\u{e9}\u{e9}\u{e9}\u{e9}\u{e9}\u{e9}")); // 12 bytes, 6 chars
    hays.push(some("\u{e9}\u{e9}\u{e9}\u{e9}\u{e9}\u{e9}a")); // 13 bytes
    hays.push(some("abc\u{20AC}")); // a character straddling the 4-byte prefix
    hays.push(None);
    for m in [0usize, 1, 3, 4, 5, 11, 12, 13, 16] {
        let mut needles: Vec<String> = vec![abc[..m].to_string(), abc[40 - m..40].to_string()];
        if m > 0 {
            // near misses: last / first byte changed
            needles.push(format!("{}#", &abc[..m - 1]));
            needles.push(format!("#{}", &abc[1..m]));
            needles.push(format!("#{}", &abc[41 - m..40]));
            needles.push(abc[..m].to_ascii_uppercase());
        }
        if m == 3 || m == 4 {
            needles.push("abc\u{20AC}"[..3].to_string());
            needles.push("ab\u{e9}".to_string());
        }
        for nd in needles {
            for (op, pat) in [
                ("sw", nd.clone()),
                ("ew", nd.clone()),
                ("ct", nd.clone()),
                ("like", format!("{}%", nd)),
                ("like", format!("%{}", nd)),
                ("nlike", format!("%{}%", nd)),
                ("ilike", format!("{}%", nd)),
                ("ilike", format!("%{}", nd)),
                ("eqi", nd.clone()),
            ] {
                v += 1;
                // report the view configurations often: var % 4 == 2
                let var = if v % 2 == 0 { 2 + 4 * (v % 16) } else { v % 64 };
                out.push((like_line(op, var, &[Some(pat)], &hays), "dense:view-boundary"));
            }
        }
    }
    // ---- 3. memmem: haystack / needle sizes around 16 / 32 / 64, needle at start / middle / end / absent
    let mut big: Vec<Row> = vec![];
    for l in [15usize, 16, 17, 31, 32, 33, 63, 64, 65, 88] {
        big.push(some(&abc[..l]));
        big.push(some(&abc[88 - l..]));
    }
    for nl in [1usize, 2, 8, 15, 16, 17, 32, 40] {
        for at in [0usize, 7, 30, 88 - nl] {
            if at + nl > 88 {
                continue;
            }
            let nd = &abc[at..at + nl];
            v += 1;
            out.push((like_line("ct", v % 64, &[some(nd)], &big), "dense:memmem-size"));
            out.push((like_line("like", v % 64, &[Some(format!("%{}%", nd))], &big), "dense:memmem-size"));
        }
        let absent = format!("{}#", &abc[..nl - 1]);
        out.push((like_line("ct", nl, &[Some(absent)], &big), "dense:memmem-size"));
    }
    // ---- 4. concat_elements: operand lengths around the inline-view limit 12, several long rows
    let piece = |n: usize, off: usize| some(&abc[off..off + n]);
    for rl in [0usize, 1, 6, 11, 12, 13, 20] {
        let mut l: Vec<Row> = (0..=14).map(|n| piece(n, 0)).collect();
        let mut r: Vec<Row> = (0..=14).map(|_| piece(rl, 30)).collect();
        l.push(None);
        r.push(piece(rl, 30));
        l.push(some("\u{e9}\u{20AC}"));
        r.push(None);
        for var in 0..12 {
            if var == 8 {
                continue;
            }
            out.push((format!("C20 concat {} {} {}", var + 12 * (rl % 2), show_rows(&l), show_rows(&r)), "dense:concat-12"));
        }
        // fixed size binary: equal widths on each side
        let lf: Vec<Row> = vec![piece(5, 0), None, piece(5, 7), piece(5, 9)];
        let rf: Vec<Row> = vec![piece(rl, 30), piece(rl, 31), None, piece(rl, 33)];
        out.push((format!("C20 concat 8 {} {}", show_rows(&lf), show_rows(&rf)), "dense:concat-12"));
    }
    out.push(("C20 concat 0 61,62 61".to_string(), "dense:errors"));
    out.push(("C20 concat 2 61 61,62,63".to_string(), "dense:errors"));
    // ---- 5. length / bit_length for every input kind, lengths around 12
    let lens: Vec<Row> = (0..=14).map(|n| piece(n, 0)).chain([None, some("\u{e9}\u{20AC}\u{1F600}")]).collect();
    let fixed: Vec<Row> = vec![piece(7, 0), piece(7, 3), piece(7, 9)];
    for kind in 0..17 {
        for op in ["len", "bitlen"] {
            out.push((format!("C20 {} {} {}", op, kind, show_rows(if kind == 11 { &fixed } else { &lens })), "dense:length-kinds"));
        }
    }
    // ---- 6. documented errors and operand-shape entry points of like_op
    for op in ["like", "ilike", "sw", "ct", "eqi"] {
        out.push((like_line(op, 0, &[some("a"), some("b")], &[some("a"), some("b"), some("c")]), "dense:errors"));
        out.push((like_line(op, 5, &[some("a%")], &[some("ab"), None]), "dense:errors"));
        out.push((like_line(op, 6, &[some("a%")], &[some("ab"), None]), "dense:errors"));
        out.push((like_line(op, 24, &[some("a%")], &[some("ab")]), "dense:errors"));
        out.push((like_line(op, 8, &[None], &[some("ab"), None]), "dense:errors"));
        for var in 0..32 {
            out.push((like_line(op, var, &[some("A%"), some("%b"), None, some("a_"), some("ab")], &[some("ab")]), "dense:left-scalar"));
        }
        out.push((like_line(op, 3, &[some("A%"), some("%b")], &[None]), "dense:left-scalar"));
    }
    // ---- 7. regular expressions: captures, errors, empty pattern, null operands
    let rh = "61626361,~,_,414243,0a61,c3a9e282ac";
    for (i, re) in ["(a)(b)?", "a|(b)", "(?P<x>b)c", "", "b", "^$", "(", "[a", "(\\w)(\\w)(\\w)", "\u{e9}(.)"].iter().enumerate() {
        for var in [0usize, 1, 2, 3, 4, 5, 8, 9, 10, 32 + 8, 64 + 2, 96 + 9] {
            out.push((format!("C20 rxm {} {} {}", var + i % 2 * 4, show_row(&some(re)), rh), "dense:regexp"));
            out.push((format!("C20 rx {} {} {}", var + i % 2 * 4, show_row(&some(re)), rh), "dense:regexp"));
        }
    }
    // ---- 8. per-row flags: the same pattern text under different flags in one batch (both orders),
    //         the same flags with different patterns, null / empty flags; is_match and match
    let fset: [Row; 6] = [some("i"), some("s"), some("m"), some("is"), None, some("")];
    let pset: [(&str, [&str; 3]); 5] = [
        ("^ar", ["ARROW", "arrow", "x\nar"]),
        ("a.c", ["a\nc", "A\nC", "abc"]),
        ("^b$", ["a\nb", "B", "b"]),
        ("(K)(.)?", ["k\n", "K", "\u{212A}x"]),
        ("\u{e9}.", ["\u{c9}\n", "\u{e9}a", "e"]),
    ];
    let mut w = 0usize;
    for (p, hs) in pset.iter() {
        // every ordered pair of flags on the same pattern and the same haystack
        for (i, f1) in fset.iter().enumerate() {
            for (j, f2) in fset.iter().enumerate() {
                if i == j {
                    continue;
                }
                for h in hs.iter() {
                    w += 1;
                    for op in ["rxf", "rxmf"] {
                        out.push((format!("C20 {} {} {} {} {}", op, w % 16, show_rows(&[f1.clone(), f2.clone()]), show_rows(&[some(p), some(p)]), show_rows(&[some(h), some(h)])), "dense:regexp-row-flags"));
                    }
                }
            }
        }
        // all flags at once (without the non-compiling empty flag), forward and rotated, with null rows in between
        let f5: Vec<Row> = fset[..5].to_vec();
        for rot in 0..5 {
            let mut fl: Vec<Row> = f5.iter().cycle().skip(rot).take(5).cloned().collect();
            let mut pp: Vec<Row> = vec![some(p); 5];
            let mut hh: Vec<Row> = (0..5).map(|k| some(hs[(k + rot) % 3])).collect();
            fl.insert(2, some("i"));
            pp.insert(2, None);
            hh.insert(2, some("x"));
            fl.push(some("s"));
            pp.push(some(p));
            hh.push(None);
            w += 1;
            for op in ["rxf", "rxmf"] {
                out.push((format!("C20 {} {} {} {} {}", op, w % 16, show_rows(&fl), show_rows(&pp), show_rows(&hh)), "dense:regexp-row-flags"));
            }
        }
    }
    // the same flags with different (and repeated) patterns
    for f in fset[..5].iter() {
        let pp: Vec<Row> = vec![some("^ar"), some("a.c"), some("^ar"), some("^b$"), some("a.c"), some("^AR")];
        let hh: Vec<Row> = vec![some("ARROW"), some("a\nc"), some("arrow"), some("x\nb"), some("ABC"), some("arrow")];
        w += 1;
        for op in ["rxf", "rxmf"] {
            out.push((format!("C20 {} {} {} {} {}", op, w % 16, show_rows(&vec![f.clone(); 6]), show_rows(&pp), show_rows(&hh)), "dense:regexp-row-flags"));
        }
    }
    out.push((format!("C20 rxm 8 ~ {}", rh), "dense:regexp"));
    out.push((format!("C20 rxm 0 ~ {}", rh), "dense:regexp"));
    out.push((format!("C20 rxm 0 62,~,62,28,62,62 {}", rh), "dense:regexp"));
    out.push((format!("C20 rx 0 62,~,62,28,62,62 {}", rh), "dense:regexp"));
    out
}

fn main() {
    let args = parse_args();
    if std::env::var("VERIF_LOUD").is_err() {
        quiet_panics();
    }
    let mut sink = Sink::new(&args.out);
    let emit = |sink: &mut Sink, line: String, extra: &str| {
        let o = run_case(&line);
        let tags = format!("{} {}", o.tags, extra);
        for w in o.oracle {
            sink.oracle_failure(line.clone(), w, &tags);
        }
        sink.case(line, o.answer, &tags);
    };
    if args.mode == "replay" {
        for line in read_cases(args.replay.as_ref().unwrap()) {
            emit(&mut sink, line, "replay");
        }
    } else {
        let thorough = args.tier == "thorough";
        let mut g = Gen { rng: Rng::new(args.seed ^ 0xC20), thorough };
        if args.cases.is_none() {
            for (line, tag) in dense_cases() {
                emit(&mut sink, line, tag);
            }
            // exhaustive block: every pattern over {%, _, \, a, é, ., newline} up to length L
            // against every string over {a, é, ., newline, \, %, _} up to length L
            let l = if g.thorough { 4 } else { 3 };
            let hays: Vec<Row> = all_strings(HAY_SYMS, l).into_iter().map(Some).collect();
            for (i, p) in all_strings(PAT_SYMS, l).into_iter().enumerate() {
                let op = if i % 5 == 4 { "nlike" } else { "like" };
                let line = like_line(op, g.rng.usize(32), &[Some(p)], &hays);
                emit(&mut sink, line, "exhaustive");
            }
            // the same for ILIKE over an ASCII alphabet with case variants
            let li = if g.thorough { 4 } else { 3 };
            let ihays: Vec<Row> = all_strings(IHAY_SYMS, li).into_iter().map(Some).collect();
            for (i, p) in all_strings(IPAT_SYMS, li).into_iter().enumerate() {
                let op = if i % 5 == 4 { "nilike" } else { "ilike" };
                let line = like_line(op, g.rng.usize(32), &[Some(p)], &ihays);
                emit(&mut sink, line, "exhaustive");
            }
            // substring: every start / length on a few fixed multi-byte strings
            let fixed = vec![Some("a\u{e9}\u{20AC}\u{1F600}b".to_string()), Some(String::new()), None, Some("xyz".to_string()), Some("\u{301}e\u{301}".to_string())];
            let mut ctr = 0usize;
            for start in -12i64..=12 {
                for len in [None, Some(0u64), Some(1), Some(2), Some(3), Some(4), Some(5), Some(11), Some(12)] {
                    let ls = len.map(|l| l.to_string()).unwrap_or("N".into());
                    for kind in ["s0", "s1", "s2", "s3", "b0", "b2", "s0x", "s4", "s5", "s6x", "s7", "b1"] {
                        ctr += 1;
                        if !g.thorough && ctr % 3 != 0 {
                            continue;
                        }
                        emit(&mut sink, format!("C20 substr {} {} {} {}", kind, start, ls, show_rows(&fixed)), "exhaustive");
                    }
                    if g.thorough || (start + len.unwrap_or(7) as i64) % 2 == 0 {
                        emit(&mut sink, format!("C20 substrc {} {} {} {}", (start + 12) % 4, start, ls, show_rows(&fixed)), "exhaustive");
                    }
                }
            }
        }
        let n = n_cases(&args, 6000, 200000);
        for _ in 0..n {
            let line = g.random_case();
            emit(&mut sink, line, "");
        }
    }
    sink.finish();
}
