//! C01 correspondence harness: every array returned by a safe API is a well-formed Arrow array.
//!
//! Runtime verification by the proved validator `wellFormedB` (Lean, C09/Physical.lean) over random
//! kernel *pipelines*.  One case line per array that a safe API handed out:
//!
//!   C01 step  <desc> <step> <ltype> <dump>     array in the C09 physical grammar `A(type;len;offset;nulls;bufs;kids)`
//!   C01 stepx <desc> <step> <ltype> <dump>     same, type tree outside the Lean `DType` (views, list-views): driver answers SKIP
//!   C01 batch <desc> <rows> <fields> <cols>    a RecordBatch handed out by a reader (schema/column agreement)
//!
//! `<ltype>` is the hex of `DataType::to_string()` (the logical type, parsed back with `DataType::from_str`),
//! `<step>` is `name:seed` (the kernel applied to this array to obtain the next one) or `end`,
//! `<desc>` is provenance only (`seed.pipeline.stage/grid type/previous step`).
//!
//! `run_case` is self-contained: it rebuilds the dumped layout with `ArrayDataBuilder::build_unchecked`,
//! checks it with the real `ArrayData::validate_full` (oracle), turns it into a typed array with
//! `make_array`, applies `<step>` under `catch_unwind`, checks the output with `validate_full`, formats
//! every row of it, and stashes the output; gen mode dumps that output into the next case line.  So every
//! array of every stage is judged twice: by `validate_full` here and by `wellFormedB` in the Lean driver.
//! The harness answer is always `wf=1` (that is the property); a panic of a safe kernel on a valid input, a
//! `validate_full` failure or a RecordBatch that disagrees with its schema is an oracle failure.
use arrow_array::builder::*;
use arrow_array::cast::AsArray;
use arrow_array::types::*;
use arrow_array::*;
use arrow_buffer::{Buffer, NullBuffer, ScalarBuffer};
use arrow_data::{ArrayData, ArrayDataBuilder};
use arrow_schema::*;
use std::cell::RefCell;
use std::panic::{AssertUnwindSafe, catch_unwind};
use std::str::FromStr;
use std::sync::Arc;
use vcommon::*;

const MAX_ROWS: usize = 40;

// ------------------------------------------------------------------------------- physical type

fn nbc(b: bool) -> char {
    if b { '?' } else { '!' }
}

fn prim_width(dt: &DataType) -> Option<usize> {
    use DataType::*;
    Some(match dt {
        Int8 | UInt8 => 1,
        Int16 | UInt16 | Float16 => 2,
        Int32 | UInt32 | Float32 | Date32 | Time32(_) | Decimal32(..) | Interval(IntervalUnit::YearMonth) => 4,
        Int64 | UInt64 | Float64 | Date64 | Time64(_) | Timestamp(..) | Duration(_) | Decimal64(..) | Interval(IntervalUnit::DayTime) => 8,
        Decimal128(..) | Interval(IntervalUnit::MonthDayNano) => 16,
        Decimal256(..) => 32,
        _ => return None,
    })
}

/// type token of the C09 dump grammar (view / list-view types get tokens of their own: `v w q Q`)
fn phys_ty(dt: &DataType) -> String {
    use DataType::*;
    if let Some(w) = prim_width(dt) {
        return format!("p{}", w);
    }
    match dt {
        Null => "n".into(),
        Boolean => "b".into(),
        Utf8 => "t".into(),
        LargeUtf8 => "T".into(),
        Binary => "y".into(),
        LargeBinary => "Y".into(),
        Utf8View => "v".into(),
        BinaryView => "w".into(),
        FixedSizeBinary(n) => format!("x{}", n),
        List(f) => format!("l{}<{}>", nbc(f.is_nullable()), phys_ty(f.data_type())),
        LargeList(f) => format!("L{}<{}>", nbc(f.is_nullable()), phys_ty(f.data_type())),
        Map(f, _) => format!("l{}<{}>", nbc(f.is_nullable()), phys_ty(f.data_type())),
        ListView(f) => format!("q{}<{}>", nbc(f.is_nullable()), phys_ty(f.data_type())),
        LargeListView(f) => format!("Q{}<{}>", nbc(f.is_nullable()), phys_ty(f.data_type())),
        FixedSizeList(f, n) => format!("f{}{}<{}>", n, nbc(f.is_nullable()), phys_ty(f.data_type())),
        Struct(fs) => format!("s<{}>", fs.iter().map(|f| format!("{}{}", nbc(f.is_nullable()), phys_ty(f.data_type()))).collect::<Vec<_>>().join(",")),
        Dictionary(k, v) => {
            let signed = matches!(**k, Int8 | Int16 | Int32 | Int64);
            format!("d{}{}<{}>", prim_width(k).unwrap_or(0), if signed { 's' } else { 'u' }, phys_ty(v))
        }
        RunEndEncoded(r, v) => format!("r{}<{}>", prim_width(r.data_type()).unwrap_or(0), phys_ty(v.data_type())),
        Union(fs, mode) => format!(
            "{}<{}>",
            if *mode == UnionMode::Dense { 'D' } else { 'S' },
            fs.iter().map(|(i, f)| format!("{}:{}", i, phys_ty(f.data_type()))).collect::<Vec<_>>().join(",")
        ),
        _ => "?".into(),
    }
}

fn child_types(dt: &DataType) -> Vec<DataType> {
    use DataType::*;
    match dt {
        List(f) | LargeList(f) | FixedSizeList(f, _) | ListView(f) | LargeListView(f) | Map(f, _) => vec![f.data_type().clone()],
        Struct(fs) => fs.iter().map(|f| f.data_type().clone()).collect(),
        Dictionary(_, v) => vec![(**v).clone()],
        RunEndEncoded(r, v) => vec![r.data_type().clone(), v.data_type().clone()],
        Union(fs, _) => fs.iter().map(|(_, f)| f.data_type().clone()).collect(),
        _ => vec![],
    }
}

/// the type tree uses a layout the Lean `DType` does not have
fn is_ext(dt: &DataType) -> bool {
    use DataType::*;
    matches!(dt, ListView(_) | LargeListView(_)) || phys_ty(dt) == "?" || child_types(dt).iter().any(is_ext)
}

// ----------------------------------------------------------------------------- physical layout

#[derive(Clone, Debug)]
struct Phys {
    dt: DataType,
    len: usize,
    offset: usize,
    nulls: Option<Vec<u8>>,
    nc: Option<usize>,
    bufs: Vec<Vec<u8>>,
    kids: Vec<Phys>,
}

fn hex_e(b: &[u8]) -> String {
    if b.is_empty() { "e".into() } else { hex(b) }
}
fn unhex_e(s: &str) -> Vec<u8> {
    if s == "e" { vec![] } else { unhex(s) }
}

fn show_phys(p: &Phys) -> String {
    let nulls = match (&p.nulls, p.nc) {
        (None, _) => "-".to_string(),
        (Some(b), None) => hex_e(b),
        (Some(b), Some(n)) => format!("{}:{}", hex_e(b), n),
    };
    let bufs = if p.bufs.is_empty() { "-".to_string() } else { p.bufs.iter().map(|b| hex_e(b)).collect::<Vec<_>>().join("|") };
    format!("A({};{};{};{};{};{})", phys_ty(&p.dt), p.len, p.offset, nulls, bufs, p.kids.iter().map(show_phys).collect::<String>())
}

struct Cur<'a> {
    s: &'a [u8],
    i: usize,
}
impl<'a> Cur<'a> {
    fn peek(&self) -> u8 {
        if self.i < self.s.len() { self.s[self.i] } else { 0 }
    }
    fn expect(&mut self, c: u8) {
        assert_eq!(self.peek() as char, c as char, "parse at {}", self.i);
        self.i += 1;
    }
    fn until(&mut self, stop: u8) -> &'a str {
        let st = self.i;
        while self.i < self.s.len() && self.s[self.i] != stop {
            self.i += 1;
        }
        std::str::from_utf8(&self.s[st..self.i]).unwrap()
    }
}

/// parse a dump; the logical types come from `dt` (the dump's own type tokens are physical only)
fn parse_phys(c: &mut Cur, dt: &DataType) -> Phys {
    c.expect(b'A');
    c.expect(b'(');
    let _ty = c.until(b';');
    c.expect(b';');
    let len: usize = c.until(b';').parse().unwrap();
    c.expect(b';');
    let offset: usize = c.until(b';').parse().unwrap();
    c.expect(b';');
    let ns = c.until(b';');
    c.expect(b';');
    let bs = c.until(b';');
    c.expect(b';');
    let (nulls, nc) = if ns == "-" {
        (None, None)
    } else if let Some((h, n)) = ns.split_once(':') {
        (Some(unhex_e(h)), Some(n.parse().unwrap()))
    } else {
        (Some(unhex_e(ns)), None)
    };
    let bufs = if bs == "-" { vec![] } else { bs.split('|').map(unhex_e).collect() };
    let kts = child_types(dt);
    let mut kids = vec![];
    while c.peek() == b'A' {
        let kt = kts.get(kids.len()).cloned().unwrap_or(DataType::Null);
        kids.push(parse_phys(c, &kt));
    }
    c.expect(b')');
    Phys { dt: dt.clone(), len, offset, nulls, nc, bufs, kids }
}

fn abuf(b: &[u8]) -> Buffer {
    Buffer::from_slice_ref(b)
}

/// `build_unchecked` everywhere
fn build(p: &Phys) -> ArrayData {
    let kids: Vec<ArrayData> = p.kids.iter().map(build).collect();
    let mut b = ArrayDataBuilder::new(p.dt.clone())
        .len(p.len)
        .offset(p.offset)
        .null_bit_buffer(p.nulls.as_deref().map(abuf))
        .buffers(p.bufs.iter().map(|b| abuf(b)).collect())
        .child_data(kids);
    if let Some(n) = p.nc {
        b = b.null_count(n);
    }
    unsafe { b.build_unchecked() }
}

/// the physical layout of a real `ArrayData`.  The validity bitmap is re-based so that slot `i` is bit
/// `offset + i` (the dump grammar has no separate bitmap offset); the declared null count is kept.
fn phys_of(d: &ArrayData) -> Phys {
    let total = d.offset() + d.len();
    let (nulls, nc) = match d.nulls() {
        None => (None, None),
        Some(n) => {
            let mut b = vec![0xffu8; (total + 7) / 8];
            for i in 0..d.len().min(n.len()) {
                if n.is_null(i) {
                    let p = d.offset() + i;
                    b[p / 8] &= !(1 << (p % 8));
                }
            }
            if n.len() != d.len() {
                ORACLE.with(|o| o.borrow_mut().push(format!("nulls-len-mismatch:{}vs{}", n.len(), d.len())));
            }
            (Some(b), Some(n.null_count()))
        }
    };
    Phys {
        dt: d.data_type().clone(),
        len: d.len(),
        offset: d.offset(),
        nulls,
        nc,
        bufs: d.buffers().iter().map(|b| b.as_slice().to_vec()).collect(),
        kids: d.child_data().iter().map(phys_of).collect(),
    }
}

fn lt_token(dt: &DataType) -> String {
    hex(dt.to_string().as_bytes())
}
fn lt_parse(tok: &str) -> DataType {
    DataType::from_str(std::str::from_utf8(&unhex(tok)).unwrap()).expect("logical type")
}

/// layout features of a dump (recomputed from the case line, so replay tags equal gen tags)
fn features(p: &Phys, root: bool, out: &mut Vec<&'static str>) {
    let mut add = |s: &'static str| {
        if !out.contains(&s) {
            out.push(s)
        }
    };
    if root {
        if p.len == 0 {
            add("f:empty");
        }
        if p.offset != 0 {
            add("f:off");
        }
        if p.offset % 8 != 0 {
            add("f:off-unaligned");
        }
    } else if p.offset != 0 {
        add("f:child-off");
        if matches!(p.dt, DataType::Struct(_)) {
            add("f:struct-child-off");
        }
    }
    if p.nulls.is_some() {
        add("f:nulls");
    }
    match &p.dt {
        DataType::RunEndEncoded(..) => {
            if p.kids.first().map(|k| k.offset != 0).unwrap_or(false) {
                add("f:ree-runends-off");
            }
            if p.kids.get(1).map(|k| k.offset != 0).unwrap_or(false) {
                add("f:ree-values-off");
            }
        }
        DataType::Struct(fs) => {
            if fs.is_empty() {
                add("f:struct-nofields");
            }
            if p.offset != 0 && p.kids.iter().any(|k| matches!(k.dt, DataType::Struct(_))) {
                add("f:struct-off-nested");
            }
            if p.kids.iter().any(|k| k.len < p.offset + p.len) {
                add("f:struct-child-short");
            }
            if p.kids.iter().any(|k| k.dt == DataType::Null) {
                add("f:struct-null-child");
            }
            if p.kids.iter().any(|k| k.dt == DataType::FixedSizeBinary(0)) {
                add("f:struct-fsb0-child");
            }
        }
        DataType::Dictionary(..) => {
            if p.kids.first().map(|k| k.len == 0).unwrap_or(false) {
                add("f:dict-empty-values");
            }
        }
        DataType::Union(_, UnionMode::Sparse) => {
            if p.offset != 0 || p.kids.iter().any(|k| k.len != p.len || k.offset != 0) {
                add("f:sparse-union-child-len");
            }
        }
        DataType::FixedSizeList(_, 0) => add("f:fsl0"),
        DataType::FixedSizeBinary(0) => add("f:fsb0"),
        _ => {}
    }
    for k in &p.kids {
        features(k, false, out);
    }
}

fn kind_tag(dt: &DataType) -> &'static str {
    use DataType::*;
    match dt {
        Null => "null",
        Boolean => "bool",
        Utf8 | LargeUtf8 => "utf8",
        Binary | LargeBinary => "binary",
        Utf8View | BinaryView => "view",
        FixedSizeBinary(_) => "fsb",
        List(_) | LargeList(_) => "list",
        ListView(_) | LargeListView(_) => "listview",
        Map(..) => "map",
        FixedSizeList(..) => "fsl",
        Struct(_) => "struct",
        Dictionary(..) => "dict",
        RunEndEncoded(..) => "ree",
        Union(_, UnionMode::Dense) => "union-dense",
        Union(_, UnionMode::Sparse) => "union-sparse",
        Decimal128(..) | Decimal256(..) | Decimal32(..) | Decimal64(..) => "decimal",
        Float16 | Float32 | Float64 => "float",
        Timestamp(..) | Date32 | Date64 | Time32(_) | Time64(_) | Duration(_) | Interval(_) => "temporal",
        _ => "int",
    }
}

// ------------------------------------------------------------------------------ thread locals

thread_local! {
    static ORACLE: RefCell<Vec<String>> = RefCell::new(vec![]);
    static TAGS: RefCell<Vec<String>> = RefCell::new(vec![]);
    /// output of the step applied by the last `run_case`
    static OUT: RefCell<Option<ArrayRef>> = RefCell::new(None);
    /// further case lines produced while running a step (batches, other columns)
    static EXTRA: RefCell<Vec<(String, String)>> = RefCell::new(vec![]);
    /// the number of rows the step's result must have (set by `apply`)
    static EXPECT: RefCell<Option<usize>> = RefCell::new(None);
    /// the pipeline cannot continue from this line (input unusable / output malformed)
    static STOP: RefCell<bool> = RefCell::new(false);
}
fn expect_len(n: usize) {
    EXPECT.with(|e| *e.borrow_mut() = Some(n));
}
fn stop() {
    STOP.with(|e| *e.borrow_mut() = true);
}
fn loud(e: &ArrowError) {
    if std::env::var("VERIF_LOUD").is_ok() {
        eprintln!("ERR: {}", e);
    }
}
fn oracle(s: String) {
    ORACLE.with(|o| o.borrow_mut().push(s));
}
fn tag(s: String) {
    TAGS.with(|o| o.borrow_mut().push(s));
}

// ----------------------------------------------------------------------------------- steps

fn rand_mask(rng: &mut Rng, n: usize) -> BooleanArray {
    let mode = rng.below(6);
    let nulls = rng.chance(1, 4);
    let v: Vec<Option<bool>> = (0..n)
        .map(|i| {
            if nulls && rng.chance(1, 5) {
                None
            } else {
                Some(match mode {
                    0 => true,
                    1 => false,
                    2 => rng.chance(1, 8),
                    3 => rng.chance(7, 8),
                    4 => (i / 3) % 2 == 0,
                    _ => rng.bool(),
                })
            }
        })
        .collect();
    let m = BooleanArray::from(v);
    // sometimes hand the kernel a mask that is itself a slice at a bit offset
    if rng.chance(1, 3) {
        let k = 1 + rng.usize(9);
        let mut pre: Vec<Option<bool>> = (0..k).map(|_| Some(rng.bool())).collect();
        pre.extend(m.iter());
        BooleanArray::from(pre).slice(k, n)
    } else {
        m
    }
}

fn rotated(a: &ArrayRef, k: usize) -> Result<ArrayRef, ArrowError> {
    let n = a.len();
    if n == 0 {
        return Ok(a.clone());
    }
    let k = k % n;
    arrow_select::concat::concat(&[a.slice(k, n - k).as_ref(), a.slice(0, k).as_ref()])
}

fn cast_targets(dt: &DataType) -> Vec<DataType> {
    use DataType::*;
    let f = |t: DataType| Arc::new(Field::new("item", t, true));
    let mut v = vec![
        Int8,
        Int32,
        Int64,
        UInt8,
        UInt64,
        Float32,
        Float64,
        Boolean,
        Utf8,
        LargeUtf8,
        Utf8View,
        Binary,
        LargeBinary,
        BinaryView,
        Decimal128(20, 3),
        Decimal256(40, 2),
        Date32,
        Date64,
        Timestamp(TimeUnit::Microsecond, None),
        Timestamp(TimeUnit::Second, Some("UTC".into())),
        Dictionary(Box::new(Int8), Box::new(Utf8)),
        Dictionary(Box::new(Int32), Box::new(Utf8)),
        Dictionary(Box::new(UInt8), Box::new(dt.clone())),
        RunEndEncoded(Arc::new(Field::new("run_ends", Int32, false)), Arc::new(Field::new("values", dt.clone(), true))),
        RunEndEncoded(Arc::new(Field::new("run_ends", Int16, false)), Arc::new(Field::new("values", Utf8, true))),
        List(f(dt.clone())),
        LargeList(f(dt.clone())),
        FixedSizeList(f(dt.clone()), 1),
        FixedSizeBinary(2),
    ];
    match dt {
        List(i) | LargeList(i) | ListView(i) | LargeListView(i) => {
            v.push(List(i.clone()));
            v.push(LargeList(i.clone()));
            v.push(ListView(i.clone()));
            v.push(LargeListView(i.clone()));
            v.push(List(f(Int64)));
            v.push(LargeList(f(Utf8)));
            v.push(FixedSizeList(i.clone(), 2));
        }
        FixedSizeList(i, _) => {
            v.push(List(i.clone()));
            v.push(LargeList(i.clone()));
            v.push(FixedSizeList(f(Int64), 2));
        }
        Dictionary(_, val) => v.push((**val).clone()),
        RunEndEncoded(_, val) => v.push(val.data_type().clone()),
        Struct(fs) => {
            v.push(Struct(Fields::from(fs.iter().map(|x| Field::new(x.name(), if x.data_type().is_numeric() { Int64 } else { x.data_type().clone() }, true)).collect::<Vec<_>>())));
        }
        _ => {}
    }
    v.into_iter().filter(|t| t != dt && arrow_cast::can_cast_types(dt, t)).collect()
}

fn like_pattern(dt: &DataType, pat: &str) -> Option<ArrayRef> {
    let vt = match dt {
        DataType::Dictionary(_, v) => (**v).clone(),
        t => t.clone(),
    };
    if !matches!(vt, DataType::Utf8 | DataType::LargeUtf8 | DataType::Utf8View) {
        return None;
    }
    arrow_cast::cast(&StringArray::from(vec![pat]), &vt).ok()
}

const STEPS: [&str; 30] = [
    "filter", "take", "concat", "interleave", "zip", "nullif", "shift", "slice", "cast", "sort", "arith", "cmp", "string", "rowconv", "ipc", "json",
    "csv", "build", "bool", "norm", "filter", "take", "select2", "arith2", "ord2", "string2", "ctor", "mutable", "access", "select2",
];

fn no_support(s: &str) -> ArrowError {
    ArrowError::NotYetImplemented(s.to_string())
}

/// apply one step to `a` (all randomness from `seed`)
fn apply(name: &str, seed: u64, a: &ArrayRef, desc: &str) -> Result<ArrayRef, ArrowError> {
    let mut rng = Rng::new(seed);
    let rng = &mut rng;
    let n = a.len();
    let dt = a.data_type().clone();
    match name {
        "filter" => {
            let m = rand_mask(rng, n);
            expect_len(m.iter().filter(|x| *x == Some(true)).count());
            if rng.chance(1, 4) {
                // optimised predicate path
                let p = arrow_select::filter::FilterBuilder::new(&m).optimize().build();
                p.filter(a.as_ref())
            } else {
                arrow_select::filter::filter(a.as_ref(), &m)
            }
        }
        "take" => {
            let m = if n == 0 { rng.usize(3) } else { rng.usize(n + 4) };
            let with_nulls = n == 0 || rng.chance(1, 3);
            expect_len(m);
            let idx: Vec<Option<u64>> = (0..m).map(|_| if n == 0 || (with_nulls && rng.chance(1, 4)) { None } else { Some(rng.usize(n) as u64) }).collect();
            match rng.below(3) {
                0 => arrow_select::take::take(a.as_ref(), &UInt32Array::from(idx.iter().map(|x| x.map(|v| v as u32)).collect::<Vec<_>>()), None),
                1 => arrow_select::take::take(a.as_ref(), &Int64Array::from(idx.iter().map(|x| x.map(|v| v as i64)).collect::<Vec<_>>()), None),
                _ => arrow_select::take::take(a.as_ref(), &UInt8Array::from(idx.iter().map(|x| x.map(|v| v as u8)).collect::<Vec<_>>()), None),
            }
        }
        "concat" => {
            let k = 1 + rng.usize(3);
            let parts: Vec<ArrayRef> = (0..k)
                .map(|_| {
                    let o = rng.usize(n + 1);
                    let l = rng.usize(n - o + 1);
                    a.slice(o, l)
                })
                .collect();
            let refs: Vec<&dyn Array> = parts.iter().map(|x| x.as_ref()).collect();
            expect_len(parts.iter().map(|x| x.len()).sum());
            arrow_select::concat::concat(&refs)
        }
        "interleave" => {
            let o = rng.usize(n + 1);
            let b = a.slice(o, n - o);
            let arrays: Vec<&dyn Array> = vec![a.as_ref(), b.as_ref()];
            let m = rng.usize(n + 4);
            let mut idx = vec![];
            for _ in 0..m {
                let k = rng.usize(2);
                let l = arrays[k].len();
                if l > 0 {
                    idx.push((k, rng.usize(l)));
                }
            }
            expect_len(idx.len());
            arrow_select::interleave::interleave(&arrays, &idx)
        }
        "zip" => {
            expect_len(n);
            let m = rand_mask(rng, n);
            match rng.below(3) {
                0 if n > 0 => {
                    let s = Scalar::new(a.slice(rng.usize(n), 1));
                    arrow_select::zip::zip(&m, &s, a)
                }
                1 if n > 0 => {
                    let s = Scalar::new(a.slice(rng.usize(n), 1));
                    let t = Scalar::new(a.slice(rng.usize(n), 1));
                    arrow_select::zip::zip(&m, &s, &t)
                }
                _ => {
                    let r = rotated(a, 1 + rng.usize(3))?;
                    arrow_select::zip::zip(&m, a, &r)
                }
            }
        }
        "nullif" => {
            expect_len(n);
            arrow_select::nullif::nullif(a.as_ref(), &rand_mask(rng, n))
        }
        "shift" => {
            expect_len(n);
            arrow_select::window::shift(a.as_ref(), rng.range(-(n as i64) - 1, n as i64 + 1))
        }
        "slice" => {
            let o = rng.usize(n + 1);
            let l = rng.usize(n - o + 1);
            expect_len(l);
            Ok(a.slice(o, l))
        }
        "cast" => {
            let ts = cast_targets(&dt);
            if ts.is_empty() {
                return Err(no_support("cast"));
            }
            let to = rng.pick(&ts).clone();
            tag(format!("cast-to:{}", kind_tag(&to)));
            expect_len(n);
            let opts = arrow_cast::CastOptions { safe: rng.chance(3, 4), ..Default::default() };
            arrow_cast::cast_with_options(a.as_ref(), &to, &opts)
        }
        "sort" => {
            let opts = Some(SortOptions { descending: rng.bool(), nulls_first: rng.bool() });
            match rng.below(3) {
                0 => {
                    expect_len(n);
                    arrow_ord::sort::sort(a.as_ref(), opts)
                }
                1 => {
                    let lim = rng.usize(n + 2);
                    expect_len(n.min(lim));
                    arrow_ord::sort::sort_limit(a.as_ref(), opts, Some(lim))
                }
                _ => {
                    expect_len(n);
                    let idx = arrow_ord::sort::sort_to_indices(a.as_ref(), opts, None)?;
                    arrow_select::take::take(a.as_ref(), &idx, None)
                }
            }
        }
        "arith" => {
            expect_len(n);
            match rng.below(4) {
            0 => arrow_arith::numeric::add_wrapping(a, a),
            1 => arrow_arith::numeric::neg_wrapping(a.as_ref()),
            2 => arrow_arith::numeric::mul_wrapping(a, &rotated(a, 1)?),
            _ => arrow_arith::numeric::sub_wrapping(a, &rotated(a, 2)?),
            }
        }
        "cmp" => {
            expect_len(n);
            let r = rotated(a, 1 + rng.usize(2))?;
            let b = match rng.below(4) {
                0 => arrow_ord::cmp::eq(a, &r)?,
                1 => arrow_ord::cmp::lt(a, &r)?,
                2 => arrow_ord::cmp::distinct(a, &r)?,
                _ if n > 0 => arrow_ord::cmp::gt_eq(a, &Scalar::new(a.slice(rng.usize(n), 1)))?,
                _ => arrow_ord::cmp::neq(a, a)?,
            };
            Ok(Arc::new(b))
        }
        "string" => {
            expect_len(n);
            match rng.below(5) {
            0 => arrow_string::substring::substring(a.as_ref(), rng.range(-3, 3), if rng.bool() { Some(rng.below(4)) } else { None }),
            1 => arrow_string::concat_elements::concat_elements_dyn(a.as_ref(), rotated(a, 1)?.as_ref()),
            2 => {
                let p = like_pattern(&dt, *rng.pick(&["a%", "%z", "_", "%\u{e9}%", "", "%"])).ok_or_else(|| no_support("like"))?;
                Ok(Arc::new(arrow_string::like::like(a, &Scalar::new(p))?))
            }
            3 => arrow_string::length::length(a.as_ref()),
            _ => {
                let p = like_pattern(&dt, *rng.pick(&["a", "z", "\u{20ac}"])).ok_or_else(|| no_support("contains"))?;
                Ok(Arc::new(arrow_string::like::contains(a, &Scalar::new(p))?))
            }
            }
        }
        "rowconv" => {
            expect_len(n);
            let conv = arrow_row::RowConverter::new(vec![arrow_row::SortField::new_with_options(dt.clone(), SortOptions { descending: rng.bool(), nulls_first: rng.bool() })])?;
            let rows = conv.convert_columns(&[a.clone()])?;
            let mut out = conv.convert_rows(rows.iter())?;
            Ok(out.remove(0))
        }
        "ipc" => {
            expect_len(n);
            let other = rotated(a, 1)?;
            let schema = Arc::new(Schema::new(vec![Field::new("c0", dt.clone(), true), Field::new("c1", dt.clone(), true)]));
            let batch = RecordBatch::try_new(schema.clone(), vec![a.clone(), other])?;
            let mut bytes: Vec<u8> = vec![];
            let opts = {
                let o = arrow_ipc::writer::IpcWriteOptions::default();
                match rng.below(4) {
                    0 => {
                        tag("ipc:lz4".into());
                        o.try_with_compression(Some(arrow_ipc::CompressionType::LZ4_FRAME))?
                    }
                    1 => {
                        tag("ipc:zstd".into());
                        o.try_with_compression(Some(arrow_ipc::CompressionType::ZSTD))?
                    }
                    _ => o,
                }
            };
            if rng.bool() {
                let mut w = arrow_ipc::writer::StreamWriter::try_new_with_options(&mut bytes, &schema, opts)?;
                w.write(&batch)?;
                w.finish()?;
                drop(w);
                let mut r = arrow_ipc::reader::StreamReader::try_new(std::io::Cursor::new(bytes), None)?;
                let b = r.next().ok_or_else(|| no_support("ipc: no batch"))??;
                emit_batch(&b, desc, "ipc-stream");
                Ok(b.column(0).clone())
            } else {
                let mut w = arrow_ipc::writer::FileWriter::try_new_with_options(&mut bytes, &schema, opts)?;
                w.write(&batch)?;
                w.finish()?;
                drop(w);
                let mut r = arrow_ipc::reader::FileReader::try_new(std::io::Cursor::new(bytes), None)?;
                let b = r.next().ok_or_else(|| no_support("ipc: no batch"))??;
                emit_batch(&b, desc, "ipc-file");
                Ok(b.column(0).clone())
            }
        }
        "json" => step_json(rng, desc),
        "csv" => step_csv(rng, desc),
        "build" => step_build(rng),
        "bool" => {
            expect_len(n);
            match rng.below(3) {
            0 => Ok(Arc::new(arrow_arith::boolean::is_null(a.as_ref())?)),
            1 => Ok(Arc::new(arrow_arith::boolean::is_not_null(a.as_ref())?)),
            _ => match a.as_boolean_opt() {
                Some(b) => Ok(Arc::new(arrow_arith::boolean::not(b)?)),
                None => Err(no_support("not")),
            },
            }
        }
        "norm" => {
            let d = a.to_data();
            match rng.below(3) {
                0 => {
                    expect_len(n);
                    Ok(make_array(d))
                }
                1 => {
                    // `ArrayData::slice` is a safe public API: its result is a produced array too
                    let o = rng.usize(n + 1);
                    let l = rng.usize(n - o + 1);
                    expect_len(l);
                    let sl = d.slice(o, l);
                    let kf = o > 0 && has_struct(d.data_type());
                    if kf {
                        tag("kf:arraydata-slice-struct".into());
                    }
                    emit_data(&sl, &format!("{}/dslice{}", desc, if kf { "!kf:arraydata-slice-struct" } else { "" }));
                    Ok(make_array(sl))
                }
                _ => {
                    expect_len(n);
                    if d.offset() != 0 && d.nulls().is_some() {
                        return Err(no_support("try_new with re-based bitmap"));
                    }
                    Ok(make_array(ArrayData::try_new(d.data_type().clone(), d.len(), d.nulls().map(|x| x.inner().sliced()), d.offset(), d.buffers().to_vec(), d.child_data().to_vec())?))
                }
            }
        }

        "select2" => {
            let schema = Arc::new(Schema::new(vec![Field::new("c0", dt.clone(), true), Field::new("c1", dt.clone(), true)]));
            let mk_batch = |x: &ArrayRef| -> Result<RecordBatch, ArrowError> { RecordBatch::try_new(schema.clone(), vec![x.clone(), rotated(x, 1)?]) };
            let m = if n == 0 { rng.usize(3) } else { rng.usize(n + 4) };
            let idx = UInt32Array::from((0..m).map(|_| if n == 0 || rng.chance(1, 5) { None } else { Some(rng.usize(n) as u32) }).collect::<Vec<_>>());
            let v = rng.below(10);
            tag(format!("select2:{}", v));
            match v {
                0 => {
                    expect_len(m);
                    let mut out = arrow_select::take::take_arrays(&[a.clone(), rotated(a, 1)?], &idx, None)?;
                    emit_array(&out[1], &format!("{}/take_arrays.1", desc));
                    Ok(out.remove(0))
                }
                1 => {
                    let b = arrow_select::filter::filter_record_batch(&mk_batch(a)?, &rand_mask(rng, n))?;
                    emit_batch(&b, desc, "filter_record_batch");
                    Ok(b.column(0).clone())
                }
                2 => {
                    expect_len(m);
                    let b = arrow_select::take::take_record_batch(&mk_batch(a)?, &idx)?;
                    emit_batch(&b, desc, "take_record_batch");
                    Ok(b.column(0).clone())
                }
                3 => {
                    let b = mk_batch(a)?;
                    let o = rng.usize(n + 1);
                    let parts = vec![b.slice(o, n - o), b.clone(), b.slice(0, o)];
                    expect_len(2 * n);
                    let c = arrow_select::concat::concat_batches(&schema, parts.iter())?;
                    emit_batch(&c, desc, "concat_batches");
                    Ok(c.column(0).clone())
                }
                4 => {
                    let b1 = mk_batch(a)?;
                    let o = rng.usize(n + 1);
                    let b2 = b1.slice(o, n - o);
                    let bs = [&b1, &b2];
                    let mut ix = vec![];
                    for _ in 0..rng.usize(n + 4) {
                        let k = rng.usize(2);
                        if bs[k].num_rows() > 0 {
                            ix.push((k, rng.usize(bs[k].num_rows())));
                        }
                    }
                    expect_len(ix.len());
                    let c = arrow_select::interleave::interleave_record_batch(&bs, &ix)?;
                    emit_batch(&c, desc, "interleave_record_batch");
                    Ok(c.column(0).clone())
                }
                5 => {
                    // BatchCoalescer: several pushes (plain, filtered, by indices), then drain
                    let mut co = arrow_select::coalesce::BatchCoalescer::new(schema.clone(), 1 + rng.usize(9));
                    let b = mk_batch(a)?;
                    for _ in 0..1 + rng.usize(3) {
                        match rng.below(3) {
                            0 => co.push_batch(b.clone())?,
                            1 => co.push_batch_with_filter(b.clone(), &rand_mask(rng, n))?,
                            _ => {
                                if n > 0 {
                                    let ix = UInt64Array::from((0..rng.usize(n + 2)).map(|_| rng.usize(n) as u64).collect::<Vec<_>>());
                                    co.push_batch_with_indices(b.clone(), &ix)?
                                }
                            }
                        }
                    }
                    co.finish_buffered_batch()?;
                    let mut last = None;
                    while let Some(ob) = co.next_completed_batch() {
                        emit_batch(&ob, desc, "coalesce");
                        last = Some(ob);
                    }
                    last.map(|b| b.column(0).clone()).ok_or_else(|| no_support("coalesce: empty"))
                }
                6 => {
                    let m = BooleanArray::from((0..n).map(|_| rng.bool()).collect::<Vec<_>>());
                    let t = m.true_count();
                    expect_len(n);
                    arrow_select::merge::merge(&m, &a.slice(0, t), &a.slice(0, n - t))
                }
                7 => {
                    let ix: Vec<Option<usize>> = (0..rng.usize(n + 1)).map(|_| if rng.chance(1, 5) { None } else { Some(rng.usize(2)) }).collect();
                    expect_len(ix.len());
                    arrow_select::merge::merge_n(&[a.as_ref(), a.as_ref()], &ix)
                }
                8 => match a.as_any().downcast_ref::<UnionArray>() {
                    Some(u) => {
                        expect_len(n);
                        let name = match &dt {
                            DataType::Union(f, _) => f.iter().nth(rng.usize(f.len())).map(|(_, f)| f.name().clone()).unwrap_or_default(),
                            _ => String::new(),
                        };
                        arrow_select::union_extract::union_extract(u, &name)
                    }
                    None => Err(no_support("union_extract")),
                },
                _ => match a.as_any_dictionary_opt() {
                    Some(d) => {
                        expect_len(n);
                        arrow_select::dictionary::garbage_collect_any_dictionary(d)
                    }
                    None => Err(no_support("gc dictionary")),
                },
            }
        }
        "arith2" => {
            expect_len(n);
            let v = rng.below(12);
            tag(format!("arith2:{}", v));
            match v {
                0 => arrow_arith::numeric::add(a, a),
                1 => arrow_arith::numeric::sub(a, &rotated(a, 1)?),
                2 => arrow_arith::numeric::mul(a, &rotated(a, 1)?),
                3 => arrow_arith::numeric::div(a, &rotated(a, 1)?),
                4 => arrow_arith::numeric::rem(a, &rotated(a, 1)?),
                5 => arrow_arith::numeric::neg(a.as_ref()),
                6 => match a.as_primitive_opt::<Int32Type>() {
                    Some(p) => {
                        let r = rotated(a, 1)?;
                        let q = r.as_primitive::<Int32Type>();
                        Ok(match rng.below(5) {
                            0 => Arc::new(arrow_arith::bitwise::bitwise_and(p, q)?) as ArrayRef,
                            1 => Arc::new(arrow_arith::bitwise::bitwise_or(p, q)?),
                            2 => Arc::new(arrow_arith::bitwise::bitwise_xor(p, q)?),
                            3 => Arc::new(arrow_arith::bitwise::bitwise_not(p)?),
                            _ => Arc::new(arrow_arith::bitwise::bitwise_shift_left_scalar(p, 3)?),
                        })
                    }
                    None => Err(no_support("bitwise")),
                },
                7 => {
                    let l = match a.as_boolean_opt() {
                        Some(b) => b.clone(),
                        None => arrow_arith::boolean::is_null(a.as_ref())?,
                    };
                    let r = rand_mask(rng, n);
                    Ok(Arc::new(match rng.below(5) {
                        0 => arrow_arith::boolean::and(&l, &r)?,
                        1 => arrow_arith::boolean::or(&l, &r)?,
                        2 => arrow_arith::boolean::and_kleene(&l, &r)?,
                        3 => arrow_arith::boolean::or_kleene(&l, &r)?,
                        _ => arrow_arith::boolean::and_not(&l, &r)?,
                    }))
                }
                8 => {
                    use arrow_arith::temporal::DatePart;
                    let part = *rng.pick(&[DatePart::Year, DatePart::Quarter, DatePart::Month, DatePart::Week, DatePart::Day, DatePart::Hour, DatePart::Nanosecond, DatePart::DayOfWeekSunday0]);
                    arrow_arith::temporal::date_part(a.as_ref(), part)
                }
                9 => match a.as_primitive_opt::<Int32Type>() {
                    Some(p) => Ok(Arc::new(arrow_arith::arity::unary::<_, _, Int64Type>(p, |x| x as i64 * 3))),
                    None => Err(no_support("unary")),
                },
                10 => match a.as_primitive_opt::<Int64Type>() {
                    Some(p) => Ok(Arc::new(arrow_arith::arity::try_unary::<_, _, Int64Type>(p, |x| x.checked_mul(2).ok_or(ArrowError::ArithmeticOverflow("x".into())))?)),
                    None => Err(no_support("try_unary")),
                },
                _ => match a.as_primitive_opt::<Float64Type>() {
                    Some(p) => {
                        let r = rotated(a, 1)?;
                        Ok(Arc::new(arrow_arith::arity::binary::<_, _, _, Float64Type>(p, r.as_primitive::<Float64Type>(), |x, y| x + y)?))
                    }
                    None => Err(no_support("binary")),
                },
            }
        }
        "ord2" => {
            let o1 = Some(SortOptions { descending: rng.bool(), nulls_first: rng.bool() });
            let cols = vec![
                arrow_ord::sort::SortColumn { values: a.clone(), options: o1 },
                arrow_ord::sort::SortColumn { values: rotated(a, 1)?, options: None },
            ];
            let limit = if rng.bool() { Some(rng.usize(n + 2)) } else { None };
            expect_len(limit.map(|l| l.min(n)).unwrap_or(n));
            if rng.bool() {
                let mut out = arrow_ord::sort::lexsort(&cols, limit)?;
                emit_array(&out[1], &format!("{}/lexsort.1", desc));
                Ok(out.remove(0))
            } else {
                Ok(Arc::new(arrow_ord::sort::lexsort_to_indices(&cols, limit)?))
            }
        }
        "string2" => {
            expect_len(n);
            let v = rng.below(8);
            tag(format!("string2:{}", v));
            let pat = |s: &str| like_pattern(&dt, s).ok_or_else(|| no_support("pattern"));
            match v {
                0 => match a.as_string_opt::<i32>() {
                    Some(sa) => Ok(Arc::new(arrow_string::regexp::regexp_is_match_scalar(sa, *rng.pick(&["a.*", "^z", "\u{e9}", "[a-z]+$", ""]), if rng.bool() { Some("i") } else { None })?)),
                    None => Err(no_support("regexp_is_match")),
                },
                1 => arrow_string::regexp::regexp_match(a.as_ref(), &Scalar::new(pat(*rng.pick(&["(a)(z)?", "([a-z])", "\u{20ac}", "x"]))?), None),
                2 => Ok(Arc::new(arrow_string::like::ilike(a, &Scalar::new(pat("A%")?))?)),
                3 => Ok(Arc::new(arrow_string::like::nlike(a, &Scalar::new(pat("%z")?))?)),
                4 => Ok(Arc::new(arrow_string::like::starts_with(a, &Scalar::new(pat("a")?))?)),
                5 => Ok(Arc::new(arrow_string::like::ends_with(a, &rotated(a, 1)?)?)),
                6 => arrow_string::length::bit_length(a.as_ref()),
                _ => match a.as_string_opt::<i32>() {
                    Some(sa) => Ok(Arc::new(arrow_string::substring::substring_by_char(sa, rng.range(-2, 2), if rng.bool() { Some(rng.below(3)) } else { None })?)),
                    None => Err(no_support("substring_by_char")),
                },
            }
        }
        "ctor" => step_ctor(rng, a),
        "mutable" => {
            // arrow-data/src/transform: MutableArrayData over two sources
            let d1 = a.to_data();
            let d2 = rotated(a, 1)?.to_data();
            let use_nulls = rng.bool();
            let mut m = arrow_data::transform::MutableArrayData::new(vec![&d1, &d2], use_nulls, rng.usize(8));
            let mut want = 0usize;
            for _ in 0..rng.usize(5) {
                if use_nulls && rng.chance(1, 4) {
                    let k = rng.usize(4);
                    m.try_extend_nulls(k)?;
                    want += k;
                } else {
                    let o = rng.usize(n + 1);
                    let e = o + rng.usize(n - o + 1);
                    m.try_extend(rng.usize(2), o, e)?;
                    want += e - o;
                }
            }
            expect_len(want);
            let frozen = m.freeze();
            emit_data(&frozen, &format!("{}/freeze", desc));
            Ok(make_array(frozen))
        }
        "access" => {
            // accessors that hand out arrays
            use DataType::*;
            let i = if n > 0 { rng.usize(n) } else { 0 };
            match &dt {
                List(_) if n > 0 => Ok(if rng.bool() { a.as_list::<i32>().value(i) } else { a.as_list::<i32>().values().clone() }),
                LargeList(_) if n > 0 => Ok(a.as_list::<i64>().value(i)),
                FixedSizeList(..) if n > 0 => Ok(if rng.bool() { a.as_fixed_size_list().value(i) } else { a.as_fixed_size_list().values().clone() }),
                Map(..) if n > 0 => Ok(if rng.bool() { Arc::new(a.as_map().value(i)) as ArrayRef } else { a.as_map().keys().clone() }),
                Struct(f) if !f.is_empty() => Ok(a.as_struct().column(rng.usize(f.len())).clone()),
                Dictionary(..) => {
                    let d = a.as_any_dictionary();
                    Ok(if rng.bool() { make_array(d.keys().to_data()) } else { d.values().clone() })
                }
                RunEndEncoded(r, _) => match r.data_type() {
                    Int32 => {
                        let ra = a.as_any().downcast_ref::<RunArray<Int32Type>>().unwrap();
                        Ok(if rng.bool() { ra.values().clone() } else { Arc::new(PrimitiveArray::<Int32Type>::new(ra.run_ends().inner().clone(), None)) })
                    }
                    _ => Err(no_support("access ree")),
                },
                Union(f, _) if n > 0 => {
                    let u = a.as_any().downcast_ref::<UnionArray>().unwrap();
                    Ok(if rng.bool() { u.value(i) } else { u.child(f.iter().next().unwrap().0).clone() })
                }
                _ => Err(no_support("access")),
            }
        }
        _ => Err(no_support("unknown step")),
    }
}

/// a RecordBatch handed out by a reader: check it against its schema here, and send it to the Lean side
fn emit_batch(b: &RecordBatch, desc: &str, what: &str) {
    let schema = b.schema();
    let mut bad = vec![];
    if schema.fields().len() != b.num_columns() {
        bad.push("column-count".to_string());
    }
    for (i, (f, c)) in schema.fields().iter().zip(b.columns()).enumerate() {
        if f.data_type() != c.data_type() {
            bad.push(format!("type:{}", i));
        }
        if c.len() != b.num_rows() {
            bad.push(format!("len:{}", i));
        }
        if !f.is_nullable() && c.logical_nulls().map(|n| n.null_count()).unwrap_or(0) > 0 {
            bad.push(format!("nullability:{}", i));
        }
    }
    if !bad.is_empty() {
        oracle(format!("batch-mismatch:{}:{}", what, bad.join(",")));
    }
    if b.num_rows() > MAX_ROWS || schema.fields().iter().any(|f| is_ext(f.data_type())) {
        return;
    }
    let r = catch_unwind(AssertUnwindSafe(|| {
        let fields = if schema.fields().is_empty() {
            "-".to_string()
        } else {
            schema.fields().iter().map(|f| format!("{}{}", nbc(f.is_nullable()), phys_ty(f.data_type()))).collect::<Vec<_>>().join("+")
        };
        let cols = if b.num_columns() == 0 { "-".to_string() } else { b.columns().iter().map(|c| show_phys(&phys_of(&c.to_data()))).collect::<Vec<_>>().join("+") };
        format!("C01 batch {}/{} {} {} {}", desc, what, b.num_rows(), fields, cols)
    }));
    match r {
        Ok(line) => {
            let kf = if schema.fields().iter().any(|f| has_fsb0(f.data_type())) { " zero-width-type" } else { "" };
            EXTRA.with(|e| e.borrow_mut().push((line, format!("op:batch src:{} nt{}", what, kf))))
        }
        Err(_) => oracle(format!("panic:dump-batch:{}", what)),
    }
    // every other column is a produced array too
    for (i, c) in b.columns().iter().enumerate().skip(1) {
        emit_array(c, &format!("{}/{}.col{}", desc, what, i));
    }
}

fn has_struct(dt: &DataType) -> bool {
    matches!(dt, DataType::Struct(_)) || child_types(dt).iter().any(has_struct)
}

/// an additional produced array (not the one the pipeline continues with): validate + dump
fn emit_array(c: &ArrayRef, desc: &str) {
    match catch_unwind(AssertUnwindSafe(|| c.to_data())) {
        Ok(d) => emit_data(&d, desc),
        Err(_) => oracle("panic:to_data-extra".to_string()),
    }
}
fn emit_data(d: &ArrayData, desc: &str) {
    let r = catch_unwind(AssertUnwindSafe(|| {
        if let Err(e) = d.validate_full() {
            oracle(format!("out-validate_full-err:{}:{}", desc.rsplit('/').next().unwrap_or(""), err_class(&e)));
            if has_fsb0(d.data_type()) {
                kf("kf:zero-width-select".into());
            }
        }
        if d.len() > MAX_ROWS {
            return None;
        }
        let op = if is_ext(d.data_type()) { "stepx" } else { "step" };
        Some(format!("C01 {} {} end {} {}", op, desc, lt_token(d.data_type()), show_phys(&phys_of(d))))
    }));
    match r {
        Ok(Some(line)) => EXTRA.with(|e| e.borrow_mut().push((line, "extra-column".to_string()))),
        Ok(None) => {}
        Err(_) => oracle("panic:dump-extra".to_string()),
    }
}

fn err_class(e: &ArrowError) -> &'static str {
    match e {
        ArrowError::InvalidArgumentError(_) => "invalid-arg",
        ArrowError::ComputeError(_) => "compute",
        ArrowError::CastError(_) => "cast",
        ArrowError::NotYetImplemented(_) => "not-impl",
        ArrowError::SchemaError(_) => "schema",
        ArrowError::ParseError(_) => "parse",
        ArrowError::JsonError(_) => "json",
        ArrowError::CsvError(_) => "csv",
        ArrowError::IpcError(_) => "ipc",
        ArrowError::OffsetOverflowError(_) => "offset-overflow",
        ArrowError::DictionaryKeyOverflowError => "key-overflow",
        ArrowError::RunEndIndexOverflowError => "runend-overflow",
        ArrowError::ArithmeticOverflow(_) => "overflow",
        ArrowError::DivideByZero => "div0",
        _ => "other",
    }
}

const WORDS: [&str; 8] = ["a", "zz", "\u{e9}t\u{e9}", "\u{20ac}", "x\u{1d11e}", "", "null", "12"];

fn step_json(rng: &mut Rng, desc: &str) -> Result<ArrayRef, ArrowError> {
    use DataType::*;
    let item = |t: DataType| Arc::new(Field::new("item", t, true));
    let cands: Vec<(DataType, u8)> = vec![
        (Int32, 0),
        (Int64, 0),
        (Float64, 1),
        (Boolean, 2),
        (Utf8, 3),
        (LargeUtf8, 3),
        (Utf8View, 3),
        (List(item(Int32)), 4),
        (Struct(Fields::from(vec![Field::new("x", Int32, true), Field::new("y", Utf8, true)])), 5),
        (Date32, 0),
        (Timestamp(TimeUnit::Millisecond, None), 0),
        (Decimal128(10, 2), 0),
        (List(item(Utf8)), 6),
        (Map(Arc::new(Field::new("entries", Struct(Fields::from(vec![Field::new("keys", Utf8, false), Field::new("values", Int32, true)])), false)), false), 7),
    ];
    let k = 1 + rng.usize(3);
    let cols: Vec<(DataType, u8)> = (0..k).map(|_| rng.pick(&cands).clone()).collect();
    let schema = Arc::new(Schema::new(cols.iter().enumerate().map(|(i, (t, _))| Field::new(format!("c{}", i), t.clone(), true)).collect::<Vec<_>>()));
    let rows = rng.usize(8);
    let mut text = String::new();
    let val = |rng: &mut Rng, kind: u8| -> String {
        match kind {
            0 => format!("{}", rng.range(-50, 5000)),
            1 => format!("{}.{}", rng.range(-9, 9), rng.below(100)),
            2 => if rng.bool() { "true".into() } else { "false".into() },
            3 => format!("\"{}\"", rng.pick(&WORDS)),
            4 => format!("[{}]", (0..rng.usize(4)).map(|_| if rng.chance(1, 5) { "null".to_string() } else { rng.below(100).to_string() }).collect::<Vec<_>>().join(",")),
            5 => match rng.below(3) {
                0 => "{}".to_string(),
                1 => format!("{{\"x\":{}}}", rng.below(9)),
                _ => format!("{{\"y\":\"{}\",\"x\":null}}", rng.pick(&WORDS)),
            },
            6 => format!("[{}]", (0..rng.usize(3)).map(|_| format!("\"{}\"", rng.pick(&WORDS))).collect::<Vec<_>>().join(",")),
            _ => format!("{{{}}}", (0..rng.usize(3)).map(|j| format!("\"k{}\":{}", j, rng.below(9))).collect::<Vec<_>>().join(",")),
        }
    };
    for _ in 0..rows {
        let mut parts = vec![];
        for (i, (_, kind)) in cols.iter().enumerate() {
            match rng.below(6) {
                0 => {}
                1 => parts.push(format!("\"c{}\":null", i)),
                _ => parts.push(format!("\"c{}\":{}", i, val(rng, *kind))),
            }
        }
        text.push_str(&format!("{{{}}}\n", parts.join(",")));
    }
    let mut last: Option<RecordBatch> = None;
    if rng.chance(1, 3) {
        // push decoder, input fed in small chunks
        tag("json:decoder".into());
        let mut dec = arrow_json::ReaderBuilder::new(schema).with_batch_size(1 + rng.usize(8)).build_decoder()?;
        let bytes = text.into_bytes();
        let chunk = 1 + rng.usize(9);
        let mut pos = 0;
        while pos < bytes.len() {
            let end = (pos + chunk).min(bytes.len());
            let used = dec.decode(&bytes[pos..end])?;
            if used < end - pos {
                if let Some(b) = dec.flush()? {
                    emit_batch(&b, desc, "json-decoder");
                    last = Some(b);
                }
            }
            pos += used;
        }
        if let Some(b) = dec.flush()? {
            emit_batch(&b, desc, "json-decoder");
            last = Some(b);
        }
        return match last {
            Some(b) => Ok(b.column(0).clone()),
            None => Err(no_support("json: no batch")),
        };
    }
    let mut reader = arrow_json::ReaderBuilder::new(schema).with_batch_size(1 + rng.usize(8)).build(std::io::Cursor::new(text.into_bytes()))?;
    for b in &mut reader {
        let b = b?;
        emit_batch(&b, desc, "json");
        last = Some(b);
    }
    match last {
        Some(b) => Ok(b.column(0).clone()),
        None => Err(no_support("json: no batch")),
    }
}

fn step_csv(rng: &mut Rng, desc: &str) -> Result<ArrayRef, ArrowError> {
    use DataType::*;
    let cands: Vec<(DataType, u8)> = vec![
        (Int32, 0),
        (Int64, 0),
        (UInt8, 0),
        (Float64, 1),
        (Boolean, 2),
        (Utf8, 3),
        (LargeUtf8, 3),
        (Utf8View, 3),
        (Date32, 4),
        (Timestamp(TimeUnit::Second, None), 5),
        (Decimal128(10, 2), 1),
        (Dictionary(Box::new(Int8), Box::new(Utf8)), 3),
    ];
    let k = 1 + rng.usize(3);
    let cols: Vec<(DataType, u8)> = (0..k).map(|_| rng.pick(&cands).clone()).collect();
    let schema = Arc::new(Schema::new(cols.iter().enumerate().map(|(i, (t, _))| Field::new(format!("c{}", i), t.clone(), true)).collect::<Vec<_>>()));
    let rows = rng.usize(8);
    let mut text = String::new();
    for _ in 0..rows {
        let mut parts = vec![];
        for (_, kind) in cols.iter() {
            parts.push(if rng.chance(1, 5) {
                String::new()
            } else {
                match kind {
                    0 => format!("{}", rng.range(0, 200)),
                    1 => format!("{}.{}", rng.range(-9, 9), rng.below(100)),
                    2 => if rng.bool() { "true".into() } else { "false".into() },
                    3 => format!("\"{}\"", rng.pick(&WORDS)),
                    4 => format!("20{:02}-0{}-1{}", rng.below(30), 1 + rng.below(9), rng.below(9)),
                    _ => format!("20{:02}-0{}-1{}T0{}:00:00", rng.below(30), 1 + rng.below(9), rng.below(9), rng.below(9)),
                }
            });
        }
        text.push_str(&parts.join(","));
        text.push('\n');
    }
    let mut last: Option<RecordBatch> = None;
    if rng.chance(1, 3) {
        tag("csv:decoder".into());
        let mut dec = arrow_csv::ReaderBuilder::new(schema).with_header(false).with_batch_size(1 + rng.usize(8)).build_decoder();
        let bytes = text.into_bytes();
        let chunk = 1 + rng.usize(9);
        let mut pos = 0;
        while pos < bytes.len() {
            let end = (pos + chunk).min(bytes.len());
            let used = dec.decode(&bytes[pos..end])?;
            if used < end - pos || dec.capacity() == 0 {
                if let Some(b) = dec.flush()? {
                    emit_batch(&b, desc, "csv-decoder");
                    last = Some(b);
                }
            }
            pos += used;
            if used == 0 && dec.capacity() > 0 {
                break;
            }
        }
        dec.decode(&[])?;
        if let Some(b) = dec.flush()? {
            emit_batch(&b, desc, "csv-decoder");
            last = Some(b);
        }
        return match last {
            Some(b) => Ok(b.column(0).clone()),
            None => Err(no_support("csv: no batch")),
        };
    }
    let mut reader = arrow_csv::ReaderBuilder::new(schema).with_header(false).with_batch_size(1 + rng.usize(8)).build(std::io::Cursor::new(text.into_bytes()))?;
    for b in &mut reader {
        let b = b?;
        emit_batch(&b, desc, "csv");
        last = Some(b);
    }
    match last {
        Some(b) => Ok(b.column(0).clone()),
        None => Err(no_support("csv: no batch")),
    }
}


/// typed constructors (`from`, `from_iter`, `new`, `try_new`, `new_null`, …): a second entry point next to
/// `ArrayData` + `make_array` and the builders
fn step_ctor(rng: &mut Rng, a: &ArrayRef) -> Result<ArrayRef, ArrowError> {
    use arrow_buffer::OffsetBuffer;
    let n = rng.usize(14);
    let v = rng.below(24);
    tag(format!("ctor:{}", v));
    let nulls = |rng: &mut Rng, n: usize| -> Option<NullBuffer> { if rng.bool() { Some(NullBuffer::from((0..n).map(|_| rng.chance(3, 4)).collect::<Vec<_>>())) } else { None } };
    let ints = |rng: &mut Rng, n: usize| Int32Array::from((0..n).map(|_| if rng.chance(1, 4) { None } else { Some(rng.range(-5, 5) as i32) }).collect::<Vec<_>>());
    let strs = |rng: &mut Rng, n: usize| StringArray::from((0..n).map(|_| if rng.chance(1, 4) { None } else { Some(*rng.pick(&WORDS)) }).collect::<Vec<_>>());
    Ok(match v {
        0 => new_null_array(a.data_type(), n),
        1 => new_empty_array(a.data_type()),
        2 => {
            let grid = type_grid();
            let t = &rng.pick(&grid).1;
            tag(format!("ctor-null-of:{}", kind_tag(t)));
            new_null_array(t, n)
        }
        3 => Arc::new(Int64Array::from_iter((0..n).map(|i| if i % 3 == 0 { None } else { Some(i as i64) }))),
        4 => Arc::new(UInt16Array::from_iter_values((0..n).map(|i| i as u16))),
        5 => Arc::new(PrimitiveArray::<Float32Type>::try_new(ScalarBuffer::from((0..n).map(|i| i as f32).collect::<Vec<_>>()), nulls(rng, n))?),
        6 => Arc::new(PrimitiveArray::<Date32Type>::new_null(n)),
        7 => Arc::new(BooleanArray::new(arrow_buffer::BooleanBuffer::collect_bool(n, |i| i % 3 == 0), nulls(rng, n))),
        8 => Arc::new(strs(rng, n)),
        9 => {
            let lens: Vec<usize> = (0..n).map(|_| rng.usize(4)).collect();
            let total: usize = lens.iter().sum();
            Arc::new(LargeStringArray::try_new(OffsetBuffer::from_lengths(lens), Buffer::from_vec(vec![b'q'; total]), nulls(rng, n))?)
        }
        10 => Arc::new(LargeBinaryArray::from_opt_vec((0..n).map(|i| if i % 4 == 0 { None } else { Some(&b"\x00\xff\x80"[..i % 4]) }).collect())),
        11 => Arc::new(FixedSizeBinaryArray::try_from_sparse_iter_with_size((0..n).map(|i| if i % 3 == 0 { None } else { Some(vec![i as u8; 2]) }), 2)?),
        12 => Arc::new(ListArray::from_iter_primitive::<Int32Type, _, _>((0..n).map(|i| if i % 5 == 0 { None } else { Some((0..i % 3).map(|j| if j == 1 { None } else { Some(j as i32) }).collect::<Vec<_>>()) }))),
        13 => {
            let lens: Vec<usize> = (0..n).map(|_| rng.usize(3)).collect();
            let total: usize = lens.iter().sum();
            Arc::new(LargeListArray::try_new(Arc::new(Field::new("item", DataType::Utf8, true)), OffsetBuffer::from_lengths(lens), Arc::new(strs(rng, total)), nulls(rng, n))?)
        }
        14 => Arc::new(FixedSizeListArray::try_new(Arc::new(Field::new("item", DataType::Int32, true)), 3, Arc::new(ints(rng, 3 * n)), nulls(rng, n))?),
        15 => Arc::new(StructArray::try_new(
            Fields::from(vec![Field::new("a", DataType::Int32, true), Field::new("b", DataType::Utf8, true)]),
            vec![Arc::new(ints(rng, n)), Arc::new(strs(rng, n))],
            nulls(rng, n),
        )?),
        16 => Arc::new(StructArray::new_null(Fields::from(vec![Field::new("a", DataType::Int32, true), Field::new("l", DataType::List(Arc::new(Field::new("item", DataType::Int8, true))), true)]), n)),
        17 => Arc::new((0..n).map(|i| if i % 4 == 0 { None } else { Some(WORDS[i % 5]) }).collect::<DictionaryArray<Int8Type>>()),
        18 => {
            let vals = strs(rng, 3);
            let keys = UInt8Array::from((0..n).map(|_| if rng.chance(1, 4) { None } else { Some(rng.usize(3) as u8) }).collect::<Vec<_>>());
            Arc::new(DictionaryArray::try_new(keys, Arc::new(vals))?)
        }
        19 => {
            let runs = 1 + rng.usize(4);
            let mut e = 0i32;
            let ends: Vec<i32> = (0..runs).map(|_| { e += 1 + rng.usize(3) as i32; e }).collect();
            Arc::new(RunArray::<Int32Type>::try_new(&Int32Array::from(ends), &strs(rng, runs))?)
        }
        20 => {
            let fields = UnionFields::try_new(vec![3, 9], vec![Field::new("i", DataType::Int32, true), Field::new("s", DataType::Utf8, true)])?;
            let (ci, cs) = (ints(rng, 4), strs(rng, 4));
            let ids: Vec<i8> = (0..n).map(|_| if rng.bool() { 3 } else { 9 }).collect();
            let offs: Vec<i32> = (0..n).map(|_| rng.usize(4) as i32).collect();
            Arc::new(UnionArray::try_new(fields, ScalarBuffer::from(ids), Some(ScalarBuffer::from(offs)), vec![Arc::new(ci), Arc::new(cs)])?)
        }
        21 => Arc::new(StringViewArray::from_iter((0..n).map(|i| if i % 4 == 0 { None } else { Some(HIST_WORDS[i % 9]) }))),
        22 => Arc::new(Decimal128Array::from((0..n).map(|i| if i % 3 == 0 { None } else { Some(i as i128 * 1001) }).collect::<Vec<_>>()).with_precision_and_scale(12, 3)?),
        _ => Arc::new(TimestampMicrosecondArray::from((0..n).map(|i| Some(i as i64 * 86_400_000_000)).collect::<Vec<_>>()).with_timezone("+02:00")),
    })
}

fn step_build(rng: &mut Rng) -> Result<ArrayRef, ArrowError> {
    let n = rng.usize(12);
    let null = |rng: &mut Rng| rng.chance(1, 4);
    let kind = rng.below(14);
    tag(format!("builder:{}", kind));
    Ok(match kind {
        0 => {
            let mut b = Int32Builder::new();
            for _ in 0..n {
                if null(rng) { b.append_null() } else { b.append_value(rng.range(-5, 5) as i32) }
            }
            if rng.bool() {
                let _ = b.finish_cloned();
                b.append_value(7);
            }
            Arc::new(b.finish())
        }
        1 => {
            let mut b = StringBuilder::new();
            for _ in 0..n {
                if null(rng) { b.append_null() } else { b.append_value(rng.pick(&WORDS)) }
            }
            if rng.bool() {
                let first = b.finish();
                b.append_array(&first)?;
                b.append_value("tail");
            }
            Arc::new(b.finish())
        }
        2 => {
            let mut b = BooleanBuilder::new();
            for _ in 0..n {
                if null(rng) { b.append_null() } else { b.append_value(rng.bool()) }
            }
            Arc::new(b.finish())
        }
        3 => {
            let mut b = ListBuilder::new(Int32Builder::new());
            for _ in 0..n {
                for _ in 0..rng.usize(3) {
                    if null(rng) { b.values().append_null() } else { b.values().append_value(rng.range(0, 9) as i32) }
                }
                b.append(!null(rng));
            }
            Arc::new(b.finish())
        }
        4 => {
            let mut b = FixedSizeListBuilder::new(Int16Builder::new(), 2);
            for _ in 0..n {
                b.values().append_value(1);
                b.values().append_option(if null(rng) { None } else { Some(2) });
                b.append(!null(rng));
            }
            Arc::new(b.finish())
        }
        5 => {
            let mut b = StringDictionaryBuilder::<Int8Type>::new();
            for _ in 0..n {
                if null(rng) { b.append_null() } else { b.append(rng.pick(&WORDS))?; }
            }
            Arc::new(b.finish())
        }
        6 => {
            let mut b = StringRunBuilder::<Int32Type>::new();
            for _ in 0..n {
                if null(rng) { b.append_null() } else { b.append_value(rng.pick(&["a", "a", "b"])) }
            }
            Arc::new(b.finish())
        }
        7 => {
            let mut b = UnionBuilder::new_dense();
            for _ in 0..n {
                match rng.below(3) {
                    0 => b.append::<Int32Type>("i", rng.range(0, 9) as i32)?,
                    1 => b.append::<Float64Type>("f", 1.5)?,
                    _ => b.append_null::<Int32Type>("i")?,
                }
            }
            if n == 0 {
                b.append::<Int32Type>("i", 1)?;
            }
            Arc::new(b.build()?)
        }
        8 => {
            let mut b = UnionBuilder::new_sparse();
            for _ in 0..n.max(1) {
                match rng.below(3) {
                    0 => b.append::<Int32Type>("i", rng.range(0, 9) as i32)?,
                    1 => b.append::<Float64Type>("f", 2.5)?,
                    _ => b.append_null::<Float64Type>("f")?,
                }
            }
            Arc::new(b.build()?)
        }
        9 => {
            let mut b = MapBuilder::new(None, StringBuilder::new(), Int32Builder::new());
            for _ in 0..n {
                for j in 0..rng.usize(3) {
                    b.keys().append_value(format!("k{}", j));
                    b.values().append_option(if null(rng) { None } else { Some(j as i32) });
                }
                b.append(!null(rng))?;
            }
            Arc::new(b.finish())
        }
        10 => {
            let mut b = StringViewBuilder::new();
            for _ in 0..n {
                if null(rng) { b.append_null() } else { b.append_value(rng.pick(&["short", "a string longer than twelve bytes", "\u{20ac}"])) }
            }
            Arc::new(b.finish())
        }
        11 => {
            let mut b = StructBuilder::from_fields(vec![Field::new("a", DataType::Int32, true), Field::new("b", DataType::Utf8, true)], n);
            for _ in 0..n {
                b.field_builder::<Int32Builder>(0).unwrap().append_option(if null(rng) { None } else { Some(3) });
                b.field_builder::<StringBuilder>(1).unwrap().append_option(if null(rng) { None } else { Some("s") });
                b.append(!null(rng));
            }
            Arc::new(b.finish())
        }
        12 => {
            let mut b = FixedSizeBinaryBuilder::new(3);
            for _ in 0..n {
                if null(rng) { b.append_null() } else { b.append_value(rng.bytes(3))?; }
            }
            Arc::new(b.finish())
        }
        _ => {
            let mut b = Decimal128Builder::new().with_precision_and_scale(10, 2)?;
            for _ in 0..n {
                if null(rng) { b.append_null() } else { b.append_value(rng.range(-99999, 99999) as i128) }
            }
            Arc::new(b.finish())
        }
    })
}


// ------------------------------------------------------------- kernel-model correspondence (k-ops)

/// canonical physical observation of a take / filter / concat result on a fixed-width or byte array:
/// length, offsets relative to the first one, the value window, the declared null count.  Bytes of
/// fixed-width slots selected by a *null index* are zeroed (the kernel copies whatever the garbage index
/// addresses, the model writes `T::default()`).
fn canon_kernel(out: &ArrayRef, null_idx: &[bool]) -> String {
    use DataType::*;
    let d = out.to_data();
    let n = d.len();
    let rel = |offs: Vec<i64>| -> (String, usize, usize) {
        if offs.is_empty() {
            return ("0".to_string(), 0, 0);
        }
        let o0 = offs[0];
        (offs.iter().map(|o| (o - o0).to_string()).collect::<Vec<_>>().join(","), o0 as usize, *offs.last().unwrap() as usize)
    };
    let (offs, vals) = match d.data_type() {
        Utf8 => {
            let a = out.as_string::<i32>();
            let (s, lo, hi) = rel(a.value_offsets().iter().map(|x| *x as i64).collect());
            (s, a.value_data()[lo..hi].to_vec())
        }
        Binary => {
            let a = out.as_binary::<i32>();
            let (s, lo, hi) = rel(a.value_offsets().iter().map(|x| *x as i64).collect());
            (s, a.value_data()[lo..hi].to_vec())
        }
        LargeUtf8 => {
            let a = out.as_string::<i64>();
            let (s, lo, hi) = rel(a.value_offsets().to_vec());
            (s, a.value_data()[lo..hi].to_vec())
        }
        LargeBinary => {
            let a = out.as_binary::<i64>();
            let (s, lo, hi) = rel(a.value_offsets().to_vec());
            (s, a.value_data()[lo..hi].to_vec())
        }
        t => {
            let w = prim_width(t).unwrap_or(match t {
                FixedSizeBinary(k) => *k as usize,
                _ => 0,
            });
            let b = d.buffers()[0].as_slice();
            let mut v = b[d.offset() * w..(d.offset() + n) * w].to_vec();
            for (i, isnull) in null_idx.iter().enumerate() {
                if *isnull && i < n {
                    for x in v[i * w..(i + 1) * w].iter_mut() {
                        *x = 0;
                    }
                }
            }
            ("-".to_string(), v)
        }
    };
    format!("len={} offs={} vals={} nulls={} wf=1", n, offs, hex(&vals), out.null_count())
}

fn k_types() -> Vec<DataType> {
    use DataType::*;
    vec![Int8, Int16, Int32, Int64, UInt32, Float64, Decimal128(10, 2), Date32, FixedSizeBinary(3), FixedSizeBinary(1), Utf8, Utf8, LargeUtf8, Binary, LargeBinary]
}

fn show_opt_idx(v: &[Option<usize>]) -> String {
    if v.is_empty() { "-".into() } else { v.iter().map(|x| x.map(|i| i.to_string()).unwrap_or("n".into())).collect::<Vec<_>>().join(",") }
}

fn gen_kcase(rng: &mut Rng) -> (String, String) {
    let dt = rng.pick(&k_types()).clone();
    let n = pick_len(rng);
    let off = pick_off(rng);
    let kt = kind_tag(&dt);
    match rng.below(5) {
        0 | 1 => {
            let p = gen_layout(rng, &dt, n, off, false, false);
            let m = if n == 0 { rng.usize(3) } else { rng.usize(n + 5) };
            let with_nulls = n == 0 || rng.chance(1, 2);
            let idx: Vec<Option<usize>> = (0..m).map(|_| if n == 0 || (with_nulls && rng.chance(1, 4)) { None } else { Some(rng.usize(n)) }).collect();
            (format!("C01 ktake {} {} {} {}", lt_token(&dt), show_phys(&p), show_opt_idx(&idx), rng.below(3)), format!("op:ktake ty:{}{}", kt, if n > 0 { " nt" } else { "" }))
        }
        2 | 3 => {
            let p = gen_layout(rng, &dt, n, off, false, false);
            let m = rand_mask(rng, n);
            let bits: Vec<bool> = m.iter().map(|x| x == Some(true)).collect();
            let nulls: Vec<bool> = m.iter().map(|x| x.is_none()).collect();
            // mask: value bits, null bits (a null mask slot selects nothing), optimise flag, bit offset of the mask
            (
                format!("C01 kfilter {} {} {} {} {} {}", lt_token(&dt), show_phys(&p), show_bits(&bits), show_bits(&nulls), rng.below(2), rng.below(10)),
                format!("op:kfilter ty:{}{}", kt, if n > 0 { " nt" } else { "" }),
            )
        }
        _ => {
            let k = 1 + rng.usize(3);
            let parts: Vec<String> = (0..k)
                .map(|_| {
                    let (n, off) = (pick_len(rng).min(12), pick_off(rng));
                    show_phys(&gen_layout(rng, &dt, n, off, false, false))
                })
                .collect();
            (format!("C01 kconcat {} {}", lt_token(&dt), parts.join("+")), format!("op:kconcat ty:{} nt", kt))
        }
    }
}

fn parse_dump(dump: &str, dt: &DataType) -> Phys {
    let mut c = Cur { s: dump.as_bytes(), i: 0 };
    let p = parse_phys(&mut c, dt);
    assert_eq!(c.i, dump.len());
    p
}

fn run_kcase(t: &[&str]) -> String {
    let dt = lt_parse(t[2]);
    match t[1] {
        "ktake" => {
            let a = make_array(build(&parse_dump(t[3], &dt)));
            let idx: Vec<Option<u64>> = if t[4] == "-" { vec![] } else { t[4].split(',').map(|x| if x == "n" { None } else { Some(x.parse().unwrap()) }).collect() };
            let null_idx: Vec<bool> = idx.iter().map(|x| x.is_none()).collect();
            let out = match t[5] {
                "0" => arrow_select::take::take(a.as_ref(), &UInt32Array::from(idx.iter().map(|x| x.map(|v| v as u32)).collect::<Vec<_>>()), None),
                "1" => arrow_select::take::take(a.as_ref(), &Int64Array::from(idx.iter().map(|x| x.map(|v| v as i64)).collect::<Vec<_>>()), None),
                _ => arrow_select::take::take(a.as_ref(), &UInt8Array::from(idx.iter().map(|x| x.map(|v| v as u8)).collect::<Vec<_>>()), None),
            };
            match out {
                Ok(o) => {
                    emit_array(&o, "ktake");
                    canon_kernel(&o, &null_idx)
                }
                Err(e) => format!("ERR:{}", err_class(&e)),
            }
        }
        "kfilter" => {
            let a = make_array(build(&parse_dump(t[3], &dt)));
            let bits = parse_bits(t[4]);
            let nulls = parse_bits(t[5]);
            let k: usize = t[7].parse().unwrap();
            let mut v: Vec<Option<bool>> = (0..k).map(|i| Some(i % 2 == 0)).collect();
            v.extend(bits.iter().zip(nulls.iter()).map(|(b, n)| if *n { None } else { Some(*b) }));
            let m = BooleanArray::from(v).slice(k, bits.len());
            let out = if t[6] == "1" { arrow_select::filter::FilterBuilder::new(&m).optimize().build().filter(a.as_ref()) } else { arrow_select::filter::filter(a.as_ref(), &m) };
            match out {
                Ok(o) => {
                    emit_array(&o, "kfilter");
                    canon_kernel(&o, &[])
                }
                Err(e) => format!("ERR:{}", err_class(&e)),
            }
        }
        "kconcat" => {
            let parts: Vec<ArrayRef> = t[3].split('+').map(|d| make_array(build(&parse_dump(d, &dt)))).collect();
            let refs: Vec<&dyn Array> = parts.iter().map(|x| x.as_ref()).collect();
            match arrow_select::concat::concat(&refs) {
                Ok(o) => {
                    emit_array(&o, "kconcat");
                    canon_kernel(&o, &[])
                }
                Err(e) => format!("ERR:{}", err_class(&e)),
            }
        }
        _ => "bad-op".into(),
    }
}

// ------------------------------------------------------------------ builder histories (hist op)

const HIST_WORDS: [&str; 9] = ["", "a", "twelve bytes", "13 bytes long", "thirteen bytes", "a string that is longer than twelve bytes", "\u{20ac}uro sign and more text here", "zz", "another rather long value 0123456789"];

/// a view array to feed `append_array` with: owns data buffers (long values), or all inline, possibly sliced
fn hist_view_source(rng: &mut Rng) -> StringViewArray {
    let mut b = StringViewBuilder::new();
    if rng.bool() {
        b = b.with_fixed_block_size(*rng.pick(&[16u32, 40, 64]));
    }
    let n = 1 + rng.usize(6);
    let inline_only = rng.chance(1, 4);
    for _ in 0..n {
        if rng.chance(1, 5) {
            b.append_null();
        } else if inline_only {
            b.append_value(rng.pick(&["", "a", "zz", "twelve bytes"]));
        } else {
            b.append_value(rng.pick(&HIST_WORDS));
        }
    }
    let a = b.finish();
    if rng.chance(1, 3) && a.len() > 1 {
        let o = rng.usize(a.len());
        a.slice(o, rng.usize(a.len() - o + 1))
    } else {
        a
    }
}

fn hist_check<T: PartialEq + std::fmt::Debug>(what: &str, got: Vec<Option<T>>, want: &[Option<T>]) {
    if got.len() != want.len() {
        oracle(format!("hist-len-mismatch:{}:{}vs{}", what, got.len(), want.len()));
    } else if got.as_slice() != want {
        let i = got.iter().zip(want.iter()).position(|(a, b)| a != b).unwrap_or(0);
        oracle(format!("hist-value-mismatch:{}:row{}", what, i));
    }
}

/// every array a builder hands out is a produced array: validate, compare with the history, dump
fn hist_out(a: ArrayRef, desc: &str, k: &mut usize) {
    if let Err(e) = a.to_data().validate_full() {
        loud(&e);
        oracle(format!("out-validate_full-err:hist:{}", err_class(&e)));
    } else {
        format_all(a.as_ref());
    }
    emit_array(&a, &format!("{}.{}", desc, *k));
    *k += 1;
}

fn run_hist(kind: &str, seed: u64) {
    let mut rng = Rng::new(seed ^ 0x4157);
    let rng = &mut rng;
    let steps = 2 + rng.usize(10);
    let desc = format!("hist-{}-{}", kind, seed);
    let mut k = 0usize;
    match kind {
        "sv" | "bv" => {
            // GenericByteViewBuilder (string and binary flavour share the code; drive the string one, cast for bv)
            let mut b = StringViewBuilder::new();
            match rng.below(4) {
                0 => b = b.with_fixed_block_size(*rng.pick(&[16u32, 48, 100])),
                1 => b = b.with_deduplicate_strings(),
                _ => {}
            }
            let mut want: Vec<Option<String>> = vec![];
            let mut blocks: Vec<(u32, Vec<u8>)> = vec![];
            let fin = |b: &mut StringViewBuilder, want: &mut Vec<Option<String>>, cloned: bool, k: &mut usize| {
                let a = if cloned { b.finish_cloned() } else { b.finish() };
                let ok = a.to_data().validate_full().is_ok();
                if ok {
                    hist_check("sv", a.iter().map(|x| x.map(|s| s.to_string())).collect(), want);
                }
                let out: ArrayRef = if kind == "bv" { Arc::new(a.to_binary_view()) } else { Arc::new(a) };
                hist_out(out, &desc, k);
                if !cloned {
                    want.clear();
                }
            };
            for _ in 0..steps {
                match rng.below(10) {
                    0 | 1 | 2 => {
                        let w = *rng.pick(&HIST_WORDS);
                        b.append_value(w);
                        want.push(Some(w.to_string()));
                        tag("h:append_value".into());
                    }
                    3 => {
                        b.append_null();
                        want.push(None);
                        tag("h:append_null".into());
                    }
                    4 | 5 | 6 => {
                        let src = hist_view_source(rng);
                        b.append_array(&src);
                        want.extend(src.iter().map(|x| x.map(|s| s.to_string())));
                        tag(format!("h:append_array{}", if src.data_buffers().is_empty() { "-inline" } else { "-buffers" }));
                    }
                    7 => {
                        let data = b"block data with several words in it 0123456789".to_vec();
                        let id = b.append_block(Buffer::from_slice_ref(&data));
                        blocks.push((id, data));
                        tag("h:append_block".into());
                    }
                    8 => {
                        if let Some((id, data)) = blocks.last() {
                            let o = rng.usize(data.len());
                            let l = rng.usize(data.len() - o + 1);
                            if b.try_append_view(*id, o as u32, l as u32).is_ok() {
                                want.push(Some(String::from_utf8(data[o..o + l].to_vec()).unwrap()));
                            }
                            tag("h:try_append_view".into());
                        }
                    }
                    _ => {
                        let cloned = rng.bool();
                        tag(format!("h:{}", if cloned { "finish_cloned" } else { "finish" }));
                        fin(&mut b, &mut want, cloned, &mut k);
                        if !cloned {
                            blocks.clear();
                        }
                    }
                }
            }
            fin(&mut b, &mut want, false, &mut k);
        }
        "s" | "ls" => {
            let mut want: Vec<Option<String>> = vec![];
            macro_rules! drive {
                ($B:ty) => {{
                    let mut b = <$B>::new();
                    for i in 0..=steps {
                        match if i == steps { 9 } else { rng.below(10) } {
                            0 | 1 | 2 => {
                                let w = *rng.pick(&HIST_WORDS);
                                b.append_value(w);
                                want.push(Some(w.to_string()));
                            }
                            3 => {
                                b.append_null();
                                want.push(None);
                            }
                            4 => {
                                let w = *rng.pick(&HIST_WORDS);
                                let n = rng.usize(4);
                                b.append_value_n(w, n);
                                for _ in 0..n {
                                    want.push(Some(w.to_string()));
                                }
                            }
                            5 => {
                                let n = rng.usize(3);
                                b.append_nulls(n);
                                for _ in 0..n {
                                    want.push(None);
                                }
                            }
                            6 | 7 => {
                                let mut sb = <$B>::new();
                                for _ in 0..1 + rng.usize(5) {
                                    if rng.chance(1, 4) { sb.append_null() } else { sb.append_value(rng.pick(&HIST_WORDS)) }
                                }
                                let src = sb.finish();
                                let src = if rng.bool() && src.len() > 1 { let o = 1 + rng.usize(src.len() - 1); src.slice(o, src.len() - o) } else { src };
                                if b.append_array(&src).is_ok() {
                                    want.extend(src.iter().map(|x| x.map(|s| s.to_string())));
                                }
                                tag("h:append_array".into());
                            }
                            c => {
                                let cloned = c == 8;
                                let a = if cloned { b.finish_cloned() } else { b.finish() };
                                hist_check("s", a.iter().map(|x| x.map(|s| s.to_string())).collect(), &want);
                                hist_out(Arc::new(a), &desc, &mut k);
                                if !cloned {
                                    want.clear();
                                }
                            }
                        }
                    }
                }};
            }
            if kind == "s" { drive!(StringBuilder) } else { drive!(LargeStringBuilder) }
        }
        "p" => {
            let mut b = Int32Builder::new();
            let mut want: Vec<Option<i32>> = vec![];
            for i in 0..=steps {
                match if i == steps { 9 } else { rng.below(10) } {
                    0 | 1 => {
                        let v = rng.range(-9, 9) as i32;
                        b.append_value(v);
                        want.push(Some(v));
                    }
                    2 => {
                        b.append_null();
                        want.push(None);
                    }
                    3 => {
                        let n = rng.usize(10);
                        b.append_nulls(n);
                        want.extend((0..n).map(|_| None));
                    }
                    4 => {
                        let v: Vec<i32> = (0..rng.usize(10)).map(|_| rng.range(0, 99) as i32).collect();
                        b.append_slice(&v);
                        want.extend(v.iter().map(|x| Some(*x)));
                    }
                    5 => {
                        let v: Vec<i32> = (0..rng.usize(10)).map(|_| rng.range(0, 99) as i32).collect();
                        let ok: Vec<bool> = v.iter().map(|_| rng.chance(3, 4)).collect();
                        b.append_values(&v, &ok);
                        want.extend(v.iter().zip(ok.iter()).map(|(x, o)| if *o { Some(*x) } else { None }));
                    }
                    6 | 7 => {
                        let src = Int32Array::from((0..1 + rng.usize(12)).map(|_| if rng.chance(1, 4) { None } else { Some(rng.range(0, 99) as i32) }).collect::<Vec<_>>());
                        let src = if rng.bool() && src.len() > 1 { let o = 1 + rng.usize(src.len() - 1); src.slice(o, src.len() - o) } else { src };
                        b.append_array(&src);
                        want.extend(src.iter());
                        tag("h:append_array".into());
                    }
                    c => {
                        let cloned = c == 8;
                        let a = if cloned { b.finish_cloned() } else { b.finish() };
                        hist_check("p", a.iter().collect(), &want);
                        hist_out(Arc::new(a), &desc, &mut k);
                        if !cloned {
                            want.clear();
                        }
                    }
                }
            }
        }
        "l" => {
            let mut b = ListBuilder::new(Int32Builder::new());
            let mut rows = 0usize;
            for i in 0..=steps {
                match if i == steps { 9 } else { rng.below(10) } {
                    0..=4 => {
                        for _ in 0..rng.usize(4) {
                            b.values().append_option(if rng.chance(1, 4) { None } else { Some(rng.range(0, 9) as i32) });
                        }
                        b.append(rng.chance(3, 4));
                        rows += 1;
                    }
                    5 => {
                        b.append_null();
                        rows += 1;
                    }
                    6 => {
                        let n = rng.usize(3);
                        b.append_nulls(n);
                        rows += n;
                    }
                    7 => {
                        b.append_value((0..rng.usize(3)).map(|j| Some(j as i32)));
                        rows += 1;
                    }
                    c => {
                        let cloned = c == 8;
                        let a = if cloned { b.finish_cloned() } else { b.finish() };
                        if a.len() != rows {
                            oracle(format!("hist-len-mismatch:l:{}vs{}", a.len(), rows));
                        }
                        hist_out(Arc::new(a), &desc, &mut k);
                        if !cloned {
                            rows = 0;
                        }
                    }
                }
            }
        }
        "st" => {
            let mut b = StructBuilder::from_fields(vec![Field::new("a", DataType::Int32, true), Field::new("b", DataType::Utf8, true)], 0);
            let mut rows = 0usize;
            for i in 0..=steps {
                match if i == steps { 9 } else { rng.below(10) } {
                    0..=5 => {
                        b.field_builder::<Int32Builder>(0).unwrap().append_option(if rng.chance(1, 4) { None } else { Some(3) });
                        b.field_builder::<StringBuilder>(1).unwrap().append_option(if rng.chance(1, 4) { None } else { Some(*rng.pick(&HIST_WORDS)) });
                        b.append(rng.chance(3, 4));
                        rows += 1;
                    }
                    6 | 7 => {
                        b.field_builder::<Int32Builder>(0).unwrap().append_null();
                        b.field_builder::<StringBuilder>(1).unwrap().append_null();
                        b.append_null();
                        rows += 1;
                    }
                    c => {
                        let cloned = c == 8;
                        let a = if cloned { b.finish_cloned() } else { b.finish() };
                        if a.len() != rows {
                            oracle(format!("hist-len-mismatch:st:{}vs{}", a.len(), rows));
                        }
                        hist_out(Arc::new(a), &desc, &mut k);
                        if !cloned {
                            rows = 0;
                        }
                    }
                }
            }
        }
        _ => {
            // "d": StringDictionaryBuilder<Int8Type>
            let mut b = StringDictionaryBuilder::<Int8Type>::new();
            let mut want: Vec<Option<String>> = vec![];
            for i in 0..=steps {
                match if i == steps { 9 } else { rng.below(10) } {
                    0..=3 => {
                        let w = *rng.pick(&HIST_WORDS);
                        if b.append(w).is_ok() {
                            want.push(Some(w.to_string()));
                        }
                    }
                    4 => {
                        b.append_null();
                        want.push(None);
                    }
                    5 => {
                        let n = rng.usize(3);
                        b.append_nulls(n);
                        want.extend((0..n).map(|_| None));
                    }
                    6 => {
                        let w = *rng.pick(&HIST_WORDS);
                        let n = rng.usize(3);
                        b.append_values(w, n);
                        want.extend((0..n).map(|_| Some(w.to_string())));
                    }
                    c => {
                        let a = match c {
                            7 => b.finish_preserve_values(),
                            8 => b.finish_cloned(),
                            _ => b.finish(),
                        };
                        let got: Vec<Option<String>> = {
                            let vals = a.values().as_string::<i32>();
                            a.keys().iter().map(|k| k.map(|k| vals.value(k as usize).to_string())).collect()
                        };
                        hist_check("d", got, &want);
                        hist_out(Arc::new(a), &desc, &mut k);
                        if c != 8 {
                            want.clear();
                        }
                    }
                }
            }
        }
    }
}

// ------------------------------------------------------------------------------- run_case

fn format_all(a: &dyn Array) {
    for i in 0..a.len().min(2 * MAX_ROWS) {
        let _ = arrow_cast::display::array_value_to_string(a, i);
    }
}

fn run_case(line: &str) -> String {
    let t: Vec<&str> = line.split(' ').collect();
    assert_eq!(t[0], "C01");
    OUT.with(|o| *o.borrow_mut() = None);
    match t[1] {
        "batch" => "wf=1".into(),
        "ktake" | "kfilter" | "kconcat" => run_kcase(&t),
        "hist" => {
            tag(format!("op:hist-{}", t[2]));
            let (kind, seed) = (t[2].to_string(), t[3].parse::<u64>().unwrap());
            if catch_unwind(AssertUnwindSafe(|| run_hist(&kind, seed))).is_err() {
                oracle(format!("panic:hist-{}", kind));
            }
            "ok".into()
        }
        "step" | "stepx" => {
            let (desc, step, lt, dump) = (t[2], t[3], t[4], t[5]);
            let dt = lt_parse(lt);
            let mut c = Cur { s: dump.as_bytes(), i: 0 };
            let p = parse_phys(&mut c, &dt);
            assert_eq!(c.i, dump.len());
            let mut fs = vec![];
            features(&p, true, &mut fs);
            for f in fs.iter() {
                tag(f.to_string());
            }
            tag(format!("ty:{}", kind_tag(&dt)));
            let (name, seed) = match step.split_once(':') {
                Some((n, s)) => (n, s.parse::<u64>().unwrap_or(0)),
                None => (step, 0),
            };
            tag(format!("op:{}", name));
            // 1. the dumped layout must be valid for the real validator
            let data = match catch_unwind(AssertUnwindSafe(|| {
                let d = build(&p);
                let v = d.validate_full();
                (d, v)
            })) {
                Ok((d, Ok(()))) => d,
                Ok((_, Err(e))) => {
                    loud(&e);
                    stop();
                    if desc.ends_with("/gen") {
                        // a generated (spec-valid) input the real validator rejects: C09's business, not a produced array
                        tag("res:gen-rejected-by-validate_full".into());
                    } else {
                        oracle(format!("in-validate_full-err:{}", err_class(&e)));
                        tag("res:in-invalid".into());
                        if has_fsb0(&dt) && fs.contains(&"f:struct-child-short") {
                            kf("kf:zero-width-select".into());
                        }
                    }
                    return "wf=1".into();
                }
                Err(_) => {
                    stop();
                    oracle("panic:build".into());
                    return "wf=1".into();
                }
            };
            // 2. typed array
            let arr = match catch_unwind(AssertUnwindSafe(|| {
                let a = make_array(data);
                format_all(a.as_ref());
                a
            })) {
                Ok(a) => a,
                Err(_) => {
                    stop();
                    oracle("panic:make_array".into());
                    tag("res:panic".into());
                    classify_panic("make_array", &fs, &dt);
                    return "wf=1".into();
                }
            };
            if name == "end" {
                tag("res:end".into());
                return "wf=1".into();
            }
            // 3. the step
            EXPECT.with(|e| *e.borrow_mut() = None);
            match catch_unwind(AssertUnwindSafe(|| apply(name, seed, &arr, desc))) {
                Err(_) => {
                    oracle(format!("panic:{}", name));
                    tag("res:panic".into());
                    classify_panic(name, &fs, &dt);
                }
                Ok(Err(e)) => {
                    tag(format!("res:err:{}", err_class(&e)));
                }
                Ok(Ok(out)) => {
                    tag("res:ok".into());
                    // 4. the output must be valid for the real validator, and usable
                    if let Some(want) = EXPECT.with(|e| e.borrow_mut().take()) {
                        if out.len() != want {
                            oracle(format!("len-mismatch:{}:{}vs{}", name, out.len(), want));
                            classify_out(name, &fs, &dt, out.data_type());
                            stop();
                        }
                    }
                    match catch_unwind(AssertUnwindSafe(|| {
                        let d = out.to_data();
                        let mut v = d.validate_full();
                        if v.is_err() && build(&phys_of(&d)).validate_full().is_ok() {
                            // `validate` compares the bitmap's byte length with ceil((offset+len)/8) although a
                            // NullBuffer carries its own offset: the same layout with a re-based bitmap is accepted
                            // (it is what the next case line carries).  Validator false reject, recorded only.
                            if let Err(e) = &v {
                                loud(e);
                            }
                            tag("validate_full-false-reject".into());
                            v = Ok(());
                        }
                        if v.is_ok() {
                            format_all(out.as_ref());
                            let _ = out.logical_nulls().map(|x| x.null_count());
                        }
                        v
                    })) {
                        Ok(Ok(())) => {}
                        Ok(Err(e)) => {
                            loud(&e);
                            oracle(format!("out-validate_full-err:{}:{}", name, err_class(&e)));
                            classify_out(name, &fs, &dt, out.data_type());
                            stop();
                        }
                        Err(_) => {
                            oracle(format!("panic:use-output:{}", name));
                            classify_out(name, &fs, &dt, out.data_type());
                            stop();
                        }
                    }
                    OUT.with(|o| *o.borrow_mut() = Some(out));
                }
            }
            "wf=1".into()
        }
        _ => "bad-op".into(),
    }
}

/// a zero-width element type: FixedSizeBinary(0) or FixedSizeList(_, 0)
fn has_fsb0(dt: &DataType) -> bool {
    matches!(dt, DataType::FixedSizeBinary(0) | DataType::FixedSizeList(_, 0)) || child_types(dt).iter().any(has_fsb0)
}
fn has_view(dt: &DataType) -> bool {
    matches!(dt, DataType::Utf8View | DataType::BinaryView) || child_types(dt).iter().any(has_view)
}
fn kf(s: String) {
    let already = TAGS.with(|t| t.borrow().contains(&s));
    if !already {
        tag(s);
    }
}

/// precise tags for the panics that are known defects (keys of known_findings.txt)
fn classify_panic(step: &str, fs: &[&'static str], dt: &DataType) {
    let has = |f: &str| fs.contains(&f);
    if step == "make_array" && (has("f:struct-off-nested") || has("f:struct-child-short") || has("f:struct-child-off")) {
        kf("kf:arraydata-slice-struct".into());
    }
    if has("f:ree-runends-off") {
        kf("kf:ree-runends-child-offset".into());
    }
    if step == "cast" && has("f:sparse-union-child-len") {
        kf("kf:sparse-union-from-arraydata".into());
    }
    if step == "take" && matches!(dt, DataType::Union(_, UnionMode::Dense)) {
        kf("kf:take-dense-union-null-index".into());
    }
    if step == "rowconv" {
        if let DataType::Union(f, UnionMode::Dense) = dt {
            if f.iter().any(|(i, _)| i as usize >= f.len()) {
                kf("kf:rowconv-dense-union-typeid".into());
            }
        }
    }
    if step == "cmp" {
        if let DataType::Dictionary(_, v) = dt {
            if matches!(**v, DataType::Dictionary(..)) {
                kf("kf:cmp-nested-dictionary".into());
            }
        }
    }
    if matches!(step, "string" | "string2") && has("f:dict-empty-values") {
        kf("kf:like-dict-empty-values".into());
    }
    if step == "sort" && matches!(dt, DataType::RunEndEncoded(..)) {
        kf("kf:sort-ree-rank-unwrap".into());
    }
    if has_fsb0(dt) && !matches!(step, "make_array" | "norm" | "cast") {
        kf("kf:zero-width-select".into());
    }
}

/// the same for malformed / wrong-length outputs
fn classify_out(step: &str, fs: &[&'static str], dt: &DataType, out_dt: &DataType) {
    if fs.contains(&"f:sparse-union-child-len") {
        kf("kf:sparse-union-from-arraydata".into());
    }
    if fs.contains(&"f:ree-runends-off") {
        kf("kf:ree-runends-child-offset".into());
    }
    if has_fsb0(dt) || has_fsb0(out_dt) {
        kf("kf:zero-width-select".into());
    }
    if step == "zip" && has_view(dt) {
        kf("kf:zip-view-inline-buffer-index".into());
    }
}

// ------------------------------------------------------------------------------- generator

fn put_int(v: i64, w: usize, out: &mut Vec<u8>) {
    out.extend_from_slice(&v.to_le_bytes()[..w]);
}
fn set_int(b: &mut [u8], i: usize, w: usize, v: i64) {
    b[i * w..i * w + w].copy_from_slice(&v.to_le_bytes()[..w]);
}
fn bit(b: &[u8], i: usize) -> bool {
    i / 8 < b.len() && (b[i / 8] >> (i % 8)) & 1 == 1
}

const CHARS: [&str; 6] = ["a", "z", "\u{e9}", "\u{20ac}", "\u{1d11e}", "~"];

fn can_null(t: &DataType) -> bool {
    !matches!(t, DataType::Null | DataType::Union(..) | DataType::RunEndEncoded(..))
}

/// a valid layout of `n` slots of type `dt` behind `off` unused leading slots.  `exotic` adds child
/// offsets and slack at every level (layouts only reachable through `ArrayData::try_new`).
fn gen_layout(rng: &mut Rng, dt: &DataType, n: usize, off: usize, no_nulls: bool, exotic: bool) -> Phys {
    use DataType::*;
    let total = off + n;
    let extra = |rng: &mut Rng| if rng.chance(1, 4) { 1 + rng.usize(2) } else { 0 };
    let koff = |rng: &mut Rng| if exotic && rng.chance(1, 3) { 1 + rng.usize(3) } else { 0 };
    // view / list-view types: built by the typed API, then windowed
    if matches!(dt, Utf8View | BinaryView | ListView(_) | LargeListView(_)) {
        let arr: ArrayRef = match dt {
            Utf8View => {
                let mut b = StringViewBuilder::new().with_fixed_block_size(32);
                for _ in 0..total {
                    if !no_nulls && rng.chance(1, 4) { b.append_null() } else { b.append_value(rng.pick(&["", "ab", "twelve bytes", "13 bytes long", "thirteen bytes", "a much longer string with \u{20ac} inside", "\u{1d11e}"])) }
                }
                Arc::new(b.finish())
            }
            BinaryView => {
                let mut b = BinaryViewBuilder::new();
                for _ in 0..total {
                    if !no_nulls && rng.chance(1, 4) { b.append_null() } else { b.append_value({ let k = rng.usize(20); rng.bytes(k) }) }
                }
                Arc::new(b.finish())
            }
            ListView(f) | LargeListView(f) => {
                let m = 1 + rng.usize(6);
                let child = make_array(build(&gen_layout(rng, f.data_type(), m, 0, !f.is_nullable(), false)));
                let mut offs: Vec<i64> = vec![];
                let mut sizes: Vec<i64> = vec![];
                for _ in 0..total {
                    let o = rng.usize(m + 1);
                    offs.push(o as i64);
                    sizes.push(rng.usize(m - o + 1) as i64);
                }
                let nulls = if !no_nulls && rng.bool() { Some(NullBuffer::from((0..total).map(|_| rng.chance(3, 4)).collect::<Vec<_>>())) } else { None };
                if matches!(dt, ListView(_)) {
                    Arc::new(ListViewArray::try_new(f.clone(), ScalarBuffer::from(offs.iter().map(|x| *x as i32).collect::<Vec<_>>()), ScalarBuffer::from(sizes.iter().map(|x| *x as i32).collect::<Vec<_>>()), child, nulls).expect("listview"))
                } else {
                    Arc::new(LargeListViewArray::try_new(f.clone(), ScalarBuffer::from(offs), ScalarBuffer::from(sizes), child, nulls).expect("listview"))
                }
            }
            _ => unreachable!(),
        };
        let mut p = phys_of(&arr.to_data());
        p.offset = off;
        p.len = n;
        p.nc = None;
        return p;
    }
    let nulls = if can_null(dt) && !no_nulls && rng.chance(1, 2) {
        let mut b = { let e = extra(rng); rng.bytes((total + 7) / 8 + e) };
        if rng.chance(1, 5) {
            for x in b.iter_mut() {
                *x = 0xff;
            }
        }
        Some(b)
    } else {
        None
    };
    let mut p = Phys { dt: dt.clone(), len: n, offset: off, nulls, nc: None, bufs: vec![], kids: vec![] };
    if let Some(w) = prim_width(dt) {
        let mut b = { let e = extra(rng); rng.bytes(total * w + e) };
        match dt {
            Decimal128(pr, _) | Decimal256(pr, _) => {
                // stay inside the declared precision (validate_full checks it, also under nulls)
                let lim = 10i64.pow((*pr as u32).min(9));
                for i in 0..total {
                    let v = rng.range(-lim + 1, lim - 1);
                    let fill = if v < 0 { 0xff } else { 0 };
                    for j in 0..w {
                        b[i * w + j] = if j < 8 { v.to_le_bytes()[j] } else { fill };
                    }
                }
            }
            Int8 | Int16 | Int32 | Int64 | UInt8 | UInt16 | UInt32 | UInt64 if rng.bool() => {
                // small values (ties for sort, no key overflow on dictionary casts)
                for i in 0..total {
                    set_int(&mut b, i, w, rng.range(-3, 6).max(if matches!(dt, UInt8 | UInt16 | UInt32 | UInt64) { 0 } else { -3 }));
                }
            }
            _ => {}
        }
        p.bufs.push(b);
        return p;
    }
    match dt {
        Null => {}
        Boolean => p.bufs.push({ let e = extra(rng); rng.bytes((total + 7) / 8 + e) }),
        FixedSizeBinary(w) => p.bufs.push({ let e = extra(rng); rng.bytes(total * *w as usize + e) }),
        Utf8 | LargeUtf8 | Binary | LargeBinary => {
            let w = if matches!(dt, LargeUtf8 | LargeBinary) { 8 } else { 4 };
            let mut data: Vec<u8> = vec![];
            for _ in 0..rng.usize(3) {
                data.push(b'#');
            }
            let mut offs = vec![];
            put_int(data.len() as i64, w, &mut offs);
            for _ in 0..total {
                for _ in 0..rng.usize(4) {
                    if matches!(dt, Utf8 | LargeUtf8) {
                        data.extend_from_slice(rng.pick(&CHARS).as_bytes());
                    } else {
                        data.push(rng.next_u64() as u8);
                    }
                }
                put_int(data.len() as i64, w, &mut offs);
            }
            for _ in 0..extra(rng) {
                data.push(b'#');
            }
            if total == 0 && rng.chance(1, 3) {
                offs.clear();
            }
            p.bufs.push(offs);
            p.bufs.push(data);
        }
        List(f) | LargeList(f) | Map(f, _) => {
            let w = if matches!(dt, LargeList(_)) { 8 } else { 4 };
            let mut offs = vec![];
            let mut pos = rng.usize(3);
            put_int(pos as i64, w, &mut offs);
            for _ in 0..total {
                pos += rng.usize(4);
                put_int(pos as i64, w, &mut offs);
            }
            let m = pos + extra(rng);
            if total == 0 && rng.chance(1, 3) {
                offs.clear();
            }
            p.bufs.push(offs);
            p.kids.push({ let ko = koff(rng); gen_layout(rng, f.data_type(), m, ko, !f.is_nullable(), exotic) });
        }
        FixedSizeList(f, k) => {
            let m = total * *k as usize + extra(rng);
            p.kids.push({ let ko = koff(rng); gen_layout(rng, f.data_type(), m, ko, !f.is_nullable(), exotic) });
        }
        Struct(fs) => {
            for f in fs.iter() {
                let m = total + extra(rng);
                p.kids.push({ let ko = koff(rng); gen_layout(rng, f.data_type(), m, ko, !f.is_nullable(), exotic) });
            }
        }
        Dictionary(k, v) => {
            let kw = prim_width(k).unwrap();
            let m = 1 + rng.usize(4);
            let mut keys = vec![];
            for _ in 0..total {
                put_int(rng.usize(m) as i64, kw, &mut keys);
            }
            if let Some(nb) = &p.nulls {
                for i in 0..n {
                    if !bit(nb, off + i) && rng.chance(1, 2) {
                        set_int(&mut keys, off + i, kw, 100);
                    }
                }
            }
            for _ in 0..extra(rng) {
                keys.extend_from_slice(&vec![0x7f; kw]);
            }
            p.bufs.push(keys);
            p.kids.push({ let ko = koff(rng); gen_layout(rng, v, m, ko, false, exotic) });
        }
        RunEndEncoded(r, v) => {
            let rw = prim_width(r.data_type()).unwrap();
            let mut ends = vec![];
            let mut e = 0usize;
            let mut runs = 0;
            while e < total || (runs == 0 && rng.bool()) {
                e += 1 + rng.usize(4);
                put_int(e as i64, rw, &mut ends);
                runs += 1;
            }
            let ro = if exotic && rng.chance(1, 6) { 1 } else { 0 };
            let mut re_buf = vec![0u8; ro * rw];
            re_buf.extend_from_slice(&ends);
            p.kids.push(Phys { dt: r.data_type().clone(), len: runs, offset: ro, nulls: None, nc: None, bufs: vec![re_buf], kids: vec![] });
            let vo = koff(rng);
            p.kids.push(gen_layout(rng, v.data_type(), runs, vo, false, exotic));
        }
        Union(fs, mode) => {
            let dense = *mode == UnionMode::Dense;
            let fl: Vec<(i8, FieldRef)> = fs.iter().map(|(i, f)| (i, f.clone())).collect();
            let mut ids = vec![];
            let mut offs = vec![];
            let lens: Vec<usize> = fl.iter().map(|_| if dense { 1 + rng.usize(4) } else { total + extra(rng) }).collect();
            for _ in 0..total {
                let k = rng.usize(fl.len());
                ids.push(fl[k].0 as u8);
                if dense {
                    put_int(rng.usize(lens[k]) as i64, 4, &mut offs);
                }
            }
            for _ in 0..extra(rng) {
                ids.push(fl[0].0 as u8);
                if dense {
                    put_int(0, 4, &mut offs);
                }
            }
            p.bufs.push(ids);
            if dense {
                p.bufs.push(offs);
            }
            for (k, (_, f)) in fl.iter().enumerate() {
                p.kids.push({ let ko = koff(rng); gen_layout(rng, f.data_type(), lens[k], ko, false, exotic) });
            }
        }
        _ => panic!("gen_layout: unsupported {dt}"),
    }
    p
}

fn type_grid() -> Vec<(&'static str, DataType)> {
    use DataType::*;
    let item = |t: DataType, n: bool| Arc::new(Field::new("item", t, n));
    let uf = |fs: Vec<(i8, DataType)>| UnionFields::try_new(fs.iter().map(|x| x.0), fs.iter().enumerate().map(|(k, x)| Field::new(format!("u{}", k), x.1.clone(), true))).unwrap();
    vec![
        ("null", Null),
        ("bool", Boolean),
        ("i8", Int8),
        ("i16", Int16),
        ("i32", Int32),
        ("i64", Int64),
        ("u8", UInt8),
        ("u16", UInt16),
        ("u32", UInt32),
        ("u64", UInt64),
        ("f32", Float32),
        ("f64", Float64),
        ("dec128", Decimal128(10, 2)),
        ("dec256", Decimal256(20, 0)),
        ("date32", Date32),
        ("date64", Date64),
        ("ts-ms-utc", Timestamp(TimeUnit::Millisecond, Some("UTC".into()))),
        ("ts-ns", Timestamp(TimeUnit::Nanosecond, None)),
        ("utf8", Utf8),
        ("large-utf8", LargeUtf8),
        ("binary", Binary),
        ("large-binary", LargeBinary),
        ("fsb3", FixedSizeBinary(3)),
        ("fsb0", FixedSizeBinary(0)),
        ("list-i32", List(item(Int32, true))),
        ("list-i32-nn", List(item(Int32, false))),
        ("large-list-utf8", LargeList(item(Utf8, true))),
        ("list-list", List(item(List(item(Int8, true)), true))),
        ("fsl2-i16", FixedSizeList(item(Int16, true), 2)),
        ("fsl0", FixedSizeList(item(Int32, true), 0)),
        ("struct", Struct(Fields::from(vec![Field::new("a", Int32, true), Field::new("b", Utf8, true)]))),
        ("struct-nn", Struct(Fields::from(vec![Field::new("a", Int64, false), Field::new("b", Boolean, true)]))),
        ("struct-nested", Struct(Fields::from(vec![Field::new("s", Struct(Fields::from(vec![Field::new("x", Int32, true)])), true), Field::new("l", List(item(Int32, true)), true)]))),
        ("struct-null", Struct(Fields::from(vec![Field::new("n", Null, true), Field::new("a", Int32, true)]))),
        ("struct-fsb0", Struct(Fields::from(vec![Field::new("z", FixedSizeBinary(0), true)]))),
        ("struct-empty", Struct(Fields::empty())),
        ("dict-i8-utf8", Dictionary(Box::new(Int8), Box::new(Utf8))),
        ("dict-i32-utf8", Dictionary(Box::new(Int32), Box::new(Utf8))),
        ("dict-u16-i64", Dictionary(Box::new(UInt16), Box::new(Int64))),
        ("ree-i32-utf8", RunEndEncoded(Arc::new(Field::new("run_ends", Int32, false)), Arc::new(Field::new("values", Utf8, true)))),
        ("ree-i16-i32", RunEndEncoded(Arc::new(Field::new("run_ends", Int16, false)), Arc::new(Field::new("values", Int32, true)))),
        ("ree-i64-bool", RunEndEncoded(Arc::new(Field::new("run_ends", Int64, false)), Arc::new(Field::new("values", Boolean, true)))),
        ("union-dense", Union(uf(vec![(0, Int32), (5, Utf8)]), UnionMode::Dense)),
        ("union-sparse", Union(uf(vec![(7, Int32), (1, Utf8)]), UnionMode::Sparse)),
        ("map", Map(Arc::new(Field::new("entries", Struct(Fields::from(vec![Field::new("keys", Utf8, false), Field::new("values", Int32, true)])), false)), false)),
        ("list-struct", List(item(Struct(Fields::from(vec![Field::new("a", Int32, true)])), true))),
        ("list-dict", List(item(Dictionary(Box::new(Int8), Box::new(Utf8)), true))),
        ("utf8view", Utf8View),
        ("binaryview", BinaryView),
        ("listview-i32", ListView(item(Int32, true))),
        ("large-listview-utf8", LargeListView(item(Utf8, true))),
    ]
}

fn pick_len(rng: &mut Rng) -> usize {
    match rng.below(10) {
        0 => 0,
        1 => 1,
        2 => *rng.pick(&[7usize, 8, 9]),
        3 => *rng.pick(&[15usize, 16, 17, 31, 33]),
        _ => 2 + rng.usize(10),
    }
}
fn pick_off(rng: &mut Rng) -> usize {
    match rng.below(8) {
        0..=2 => 0,
        3 => *rng.pick(&[7usize, 8, 9, 13]),
        _ => 1 + rng.usize(5),
    }
}

/// the reproduced defects, replayed on every run (case lines are self-contained)
const WITNESSES: [&str; 0] = [];

fn main() {
    let args = parse_args();
    if std::env::var("VERIF_LOUD").is_err() {
        quiet_panics();
    }
    let mut sink = Sink::new(&args.out);
    // run one case line (plus the extra lines it spawns); returns the step's output, whether the
    // pipeline must stop here, and the known-finding tags of the step
    fn emit(sink: &mut Sink, line: String, tags: &str) -> (Option<ArrayRef>, bool, Vec<String>) {
        ORACLE.with(|o| o.borrow_mut().clear());
        TAGS.with(|o| o.borrow_mut().clear());
        EXTRA.with(|o| o.borrow_mut().clear());
        STOP.with(|o| *o.borrow_mut() = false);
        let a = guarded(|| run_case(&line));
        let out = OUT.with(|o| o.borrow_mut().take());
        let stopped = STOP.with(|o| *o.borrow());
        let fails: Vec<String> = ORACLE.with(|o| o.borrow_mut().drain(..).collect());
        let more: Vec<String> = TAGS.with(|o| o.borrow_mut().drain(..).collect());
        let extra: Vec<(String, String)> = EXTRA.with(|o| o.borrow_mut().drain(..).collect());
        let kfs: Vec<String> = more.iter().filter(|t| t.starts_with("kf:")).cloned().collect();
        let mut tags = tags.to_string();
        for u in more {
            tags.push(' ');
            tags.push_str(&u);
        }
        let a = if a == "PANIC" {
            sink.oracle_failure(line.clone(), "panic:harness".into(), &tags);
            "wf=1".to_string()
        } else {
            a
        };
        for f in fails {
            sink.oracle_failure(line.clone(), f, &tags);
        }
        sink.case(line, a, &tags);
        for (l, t) in extra {
            let _ = emit(sink, l, &t);
        }
        (out, stopped, kfs)
    }
    if args.mode == "replay" {
        for line in read_cases(args.replay.as_ref().unwrap()) {
            let _ = emit(&mut sink, line, "replay");
        }
    } else {
        for l in WITNESSES.iter() {
            let _ = emit(&mut sink, l.to_string(), "witness nt");
        }
        let grid = type_grid();
        let n = n_cases(&args, 2500, 100000);
        // DENSE deterministic boundary block: every size class x offset class x key type x core kernel,
        // the same in every run (sizes around 8/12/16/32/64/128, offsets around byte / word boundaries)
        {
            let sizes = [0usize, 1, 7, 8, 9, 12, 13, 16, 17, 31, 32, 33, 63, 64, 65, 127, 128, 129];
            let offs = [0usize, 1, 7, 8, 9, 63, 64, 65];
            let keys = ["bool", "i32", "i64", "dec128", "utf8", "large-binary", "fsb3", "list-i32", "fsl2-i16", "struct", "dict-i8-utf8", "ree-i32-utf8", "union-dense", "union-sparse", "utf8view", "map"];
            let core = ["filter", "take", "concat", "interleave", "zip", "nullif", "shift", "slice", "sort", "cast", "mutable", "ipc", "rowconv", "select2", "norm", "cmp"];
            let mut brng = Rng::new(0xB0D1);
            let mut c = 0usize;
            for (ti, k) in keys.iter().enumerate() {
                let dt = grid.iter().find(|g| g.0 == *k).unwrap().1.clone();
                for (si, rows) in sizes.iter().enumerate() {
                    let off = offs[(ti + si) % offs.len()];
                    let cur = gen_layout(&mut brng, &dt, *rows, off, false, false);
                    for j in 0..2 {
                        let name = core[(ti + 3 * si + 7 * j) % core.len()];
                        let desc = format!("dense.{}.{}/{}/gen", c, j, k);
                        let op = if is_ext(&cur.dt) { "stepx" } else { "step" };
                        let line = format!("C01 {} {} {}:{} {} {}", op, desc, name, brng.below(1 << 32), lt_token(&cur.dt), show_phys(&cur));
                        let tags = format!("dense size:{} off:{} grid:{}{}", rows, off, k, if *rows > 0 { " nt" } else { "" });
                        let (out, stopped, kfs) = emit(&mut sink, line, &tags);
                        if let Some(out) = out {
                            // the output is a produced array: send it to the Lean side as an `end` line
                            if let Ok(p) = catch_unwind(AssertUnwindSafe(|| phys_of(&out.to_data()))) {
                                if p.len <= 4 * MAX_ROWS + 70 {
                                    let mut prev = name.to_string();
                                    for k in kfs.iter() {
                                        prev.push('!');
                                        prev.push_str(k);
                                    }
                                    let _ = stopped;
                                    let op = if is_ext(&p.dt) { "stepx" } else { "step" };
                                    let line = format!("C01 {} dense.{}.{}/{}/{} end {} {}", op, c, j, k, prev, lt_token(&p.dt), show_phys(&p));
                                    let _ = emit(&mut sink, line, &format!("dense-out from:{}", name));
                                }
                            }
                        }
                    }
                    c += 1;
                }
            }
        }
        // kernel-model correspondence and builder histories
        let mut krng = Rng::new(args.seed ^ 0xC01_0001);
        for _ in 0..n {
            let (line, tags) = gen_kcase(&mut krng);
            let _ = emit(&mut sink, line, &tags);
        }
        for i in 0..n / 2 {
            let kind = ["sv", "sv", "sv", "bv", "s", "ls", "p", "l", "st", "d"][i % 10];
            let line = format!("C01 hist {} {}", kind, krng.below(1 << 40));
            let _ = emit(&mut sink, line, "nt");
        }
        for idx in 0..n {
            let mut rng = Rng::new((args.seed ^ 0xC01).wrapping_add((idx as u64).wrapping_mul(0x9E37_79B9_7F4A_7C15)));
            let (gname, dt) = rng.pick(&grid).clone();
            let exotic = rng.chance(1, 3);
            let rows = pick_len(&mut rng);
            let off = pick_off(&mut rng);
            let mut cur = gen_layout(&mut rng, &dt, rows, off, false, exotic);
            let stages = 1 + rng.usize(6);
            let mut prev = "gen".to_string();
            let mut force_end = false;
            for stage in 0..=stages {
                let last = stage == stages || force_end;
                let name = *rng.pick(&STEPS);
                let step = if last { "end".to_string() } else { format!("{}:{}", name, rng.below(1 << 32)) };
                let desc = format!("{}.{}.{}/{}/{}", args.seed, idx, stage, gname, prev);
                let op = if is_ext(&cur.dt) { "stepx" } else { "step" };
                let line = format!("C01 {} {} {} {} {}", op, desc, step, lt_token(&cur.dt), show_phys(&cur));
                let mut tags = format!("stage:{} grid:{}{}{}", stage, gname, if exotic { " lay:exotic" } else { "" }, if cur.len > 0 { " nt" } else { "" });
                if stage > 0 {
                    tags.push_str(&format!(" from:{}", prev.split('!').next().unwrap()));
                }
                let (out, stopped, kfs) = emit(&mut sink, line, &tags);
                if last {
                    break;
                }
                if let Some(out) = out {
                    let out = if out.len() > MAX_ROWS && !stopped { out.slice(0, MAX_ROWS) } else { out };
                    match catch_unwind(AssertUnwindSafe(|| phys_of(&out.to_data()))) {
                        Ok(p) => {
                            cur = p;
                            prev = name.to_string();
                            // a malformed output is still sent to the Lean side, as the last line of the
                            // pipeline, carrying the classification of the step that produced it
                            for k in kfs.iter() {
                                prev.push('!');
                                prev.push_str(k);
                            }
                            force_end = stopped;
                        }
                        Err(_) => {
                            sink.oracle_failure(format!("C01 step {} dump", desc), format!("panic:to_data-after:{}", name), &tags);
                            break;
                        }
                    }
                } else if stopped {
                    break;
                }
            }
        }
    }
    sink.finish();
}
