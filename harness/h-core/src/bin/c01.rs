use arrow_schema::*;
use std::sync::Arc;
use std::str::FromStr;
fn main() {
    let f = |n: &str, t: DataType, nb: bool| Arc::new(Field::new(n, t, nb));
    let tys = vec![
        DataType::Decimal128(10, 2),
        DataType::Timestamp(TimeUnit::Millisecond, Some("UTC".into())),
        DataType::Timestamp(TimeUnit::Nanosecond, None),
        DataType::List(f("item", DataType::Int32, true)),
        DataType::List(f("item", DataType::Int32, false)),
        DataType::LargeList(f("x", DataType::Utf8, true)),
        DataType::FixedSizeList(f("item", DataType::Int16, true), 3),
        DataType::Struct(Fields::from(vec![Field::new("a", DataType::Int32, false), Field::new("b", DataType::Utf8, true)])),
        DataType::Dictionary(Box::new(DataType::Int8), Box::new(DataType::Utf8)),
        DataType::RunEndEncoded(f("run_ends", DataType::Int32, false), f("values", DataType::Utf8, true)),
        DataType::Union(UnionFields::try_new(vec![0, 5], vec![Field::new("a", DataType::Int32, true), Field::new("b", DataType::Utf8, true)]).unwrap(), UnionMode::Dense),
        DataType::Union(UnionFields::try_new(vec![0, 5], vec![Field::new("a", DataType::Int32, true), Field::new("b", DataType::Utf8, true)]).unwrap(), UnionMode::Sparse),
        DataType::Utf8View,
        DataType::ListView(f("item", DataType::Int32, true)),
        DataType::Map(f("entries", DataType::Struct(Fields::from(vec![Field::new("keys", DataType::Utf8, false), Field::new("values", DataType::Int32, true)])), false), false),
        DataType::FixedSizeBinary(3),
    ];
    for t in tys {
        let s = t.to_string();
        let r = DataType::from_str(&s);
        println!("{} => {}", s, match r { Ok(x) => (x == t).to_string(), Err(e) => format!("ERR {e}") });
    }
}
