//! C18 correspondence harness (IPC / JSON / CSV part): truncation and I/O faults are reported,
//! never turned into wrong rows.
//!
//! Case lines (self-contained; `<spec>` = `<schema>:<batches>:<rows>:<seed>[:<align>]` regenerates the input):
//!   C18 ipcs <sr|srb|sd> <spec> <legacy> <eos> <kind:metaLen:bodyLen,…> <k>   model: batches=<n> end=eos|err
//!   C18 ipcf <spec> <len> <k> <tail-hex>                                      model: reject | SKIP     impl: reject|accept
//!   C18 sink <w<hex>;f;…> <sched>                                             model: <accepted-hex> ok|err   (std write_all/flush)
//!   C18 wfault <writer> <spec> <sched> <trace>                                model: accepted=<n> res=ok|err
//!       writers: sw swl swb swB swc (StreamWriter: raw, legacy, BufWriter(256), try_new_buffered, RecordBatchWriter trait)
//!                fw fwl fwb fwB fwm fwc (FileWriter: + custom metadata), csv, json, jsona
//!   C18 rfault <reader> <spec> <E|I|S|A> <k> <n>                              model: res=err | res=ok batches=<n> | SKIP
//!       readers: sr srb fr frb frp (projection + set_index), csv csvb (build_buffered), json,
//!                csvi (Format::infer_schema), jsoni (infer_json_schema)
//!   C18 jsont <spec> <batch> <k> <json-hex>                                   model: rows=<n> end=eos|err
//! Oracle checks (reported with `oracle_failure`, independent of the model): no panic, no
//! hang; decoded batches of a truncated stream are the first batches written (==); sink content
//! under any fault is a prefix of the fault-free output and all of it when the writer said ok;
//! `finish` after a failed write on a dead sink is never `Ok`; a reader under a fault returns
//! only batches that the fault-free read returns, in order.
#[path = "../c18_common.rs"]
mod common;
use arrow_array::RecordBatch;
use arrow_buffer::Buffer;
use arrow_ipc::MetadataVersion;
use arrow_ipc::reader::{FileReader, StreamDecoder, StreamReader};
use arrow_ipc::writer::{FileWriter, IpcWriteOptions, StreamWriter};
use arrow_schema::{ArrowError, SchemaRef};
use common::*;
use std::collections::HashMap;
use std::io::{BufReader, BufWriter, Cursor, Write};
use std::sync::{Arc, Mutex, OnceLock};
use vcommon::*;

type Fails = Vec<(String, String)>;

// ------------------------------------------------------------------------------------ inputs

struct Input {
    schema: SchemaRef,
    batches: Vec<RecordBatch>,
}

fn cache() -> &'static Mutex<HashMap<String, Arc<Vec<u8>>>> {
    static C: OnceLock<Mutex<HashMap<String, Arc<Vec<u8>>>>> = OnceLock::new();
    C.get_or_init(|| Mutex::new(HashMap::new()))
}

fn cached(key: String, f: impl FnOnce() -> Vec<u8>) -> Arc<Vec<u8>> {
    if let Some(v) = cache().lock().unwrap().get(&key) {
        return v.clone();
    }
    let v = Arc::new(f());
    let mut c = cache().lock().unwrap();
    if c.len() > 64 {
        c.clear();
    }
    c.insert(key, v.clone());
    v
}

fn spec_align(spec: &str) -> usize {
    spec.split(':').nth(4).map(|x| x.parse().unwrap()).unwrap_or(64)
}

fn spec_schema(spec: &str) -> usize {
    spec.split(':').next().unwrap().parse::<usize>().unwrap() % N_SCHEMAS
}

fn ipc_opts(spec: &str, legacy: bool) -> IpcWriteOptions {
    let v = if legacy { MetadataVersion::V4 } else { MetadataVersion::V5 };
    IpcWriteOptions::try_new(spec_align(spec), legacy, v).expect("ipc options")
}

/// a complete small IPC file, embedded in binary values of schema 4
fn inner_ipc_file() -> Vec<u8> {
    let (schema, batches) = make_batches("0:1:2:7", None);
    let mut w = FileWriter::try_new_with_options(Vec::new(), &schema, ipc_opts("0:1:2:7:8", false)).unwrap();
    for b in &batches {
        w.write(b).unwrap();
    }
    w.finish().unwrap();
    w.into_inner().unwrap()
}

fn input(spec: &str, embed_ipc: bool) -> Input {
    let e = if embed_ipc && spec_schema(spec) == 4 { Some(inner_ipc_file()) } else { None };
    let (schema, batches) = make_batches(spec, e.as_deref());
    Input { schema, batches }
}

fn ipc_stream(spec: &str, legacy: bool, eos: bool) -> Arc<Vec<u8>> {
    cached(format!("ipcs {spec} {legacy} {eos}"), || {
        let inp = input(spec, false);
        let mut w = StreamWriter::try_new_with_options(Vec::new(), &inp.schema, ipc_opts(spec, legacy)).unwrap();
        for b in &inp.batches {
            w.write(b).unwrap();
        }
        if eos {
            w.finish().unwrap();
        }
        w.get_ref().clone()
    })
}

fn ipc_file(spec: &str) -> Arc<Vec<u8>> {
    cached(format!("ipcf {spec}"), || {
        let inp = input(spec, true);
        let mut w = FileWriter::try_new_with_options(Vec::new(), &inp.schema, ipc_opts(spec, false)).unwrap();
        for b in &inp.batches {
            w.write(b).unwrap();
        }
        w.finish().unwrap();
        w.into_inner().unwrap()
    })
}

/// `kind:metaLen:bodyLen` of every message of a real stream (walks the framing itself)
fn walk_stream(bytes: &[u8], legacy: bool) -> (Vec<String>, usize) {
    let mut out = vec![];
    let mut p = 0usize;
    loop {
        if p + 4 > bytes.len() {
            break;
        }
        let mut w = u32::from_le_bytes(bytes[p..p + 4].try_into().unwrap());
        p += 4;
        if !legacy {
            assert_eq!(w, 0xFFFF_FFFF, "continuation marker expected");
            w = u32::from_le_bytes(bytes[p..p + 4].try_into().unwrap());
            p += 4;
        }
        if w == 0 {
            break;
        }
        let meta = &bytes[p..p + w as usize];
        let msg = arrow_ipc::root_as_message(meta).expect("message");
        let body = msg.bodyLength() as usize;
        let kind = match msg.header_type() {
            arrow_ipc::MessageHeader::Schema => "s",
            arrow_ipc::MessageHeader::DictionaryBatch => "d",
            arrow_ipc::MessageHeader::RecordBatch => "r",
            _ => "x",
        };
        out.push(format!("{kind}:{w}:{body}"));
        p += w as usize + body;
    }
    (out, p)
}

// --------------------------------------------------------------------------------- ipc stream

/// decode a (truncated) stream; answer `batches=<n> end=eos|err`
fn decode_stream(reader: &str, data: Vec<u8>, orig: &[RecordBatch], fails: &mut Fails) -> String {
    let mut got: Vec<RecordBatch> = vec![];
    let end;
    match reader {
        "sr" | "srb" => {
            let cur = Cursor::new(data);
            let r: Result<Box<dyn Iterator<Item = Result<RecordBatch, ArrowError>>>, ArrowError> = if reader == "sr" {
                StreamReader::try_new(cur, None).map(|r| Box::new(r) as _)
            } else {
                StreamReader::try_new_buffered(cur, None).map(|r| Box::new(r) as _)
            };
            match r {
                Err(_) => end = "err",
                Ok(it) => {
                    let mut e = "eos";
                    for b in it {
                        match b {
                            Ok(b) => got.push(b),
                            Err(_) => {
                                e = "err";
                                break;
                            }
                        }
                        if got.len() > orig.len() + 4 {
                            break;
                        }
                    }
                    end = e;
                }
            }
        }
        _ => {
            // push decoder: the prefix as one buffer, then `finish`
            let mut d = StreamDecoder::new();
            let mut buf = Buffer::from_vec(data);
            let mut e = "eos";
            let mut guard = 0;
            while !buf.is_empty() {
                guard += 1;
                if guard > 100000 {
                    fails.push(("hang".into(), "StreamDecoder::decode does not consume its input".into()));
                    break;
                }
                match d.decode(&mut buf) {
                    Ok(Some(b)) => got.push(b),
                    Ok(None) => {}
                    Err(_) => {
                        e = "err";
                        break;
                    }
                }
            }
            if e == "eos" && d.finish().is_err() {
                e = "err";
            }
            end = e;
        }
    }
    // the property: a prefix of the written batches, nothing else
    if got.len() > orig.len() {
        fails.push(("extra-batches".into(), format!("decoded {} batches, {} were written", got.len(), orig.len())));
    }
    for (i, b) in got.iter().enumerate() {
        if i < orig.len() && *b != orig[i] {
            fails.push(("rows-not-written".into(), format!("decoded batch {i} differs from the batch written")));
            break;
        }
    }
    format!("batches={} end={}", got.len(), end)
}

fn run_ipcs(t: &[&str], fails: &mut Fails) -> String {
    let (reader, spec, legacy, eos, msgs, k) = (t[2], t[3], t[4] == "1", t[5] == "1", t[6], t[7].parse::<usize>().unwrap());
    let bytes = ipc_stream(spec, legacy, eos);
    let (walked, consumed) = walk_stream(&bytes, legacy);
    if show_list(&walked) != msgs || consumed != bytes.len() || k > bytes.len() {
        return "bad-case".into();
    }
    let inp = input(spec, false);
    decode_stream(reader, bytes[..k].to_vec(), &inp.batches, fails)
}

// ----------------------------------------------------------------------------------- ipc file

fn read_ipc_file(data: Vec<u8>, buffered: bool) -> Result<Vec<RecordBatch>, ArrowError> {
    let cur = Cursor::new(data);
    let it: Box<dyn Iterator<Item = Result<RecordBatch, ArrowError>>> =
        if buffered { Box::new(FileReader::try_new_buffered(cur, None)?) } else { Box::new(FileReader::try_new(cur, None)?) };
    it.collect()
}

/// the low-level path: `read_footer_length` + `root_as_footer` + `FileDecoder` over one `Buffer`
fn read_ipc_file_decoder(data: Vec<u8>) -> Result<Vec<RecordBatch>, ArrowError> {
    use arrow_ipc::reader::{FileDecoder, read_footer_length};
    let buffer = Buffer::from_vec(data);
    if buffer.len() < 10 {
        return Err(ArrowError::ParseError("too short for a trailer".into()));
    }
    let trailer_start = buffer.len() - 10;
    let footer_len = read_footer_length(buffer[trailer_start..].try_into().unwrap())?;
    if footer_len > trailer_start {
        return Err(ArrowError::ParseError("footer length beyond the file".into()));
    }
    let footer = arrow_ipc::root_as_footer(&buffer[trailer_start - footer_len..trailer_start])
        .map_err(|e| ArrowError::ParseError(format!("footer: {e:?}")))?;
    let schema = arrow_ipc::convert::try_fb_to_schema(footer.schema().ok_or_else(|| ArrowError::ParseError("no schema".into()))?)?;
    let mut decoder = FileDecoder::new(Arc::new(schema), footer.version());
    let slice = |b: &arrow_ipc::Block| -> Result<Buffer, ArrowError> {
        let (o, l) = (b.offset() as usize, b.metaDataLength() as usize + b.bodyLength() as usize);
        if b.offset() < 0 || b.metaDataLength() < 0 || b.bodyLength() < 0 || o.checked_add(l).is_none_or(|e| e > buffer.len()) {
            return Err(ArrowError::ParseError("block beyond the file".into()));
        }
        Ok(buffer.slice_with_length(o, l))
    };
    for b in footer.dictionaries().iter().flatten() {
        decoder.read_dictionary(b, &slice(b)?)?;
    }
    let mut out = vec![];
    for b in footer.recordBatches().iter().flatten() {
        if let Some(x) = decoder.read_record_batch(b, &slice(b)?)? {
            out.push(x);
        }
    }
    Ok(out)
}

fn run_ipcf(t: &[&str], fails: &mut Fails) -> String {
    let (spec, len, k, tail) = (t[2], t[3].parse::<usize>().unwrap(), t[4].parse::<usize>().unwrap(), t[5]);
    let bytes = ipc_file(spec);
    if bytes.len() != len || k > len || hex(&bytes[k - k.min(10)..k]) != tail {
        return "bad-case".into();
    }
    // three entry points to the same trailer: FileReader, buffered FileReader, FileDecoder
    let r = if k % 3 == 2 { read_ipc_file_decoder(bytes[..k].to_vec()) } else { read_ipc_file(bytes[..k].to_vec(), k % 3 == 1) };
    if k == len {
        let inp = input(spec, true);
        match &r {
            Ok(b) if *b == inp.batches => {}
            Ok(_) => fails.push(("roundtrip".into(), "complete file does not read back as written".into())),
            Err(e) => fails.push(("roundtrip".into(), format!("complete file rejected: {e}"))),
        }
    }
    if r.is_ok() { "accept".into() } else { "reject".into() }
}

// -------------------------------------------------------------------------------------- sink

fn run_sink(t: &[&str]) -> String {
    let sched = parse_sched(t[3]);
    let mut sink = FaultSink::new(sched, false);
    let mut ok = true;
    if t[2] != "-" {
        for c in t[2].split(';') {
            let r = if c == "f" { sink.flush() } else { sink.write_all(&unhex(&c[1..])) };
            if r.is_err() {
                ok = false;
                break;
            }
        }
    }
    format!("{} {}", hex(&sink.data()), if ok { "ok" } else { "err" })
}

// ------------------------------------------------------------------------------ writer faults

/// drive a writer over `sink`; Ok(()) iff every API call including finish/close returned Ok.
/// After ANY error the caller "cleans up": finish / finish / into_inner are called again and every
/// one of them that reports success is recorded in `out.later_ok`.
fn drive_writer(writer: &str, inp: &Input, spec: &str, sink: FaultSink, out: &mut Outcome) -> Result<(), ArrowError> {
    macro_rules! ipc {
        ($ctor:expr) => {{
            let mut w = $ctor?;
            let mut res = Ok(());
            for b in &inp.batches {
                res = w.write(b);
                if res.is_err() {
                    break;
                }
            }
            if res.is_ok() {
                res = w.finish();
            }
            if res.is_err() {
                out.accepted_at_error = Some(sink.data().len());
                if w.finish().is_ok() {
                    out.later_ok.push("finish#1".into());
                }
                if w.finish().is_ok() {
                    out.later_ok.push("finish#2".into());
                }
                if w.into_inner().is_ok() {
                    out.later_ok.push("into_inner".into());
                }
            }
            sink.mark_done();
            res
        }};
    }
    match writer {
        "sw" => ipc!(StreamWriter::try_new_with_options(sink.clone(), &inp.schema, ipc_opts(spec, false))),
        "swl" => ipc!(StreamWriter::try_new_with_options(sink.clone(), &inp.schema, ipc_opts(spec, true))),
        "swb" => ipc!(StreamWriter::try_new_with_options(
            BufWriter::with_capacity(256, sink.clone()),
            &inp.schema,
            ipc_opts(spec, false)
        )),
        "fw" => ipc!(FileWriter::try_new_with_options(sink.clone(), &inp.schema, ipc_opts(spec, false))),
        // the 8 KiB `BufWriter` constructors
        "swB" => ipc!(StreamWriter::try_new_buffered(sink.clone(), &inp.schema)),
        "fwB" => ipc!(FileWriter::try_new_buffered(sink.clone(), &inp.schema)),
        // legacy (V4, no continuation marker) file; custom metadata in the footer
        "fwl" => ipc!(FileWriter::try_new_with_options(sink.clone(), &inp.schema, ipc_opts(spec, true))),
        "fwm" => ipc!(FileWriter::try_new_with_options(sink.clone(), &inp.schema, ipc_opts(spec, false)).map(|mut w| {
            w.write_metadata("k1", "PAR1");
            w.write_metadata("ARROW1", "v");
            w
        })),
        // through the `RecordBatchWriter` trait object-style API (`write` + consuming `close`)
        "swc" | "fwc" => {
            use arrow_array::RecordBatchWriter;
            fn go<W: RecordBatchWriter>(mut w: W, inp: &Input) -> Result<(), ArrowError> {
                for b in &inp.batches {
                    RecordBatchWriter::write(&mut w, b)?;
                }
                w.close()
            }
            let res = if writer == "swc" {
                StreamWriter::try_new_with_options(sink.clone(), &inp.schema, ipc_opts(spec, false)).and_then(|w| go(w, inp))
            } else {
                FileWriter::try_new_with_options(sink.clone(), &inp.schema, ipc_opts(spec, false)).and_then(|w| go(w, inp))
            };
            if res.is_err() {
                out.accepted_at_error = Some(sink.data().len());
            }
            sink.mark_done();
            res
        }
        "fwb" => ipc!(FileWriter::try_new_with_options(
            BufWriter::with_capacity(256, sink.clone()),
            &inp.schema,
            ipc_opts(spec, false)
        )),
        "csv" => {
            let mut w = arrow_csv::WriterBuilder::new().with_header(true).build(sink.clone());
            let mut res = Ok(());
            for b in &inp.batches {
                res = w.write(b);
                if res.is_err() {
                    break;
                }
            }
            if res.is_err() {
                out.accepted_at_error = Some(sink.data().len());
                // `Writer::into_inner` after a failed write (it flushes again and unwraps)
                let r = std::panic::catch_unwind(std::panic::AssertUnwindSafe(move || {
                    let _ = w.into_inner();
                }));
                // (`into_inner` returns the sink, not a Result: it cannot report success or failure)
                if r.is_err() {
                    out.notes.push("kf:csv-into-inner-panic".into());
                }
            }
            sink.mark_done();
            res
        }
        "json" | "jsona" => {
            fn go<F: arrow_json::writer::JsonFormat>(
                mut w: arrow_json::Writer<FaultSink, F>,
                inp: &Input,
                sink: &FaultSink,
                out: &mut Outcome,
            ) -> Result<(), ArrowError> {
                let mut res = Ok(());
                for b in &inp.batches {
                    res = w.write(b);
                    if res.is_err() {
                        break;
                    }
                }
                if res.is_ok() {
                    res = w.finish();
                }
                if res.is_err() {
                    out.accepted_at_error = Some(sink.data().len());
                    if w.finish().is_ok() {
                        out.later_ok.push("finish#1".into());
                    }
                    if w.finish().is_ok() {
                        out.later_ok.push("finish#2".into());
                    }
                }
                sink.mark_done();
                res
            }
            if writer == "json" {
                go(arrow_json::LineDelimitedWriter::new(sink.clone()), inp, &sink, out)
            } else {
                go(arrow_json::ArrayWriter::new(sink.clone()), inp, &sink, out)
            }
        }
        _ => panic!("unknown writer {writer}"),
    }
}

fn writer_schemas(writer: &str) -> &'static [usize] {
    match writer {
        // the legacy (V4) format cannot carry every type the generator makes
        "fwl" => &[0, 1, 3, 5, 6],
        "csv" => &[0, 1, 5, 6],
        "json" | "jsona" => &[0, 1, 3, 5, 6],
        _ => &[0, 1, 2, 3, 4, 5, 6],
    }
}

fn fault_free(writer: &str, spec: &str) -> (Vec<u8>, Vec<String>) {
    let inp = input(spec, false);
    let sink = FaultSink::new(vec![], false);
    let mut out = Outcome::default();
    drive_writer(writer, &inp, spec, sink.clone(), &mut out).expect("fault-free write");
    (sink.data(), sink.trace())
}

fn run_wfault(t: &[&str], fails: &mut Fails) -> String {
    let (writer, spec, sched, trace) = (t[2], t[3], t[4], t[5]);
    let (good, good_trace) = fault_free(writer, spec);
    if show_list(&good_trace) != trace {
        return "bad-case".into();
    }
    let inp = input(spec, false);
    let sink = FaultSink::new(parse_sched(sched), true);
    let mut out = Outcome::default();
    let res = drive_writer(writer, &inp, spec, sink.clone(), &mut out);
    let data = sink.data();
    let accepted = sink.accepted(out.accepted_at_error);
    if !is_prefix(&data[..accepted.min(data.len())], &good) {
        fails.push(("not-a-prefix".into(), format!("sink holds {accepted} bytes that are not a prefix of the fault-free output")));
    }
    // retry after error: no later finish / into_inner may report success unless the sink ended up
    // holding exactly the complete fault-free output
    if !out.later_ok.is_empty() && data != good {
        let family = match writer {
            "sw" | "swl" | "swb" | "fw" | "fwb" | "swB" | "fwB" | "fwl" | "fwm" | "swc" | "fwc" => "ipc",
            _ => "json",
        };
        fails.push((
            format!("kf:{family}-ok-after-failed-write"),
            format!(
                "{} returned Ok after an earlier call had failed, but the sink holds {} bytes that are not the fault-free output ({} bytes)",
                out.later_ok.join("+"),
                data.len(),
                good.len()
            ),
        ));
    }
    let notes = out.notes;
    if res.is_ok() && data != good {
        fails.push((
            "ok-but-incomplete".into(),
            format!("writer reported success but the sink holds {} of {} bytes", data.len(), good.len()),
        ));
    }
    for n in notes {
        fails.push((n.clone(), n));
    }
    if res.is_ok() {
        // the writer said Ok: what the sink holds must read back as the batches written
        if let Some(why) = readback(writer, spec, &inp, data.clone()) {
            fails.push(("ok-but-unreadable".into(), why));
        }
    }
    format!("accepted={accepted} res={}", if res.is_ok() { "ok" } else { "err" })
}

/// read what a writer left in the sink with the matching real reader; None = same rows as written
fn readback(writer: &str, _spec: &str, inp: &Input, data: Vec<u8>) -> Option<String> {
    let want = arrow_select::concat::concat_batches(&inp.schema, &inp.batches).unwrap();
    let got: Result<Vec<RecordBatch>, ArrowError> = match writer {
        "sw" | "swl" | "swb" | "swB" | "swc" => StreamReader::try_new(Cursor::new(data), None).and_then(|r| r.collect()),
        "fw" | "fwb" | "fwB" | "fwl" | "fwm" | "fwc" => read_ipc_file(data, false),
        "csv" => {
            if inp.batches.is_empty() {
                return if data.is_empty() { None } else { Some("csv output for no batches is not empty".into()) };
            }
            arrow_csv::ReaderBuilder::new(inp.schema.clone()).with_header(true).build(Cursor::new(data)).and_then(|r| r.collect())
        }
        "json" => arrow_json::ReaderBuilder::new(inp.schema.clone()).build(Cursor::new(data)).and_then(|r| r.collect()),
        _ => return None, // JSON array format has no arrow reader
    };
    match got {
        Err(e) => Some(format!("output of a successful writer is rejected by the reader: {e}")),
        Ok(b) => {
            let g = arrow_select::concat::concat_batches(&inp.schema, &b).unwrap();
            if g.num_rows() == want.num_rows() && (writer == "csv" || g == want) { None } else { Some("output of a successful writer reads back as different rows".into()) }
        }
    }
}

// ------------------------------------------------------------------------------ reader faults

fn reader_bytes(reader: &str, spec: &str) -> Arc<Vec<u8>> {
    match reader {
        "sr" | "srb" => ipc_stream(spec, false, true),
        "fr" | "frb" | "frp" => ipc_file(spec),
        "csv" | "csvb" | "csvi" => cached(format!("csv {spec}"), || fault_free("csv", spec).0),
        _ => cached(format!("json {spec}"), || fault_free("json", spec).0),
    }
}

fn read_with(reader: &str, spec: &str, data: Arc<Vec<u8>>, ctl: ReadCtl) -> (Vec<RecordBatch>, bool) {
    let src = FaultRead { inner: Cursor::new(data.as_ref().clone()), ctl };
    let inp = input(spec, reader.starts_with("fr"));
    // schema inference reads the source too
    if reader == "csvi" {
        let r = arrow_csv::reader::Format::default().with_header(true).infer_schema(src, None);
        return (vec![], r.is_ok());
    }
    if reader == "jsoni" {
        let r = arrow_json::reader::infer_json_schema(BufReader::with_capacity(16, src), None);
        return (vec![], r.is_ok());
    }
    if reader == "frp" {
        // projection + random access: last batch first, then from the start
        let r = (|| -> Result<Vec<RecordBatch>, ArrowError> {
            let mut r = FileReader::try_new(src, Some(vec![0]))?;
            let mut out = vec![];
            let n = r.num_batches();
            if n > 0 {
                r.set_index(n - 1)?;
                if let Some(b) = r.next() {
                    out.push(b?);
                }
                r.set_index(0)?;
            }
            for b in r {
                out.push(b?);
            }
            Ok(out)
        })();
        return match r {
            Ok(b) => (b, true),
            Err(_) => (vec![], false),
        };
    }
    let it: Result<Box<dyn Iterator<Item = Result<RecordBatch, ArrowError>>>, ArrowError> = match reader {
        "sr" => StreamReader::try_new(src, None).map(|r| Box::new(r) as _),
        "srb" => StreamReader::try_new_buffered(src, None).map(|r| Box::new(r) as _),
        "fr" => FileReader::try_new(src, None).map(|r| Box::new(r) as _),
        "frb" => FileReader::try_new_buffered(src, None).map(|r| Box::new(r) as _),
        "csv" => arrow_csv::ReaderBuilder::new(inp.schema.clone())
            .with_header(true)
            .with_batch_size(3)
            .build(src)
            .map(|r| Box::new(r) as _),
        "csvb" => arrow_csv::ReaderBuilder::new(inp.schema.clone())
            .with_header(true)
            .with_batch_size(1024)
            .build_buffered(BufReader::with_capacity(16, src))
            .map(|r| Box::new(r) as _),
        _ => arrow_json::ReaderBuilder::new(inp.schema.clone())
            .with_batch_size(3)
            .build(BufReader::with_capacity(16, src))
            .map(|r| Box::new(r) as _),
    };
    let mut got = vec![];
    match it {
        Err(_) => (got, false),
        Ok(it) => {
            for b in it {
                match b {
                    Ok(b) => got.push(b),
                    Err(_) => return (got, false),
                }
                if got.len() > 10000 {
                    return (got, false);
                }
            }
            (got, true)
        }
    }
}

fn run_rfault(t: &[&str], fails: &mut Fails) -> String {
    let (reader, spec, mode, k, n) = (t[2], t[3], t[4].chars().next().unwrap(), t[5].parse::<usize>().unwrap(), t[6]);
    let data = reader_bytes(reader, spec);
    let (good, ok) = read_with(reader, spec, data.clone(), ReadCtl::new('N', 0));
    if !ok || good.len().to_string() != n {
        return "bad-case".into();
    }
    let ctl = ReadCtl::new(mode, k);
    let (got, ok) = read_with(reader, spec, data, ctl.clone());
    if ctl.0.lock().unwrap().budget_exceeded {
        fails.push(("hang".into(), "reader made more than 5M calls on its source".into()));
    }
    if got.len() > good.len() || got.iter().zip(good.iter()).any(|(a, b)| a != b) {
        fails.push(("rows-not-written".into(), "batches under a fault are not a prefix of the fault-free batches".into()));
    }
    if ok && got.len() != good.len() {
        fails.push(("ok-but-short".into(), format!("reader reported a clean end after {} of {} batches", got.len(), good.len())));
    }
    if ok { format!("res=ok batches={}", got.len()) } else { "res=err".into() }
}

// ---------------------------------------------------------------------------- json truncation

fn run_jsont(t: &[&str], fails: &mut Fails) -> String {
    let (spec, batch, k, hx) = (t[2], t[3].parse::<usize>().unwrap(), t[4].parse::<usize>().unwrap(), t[5]);
    let data = reader_bytes("json", spec);
    if hex(&data) != hx || k > data.len() {
        return "bad-case".into();
    }
    let inp = input(spec, false);
    let r = arrow_json::ReaderBuilder::new(inp.schema.clone()).with_batch_size(batch).build(Cursor::new(data[..k].to_vec()));
    let mut got = vec![];
    let mut end = "eos";
    match r {
        Err(_) => end = "err",
        Ok(it) => {
            for b in it {
                match b {
                    Ok(b) => got.push(b),
                    Err(_) => {
                        end = "err";
                        break;
                    }
                }
            }
        }
    }
    // rows decoded must be the first rows written
    let rows = total_rows(&got);
    let all = arrow_select::concat::concat_batches(&inp.schema, &inp.batches).unwrap();
    if rows > all.num_rows() {
        fails.push(("rows-not-written".into(), format!("{rows} rows decoded, {} written", all.num_rows())));
    } else if rows > 0 {
        let g = arrow_select::concat::concat_batches(&inp.schema, &got).unwrap();
        if g != all.slice(0, rows) {
            fails.push(("rows-not-written".into(), "decoded rows differ from the first rows written".into()));
        }
    }
    format!("rows={rows} end={end}")
}

// --------------------------------------------------------------------------------------- main

fn run_case_inner(line: &str, fails: &mut Fails) -> String {
    let t: Vec<&str> = line.split(' ').collect();
    assert_eq!(t[0], "C18");
    match t[1] {
        "ipcs" => run_ipcs(&t, fails),
        "ipcf" => run_ipcf(&t, fails),
        "sink" => run_sink(&t),
        "wfault" => run_wfault(&t, fails),
        "rfault" => run_rfault(&t, fails),
        "jsont" => run_jsont(&t, fails),
        _ => "bad-op".into(),
    }
}

fn run_case(line: &str) -> (String, Fails) {
    let l = line.to_string();
    let out = Arc::new(Mutex::new(Fails::new()));
    let o2 = out.clone();
    let a = with_timeout(20, move || {
        let mut fails = Fails::new();
        let a = run_case_inner(&l, &mut fails);
        *o2.lock().unwrap() = fails;
        a
    });
    let mut fails = std::mem::take(&mut *out.lock().unwrap());
    if a == "PANIC" || a == "HANG" {
        fails.push((a.to_lowercase(), format!("the real code answered {a}")));
    }
    (a, fails)
}

fn emit(sink: &mut Sink, line: String, tags: &str) {
    let (a, fails) = run_case(&line);
    for (what, detail) in fails {
        sink.oracle_failure(line.clone(), format!("{what}: {detail}"), &format!("{tags} fail:{what}"));
    }
    sink.case(line, a, tags);
}

fn nt(k: usize, len: usize) -> &'static str {
    if k > 0 && k < len { "nt" } else { "" }
}

fn gen_ipcs(sink: &mut Sink, rng: &mut Rng, all_k: bool) {
    let spec = format!("{}:{}", gen_spec(rng, &[0, 1, 2, 3, 4, 5, 6]), rng.pick(&[8usize, 16, 64]));
    let legacy = rng.chance(1, 4);
    let eos = rng.chance(3, 4);
    let bytes = ipc_stream(&spec, legacy, eos);
    let (msgs, _) = walk_stream(&bytes, legacy);
    let reader = *rng.pick(&["sr", "sr", "srb", "sd"]);
    for k in 0..=bytes.len() {
        if !all_k && !rng.chance(1, 8) {
            continue;
        }
        let line = format!("C18 ipcs {reader} {spec} {} {} {} {k}", legacy as u8, eos as u8, show_list(&msgs));
        let tags = format!(
            "op:ipcs reader:{reader} schema:{} legacy:{} eos:{} {}",
            schema_name(spec_schema(&spec)),
            legacy as u8,
            eos as u8,
            nt(k, bytes.len())
        );
        emit(sink, line, &tags);
    }
}

fn gen_ipcf(sink: &mut Sink, rng: &mut Rng) {
    let sid = *rng.pick(&[0usize, 1, 2, 3, 4, 4, 5, 6]);
    let spec = format!("{}:{}", gen_spec(rng, &[sid]), rng.pick(&[8usize, 64]));
    let bytes = ipc_file(&spec);
    for k in 0..=bytes.len() {
        let line = format!("C18 ipcf {spec} {} {k} {}", bytes.len(), hex(&bytes[k - k.min(10)..k]));
        let tags = format!("op:ipcf schema:{} {}", schema_name(sid), nt(k, bytes.len()));
        emit(sink, line, &tags);
    }
}

fn gen_sink(sink: &mut Sink, rng: &mut Rng) {
    let n = rng.usize(5);
    let calls: Vec<String> =
        (0..n)
            .map(|_| {
                if rng.chance(1, 4) {
                    "f".to_string()
                } else {
                    let m = rng.usize(6);
                    format!("w{}", hex(&rng.bytes(m))).replace("w-", "w")
                }
            })
            .collect();
    let m = rng.usize(7);
    let sched: Vec<String> = (0..m)
        .map(|_| match rng.usize(8) {
            0 | 1 | 2 => "o".to_string(),
            3 => "i".to_string(),
            4 => "f".to_string(),
            5 => "z".to_string(),
            _ => format!("s{}", 1 + rng.usize(4)),
        })
        .collect();
    let line = format!("C18 sink {} {}", if calls.is_empty() { "-".into() } else { calls.join(";") }, show_list(&sched));
    emit(sink, line, &format!("op:sink {}", if n > 0 && m > 0 { "nt" } else { "" }));
}

const WRITERS: [&str; 14] = ["sw", "fw", "swl", "swb", "fwb", "csv", "json", "jsona", "swB", "fwB", "fwl", "fwm", "swc", "fwc"];

/// `i`-th input: the writers are visited round-robin so that every writer is exercised in every run
fn gen_wfault(sink: &mut Sink, rng: &mut Rng, i: usize) {
    let writer = WRITERS[i % WRITERS.len()];
    // second round: outputs larger than the 8 KiB buffers (BufWriter, the csv crate's buffer, the
    // JSON writer's flush threshold) for the writers that have one or write directly
    let large = i >= WRITERS.len() && matches!(writer, "sw" | "fw" | "swB" | "fwB" | "csv" | "json" | "jsona");
    let spec = if large {
        format!("1:2:{}:{}:{}", 700 + rng.usize(600), rng.usize(100000), rng.pick(&[8usize, 64]))
    } else {
        format!("{}:{}", gen_spec(rng, writer_schemas(writer)), rng.pick(&[8usize, 64]))
    };
    let (_, trace) = fault_free(writer, &spec);
    let scheds = if large { schedules_for_large(&trace) } else { schedules_for(&trace) };
    for (sched, kind) in scheds {
        let line = format!("C18 wfault {writer} {spec} {sched} {}", show_list(&trace));
        let tags = format!(
            "op:wfault writer:{writer} fault:{kind} schema:{} {} nt",
            schema_name(spec_schema(&spec)),
            if large { "size:large" } else { "size:small" }
        );
        emit(sink, line, &tags);
    }
}

const READERS: [&str; 10] = ["sr", "fr", "csv", "json", "srb", "frb", "csvb", "frp", "csvi", "jsoni"];

fn gen_rfault(sink: &mut Sink, rng: &mut Rng, i: usize) {
    let reader = READERS[i % READERS.len()];
    let schemas: &[usize] = match reader {
        "csv" | "csvb" | "csvi" => &[0, 1, 5, 6],
        "json" | "jsoni" => &[0, 1, 3, 5, 6],
        _ => &[0, 1, 2, 3, 4, 5, 6],
    };
    // second round: inputs larger than the readers' 8 KiB buffers
    let large = i >= READERS.len();
    let spec = if large {
        format!("1:2:{}:{}:8", 700 + rng.usize(600), rng.usize(100000))
    } else {
        let mut s = gen_spec(rng, schemas);
        if reader.ends_with('i') {
            // inference needs at least one row
            let f: Vec<&str> = s.split(':').collect();
            s = format!("{}:{}:{}:{}", if f[0] == "6" { "0" } else { f[0] }, 1 + rng.usize(3), f[2], f[3]);
        }
        format!("{s}:8")
    };
    let data = reader_bytes(reader, &spec);
    let ctl = ReadCtl::new('N', 0);
    let (good, ok) = read_with(reader, &spec, data, ctl.clone());
    assert!(ok, "fault-free read of {reader} {spec}");
    let calls = ctl.calls();
    let size = if large { "size:large" } else { "size:small" };
    // large inputs through unbuffered readers make thousands of calls: every call up to 200, then a stride
    let ks: Vec<usize> = (0..calls).filter(|k| *k < 200 || k % (calls / 100 + 1) == 0 || *k + 3 >= calls).collect();
    for k in ks {
        for mode in ["E", "I", "S"] {
            let line = format!("C18 rfault {reader} {spec} {mode} {k} {}", good.len());
            let tags = format!("op:rfault reader:{reader} fault:{mode} schema:{} {size} nt", schema_name(spec_schema(&spec)));
            emit(sink, line, &tags);
        }
    }
    if !large {
        let line = format!("C18 rfault {reader} {spec} A 0 {}", good.len());
        emit(sink, line, &format!("op:rfault reader:{reader} fault:A {size} nt"));
    }
}

fn gen_jsont(sink: &mut Sink, rng: &mut Rng) {
    let spec = gen_spec(rng, &[0, 1, 3, 5, 6]);
    let data = reader_bytes("json", &spec);
    let batch = *rng.pick(&[1usize, 2, 3, 1024]);
    for k in 0..=data.len() {
        let line = format!("C18 jsont {spec} {batch} {k} {}", hex(&data));
        let tags = format!("op:jsont schema:{} {}", schema_name(spec_schema(&spec)), nt(k, data.len()));
        emit(sink, line, &tags);
    }
}

fn main() {
    let args = parse_args();
    if std::env::var("VERIF_LOUD").is_err() {
        quiet_panics();
    }
    let mut sink = Sink::new(&args.out);
    if args.mode == "replay" {
        for line in read_cases(args.replay.as_ref().unwrap()) {
            emit(&mut sink, line, "replay");
        }
    } else {
        let mut rng = Rng::new(args.seed ^ 0xC18);
        // number of generated inputs per op group (each input expands to every truncation
        // length / every call index)
        let n = n_cases(&args, 6, 60);
        for _ in 0..n {
            gen_ipcs(&mut sink, &mut rng, true);
        }
        for _ in 0..n {
            gen_ipcf(&mut sink, &mut rng);
        }
        for _ in 0..n * 100 {
            gen_sink(&mut sink, &mut rng);
        }
        for i in 0..(n * 2).max(WRITERS.len() * 2) {
            gen_wfault(&mut sink, &mut rng, i);
        }
        for i in 0..(n * 2).max(READERS.len() * 2) {
            gen_rfault(&mut sink, &mut rng, i);
        }
        for _ in 0..n {
            gen_jsont(&mut sink, &mut rng);
        }
    }
    sink.finish();
}
