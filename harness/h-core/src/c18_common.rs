// C18 — shared between harness/h-core/src/bin/c18.rs and harness/h-parquet/src/bin/c18p.rs
// (included with #[path]; not part of any library target).
//
//  * deterministic input generator: spec `<schema>:<batches>:<rows>:<seed>` → (schema, batches)
//  * fault-injecting sink (`FaultSink`: Write) and source (`FaultRead`: Read + Seek)
//  * schedule grammar shared with the Lean driver: `o`, `o*<n>`, `s<n>`, `i`, `f`, `z`
#![allow(dead_code)]
use arrow_array::builder::{BinaryBuilder, Int32Builder, ListBuilder};
use arrow_array::types::Int32Type;
use arrow_array::{
    ArrayRef, BooleanArray, Float64Array, Int8Array, Int32Array, Int64Array, RecordBatch, StringArray, StructArray,
};
use arrow_schema::{DataType, Field, Fields, Schema, SchemaRef};
use std::io::{self, Read, Seek, SeekFrom, Write};
use std::sync::{Arc, Mutex};
use vcommon::Rng;

// ------------------------------------------------------------------------------------ inputs

pub const N_SCHEMAS: usize = 7;

/// names of the schema families (for tags)
pub fn schema_name(id: usize) -> &'static str {
    ["i32", "i64+utf8", "dict+f64", "list+struct", "binary-magic", "bool+i8", "empty-cols"][id % N_SCHEMAS]
}

fn rand_string(rng: &mut Rng) -> String {
    let n = rng.usize(6);
    let alphabet = ["a", "b", "{", "}", "\"", "\\", "\n", ",", "é", "P", "1", " "];
    (0..n).map(|_| *rng.pick(&alphabet)).collect()
}

/// `embed`: bytes of a complete file of the format under test, embedded verbatim in a binary
/// value of schema 4 (so that some proper prefix of the outer file ends in a well-formed trailer)
pub fn make_batches(spec: &str, embed: Option<&[u8]>) -> (SchemaRef, Vec<RecordBatch>) {
    let f: Vec<usize> = spec.split(':').map(|x| x.parse().expect("spec field")).collect();
    let (sid, nb, rows, seed) = (f[0] % N_SCHEMAS, f[1], f[2], f[3]);
    let mut rng = Rng::new(seed as u64 ^ 0xC18_5EED);
    let schema: SchemaRef = Arc::new(match sid {
        0 => Schema::new(vec![Field::new("a", DataType::Int32, true)]),
        1 => Schema::new(vec![Field::new("a", DataType::Int64, false), Field::new("b", DataType::Utf8, true)]),
        2 => Schema::new(vec![
            Field::new("d", DataType::Dictionary(Box::new(DataType::Int32), Box::new(DataType::Utf8)), true),
            Field::new("f", DataType::Float64, false),
        ]),
        3 => Schema::new(vec![
            Field::new("l", DataType::List(Arc::new(Field::new_list_field(DataType::Int32, true))), true),
            Field::new(
                "s",
                DataType::Struct(Fields::from(vec![
                    Field::new("x", DataType::Int32, true),
                    Field::new("y", DataType::Utf8, true),
                ])),
                false,
            ),
        ]),
        4 => Schema::new(vec![Field::new("bin", DataType::Binary, true)]),
        5 => Schema::new(vec![Field::new("t", DataType::Boolean, true), Field::new("i", DataType::Int8, false)]),
        _ => Schema::new(vec![Field::new("a", DataType::Int32, false)]),
    });
    let mut out = vec![];
    for bi in 0..nb {
        // schema 6: batches with zero rows (empty bodies) in between
        let n_out = if sid == 6 && bi % 2 == 0 { 0 } else { rows };
        // every third seed: the batch handed to the writers is a SLICE (offset 1) of a longer batch,
        // so array offsets are non-zero and buffers extend beyond the logical rows
        let pad = if seed % 3 == 0 && sid != 4 { 2 } else { 0 };
        let n = n_out + pad;
        let cols: Vec<ArrayRef> = match sid {
            0 => vec![Arc::new(Int32Array::from(
                (0..n).map(|_| if rng.chance(1, 5) { None } else { Some(rng.range(-1000, 1000) as i32) }).collect::<Vec<_>>(),
            ))],
            1 => vec![
                Arc::new(Int64Array::from((0..n).map(|_| rng.next_u64() as i64).collect::<Vec<_>>())),
                Arc::new(StringArray::from(
                    (0..n).map(|_| if rng.chance(1, 5) { None } else { Some(rand_string(&mut rng)) }).collect::<Vec<_>>(),
                )),
            ],
            2 => {
                // one dictionary shared by all batches (the IPC file format has no replacement)
                let values: ArrayRef = Arc::new(StringArray::from(vec!["v0", "v1", "", "PAR1", "v4"]));
                let keys = Int32Array::from(
                    (0..n).map(|_| if rng.chance(1, 6) { None } else { Some(rng.usize(5) as i32) }).collect::<Vec<_>>(),
                );
                let b = arrow_array::DictionaryArray::<Int32Type>::try_new(keys, values).expect("dictionary");
                vec![
                    Arc::new(b),
                    Arc::new(Float64Array::from((0..n).map(|_| rng.range(-50, 50) as f64 * 0.5).collect::<Vec<_>>())),
                ]
            }
            3 => {
                let mut lb = ListBuilder::new(Int32Builder::new());
                for _ in 0..n {
                    if rng.chance(1, 6) {
                        lb.append(false);
                    } else {
                        for _ in 0..rng.usize(4) {
                            if rng.chance(1, 6) {
                                lb.values().append_null();
                            } else {
                                lb.values().append_value(rng.range(-9, 9) as i32);
                            }
                        }
                        lb.append(true);
                    }
                }
                let x = Int32Array::from(
                    (0..n).map(|_| if rng.chance(1, 5) { None } else { Some(rng.range(0, 99) as i32) }).collect::<Vec<_>>(),
                );
                let y = StringArray::from(
                    (0..n).map(|_| if rng.chance(1, 5) { None } else { Some(rand_string(&mut rng)) }).collect::<Vec<_>>(),
                );
                let s = StructArray::from(vec![
                    (Arc::new(Field::new("x", DataType::Int32, true)), Arc::new(x) as ArrayRef),
                    (Arc::new(Field::new("y", DataType::Utf8, true)), Arc::new(y) as ArrayRef),
                ]);
                vec![Arc::new(lb.finish()), Arc::new(s)]
            }
            4 => {
                let mut b = BinaryBuilder::new();
                for r in 0..n {
                    match (if r == 0 && embed.is_some() { 9 } else { rng.usize(6) }, embed) {
                        (0, _) => b.append_null(),
                        (1, _) => b.append_value(b"PAR1"),
                        (2, _) => b.append_value(b"\x00\x00\x00\x00ARROW1"),
                        (3, _) => b.append_value([&[rng.usize(3) as u8, 0, 0, 0][..], b"PAR1"].concat()),
                        (_, Some(e)) if r == 0 || rng.chance(1, 3) => b.append_value(e),
                        _ => {
                            let n = rng.usize(5);
                            b.append_value(rng.bytes(n))
                        }
                    }
                }
                vec![Arc::new(b.finish())]
            }
            5 => vec![
                Arc::new(BooleanArray::from(
                    (0..n).map(|_| if rng.chance(1, 5) { None } else { Some(rng.bool()) }).collect::<Vec<_>>(),
                )),
                Arc::new(Int8Array::from((0..n).map(|_| rng.range(-128, 127) as i8).collect::<Vec<_>>())),
            ],
            _ => vec![Arc::new(Int32Array::from((0..n).map(|_| rng.range(-5, 5) as i32).collect::<Vec<_>>()))],
        };
        let full = RecordBatch::try_new(schema.clone(), cols).expect("generated batch");
        out.push(if pad > 0 { full.slice(1, n_out) } else { full });
    }
    (schema, out)
}

pub fn gen_spec(rng: &mut Rng, schemas: &[usize]) -> String {
    format!("{}:{}:{}:{}", rng.pick(schemas), rng.usize(4), 1 + rng.usize(7), rng.usize(100000))
}

pub fn total_rows(bs: &[RecordBatch]) -> usize {
    bs.iter().map(|b| b.num_rows()).sum()
}

// ------------------------------------------------------------------------------- schedules

#[derive(Clone, Copy, Debug, PartialEq)]
pub enum Resp {
    Ok,
    Short(usize),
    Interrupted,
    Fail,
    /// a transient hard error: this call fails, later calls work again
    FailOnce,
}

pub fn parse_sched(s: &str) -> Vec<Resp> {
    let mut out = vec![];
    if s == "-" {
        return out;
    }
    for it in s.split(',') {
        if it == "o" {
            out.push(Resp::Ok)
        } else if it == "i" {
            out.push(Resp::Interrupted)
        } else if it == "f" {
            out.push(Resp::Fail)
        } else if it == "t" {
            out.push(Resp::FailOnce)
        } else if it == "z" {
            out.push(Resp::Short(0))
        } else if let Some(n) = it.strip_prefix("o*") {
            out.extend(std::iter::repeat(Resp::Ok).take(n.parse().expect("o*n")))
        } else if let Some(n) = it.strip_prefix('s') {
            out.push(Resp::Short(n.parse().expect("s<n>")))
        } else {
            panic!("bad schedule item {it}")
        }
    }
    out
}

// -------------------------------------------------------------------------------- fault sink

#[derive(Default)]
pub struct SinkState {
    pub sched: Vec<Resp>,
    pub pos: usize,
    /// after the first `Fail` every later call fails too (a crashed disk stays crashed)
    pub sticky: bool,
    pub failed: bool,
    /// some call returned a hard error or `Ok(0)` (sticky or transient): bytes were rejected
    pub rejected: bool,
    /// bytes held when the first call was rejected
    pub len_at_reject: Option<usize>,
    pub data: Vec<u8>,
    /// raw calls seen: `w<len>` / `f`
    pub trace: Vec<String>,
    /// calls made after the first hard failure was returned
    pub calls_after_fail: usize,
    /// number of raw calls made by API calls (calls made later, by `Drop`, are not part of the trace)
    pub api_calls: Option<usize>,
}

#[derive(Clone)]
pub struct FaultSink(pub Arc<Mutex<SinkState>>);

impl FaultSink {
    pub fn new(sched: Vec<Resp>, sticky: bool) -> Self {
        FaultSink(Arc::new(Mutex::new(SinkState { sched, sticky, ..Default::default() })))
    }
    pub fn data(&self) -> Vec<u8> {
        self.0.lock().unwrap().data.clone()
    }
    pub fn trace(&self) -> Vec<String> {
        let st = self.0.lock().unwrap();
        st.trace[..st.api_calls.unwrap_or(st.trace.len())].to_vec()
    }
    /// the writer's API calls are over; what follows comes from `Drop`
    pub fn mark_done(&self) {
        let mut st = self.0.lock().unwrap();
        if st.api_calls.is_none() {
            st.api_calls = Some(st.trace.len());
        }
    }
    pub fn failed(&self) -> bool {
        self.0.lock().unwrap().failed
    }
    pub fn rejected(&self) -> bool {
        self.0.lock().unwrap().rejected
    }
    /// bytes the sink held when the writer's first failure happened: at the first rejected call,
    /// else when the first error was returned to the caller (`at_error`), else now
    pub fn accepted(&self, at_error: Option<usize>) -> usize {
        let st = self.0.lock().unwrap();
        st.len_at_reject.or(at_error).unwrap_or(st.data.len())
    }
}

impl Write for FaultSink {
    fn write(&mut self, buf: &[u8]) -> io::Result<usize> {
        let mut st = self.0.lock().unwrap();
        if buf.is_empty() {
            // `write_all(&[])` makes no call; a direct empty write consumes no schedule slot
            return Ok(0);
        }
        st.trace.push(format!("w{}", buf.len()));
        if st.failed && st.sticky {
            st.calls_after_fail += 1;
            return Err(io::Error::other("injected: sink is gone"));
        }
        if st.api_calls.is_some() {
            // a call made by `Drop` after the API calls are over: cannot be reported, no fault
            st.data.extend_from_slice(buf);
            return Ok(buf.len());
        }
        let r = if st.pos < st.sched.len() { st.sched[st.pos] } else { Resp::Ok };
        st.pos += 1;
        match r {
            Resp::Ok => {
                st.data.extend_from_slice(buf);
                Ok(buf.len())
            }
            Resp::Short(n) => {
                let n = n.min(buf.len());
                st.data.extend_from_slice(&buf[..n]);
                if n == 0 {
                    // a full sink stays full: `Ok(0)` is a hard fault (`WriteZero`)
                    st.failed = true;
                    if !st.rejected {
                    st.len_at_reject = Some(st.data.len());
                }
                st.rejected = true;
                }
                Ok(n)
            }
            Resp::Interrupted => Err(io::Error::new(io::ErrorKind::Interrupted, "injected: interrupted")),
            Resp::Fail => {
                st.failed = true;
                if !st.rejected {
                    st.len_at_reject = Some(st.data.len());
                }
                st.rejected = true;
                Err(io::Error::other("injected: write failed"))
            }
            Resp::FailOnce => {
                if !st.rejected {
                    st.len_at_reject = Some(st.data.len());
                }
                st.rejected = true;
                Err(io::Error::other("injected: write failed (transient)"))
            }
        }
    }
    fn flush(&mut self) -> io::Result<()> {
        let mut st = self.0.lock().unwrap();
        st.trace.push("f".to_string());
        if st.failed && st.sticky {
            st.calls_after_fail += 1;
            return Err(io::Error::other("injected: sink is gone"));
        }
        let r = if st.pos < st.sched.len() { st.sched[st.pos] } else { Resp::Ok };
        st.pos += 1;
        match r {
            Resp::Ok | Resp::Short(_) => Ok(()),
            Resp::Interrupted => Err(io::Error::new(io::ErrorKind::Interrupted, "injected: interrupted")),
            Resp::Fail => {
                st.failed = true;
                if !st.rejected {
                    st.len_at_reject = Some(st.data.len());
                }
                st.rejected = true;
                Err(io::Error::other("injected: flush failed"))
            }
            Resp::FailOnce => {
                if !st.rejected {
                    st.len_at_reject = Some(st.data.len());
                }
                st.rejected = true;
                Err(io::Error::other("injected: flush failed (transient)"))
            }
        }
    }
}

/// the reduced set for large outputs: hard failure (sticky and transient) and a short write at
/// every raw call index
pub fn schedules_for_large(trace: &[String]) -> Vec<(String, &'static str)> {
    let mut out = vec![];
    for (k, c) in trace.iter().enumerate() {
        let pre = if k == 0 { String::new() } else { format!("o*{k},") };
        out.push((format!("{pre}f"), "F"));
        out.push((format!("{pre}t"), "T"));
        if let Some(n) = c.strip_prefix('w') {
            let n: usize = n.parse().unwrap();
            if n > 1 {
                out.push((format!("{pre}s{}", n / 2), "S"));
            }
        }
    }
    out
}

/// what happened when a writer was driven over a faulty sink
#[derive(Default)]
pub struct Outcome {
    /// bytes in the sink when the first error was returned to the caller
    pub accepted_at_error: Option<usize>,
    /// API calls made AFTER an error was returned that reported success (`finish#1`, `finish#2`, `into_inner`, …)
    pub later_ok: Vec<String>,
    pub notes: Vec<String>,
}

/// the schedules enumerated for a writer whose fault-free trace is `trace`:
/// at EVERY raw call index: hard failure; at every write call additionally short write then
/// failure, `Ok(0)`, a benign short write and an `Interrupted`.
pub fn schedules_for(trace: &[String]) -> Vec<(String, &'static str)> {
    let mut out = vec![];
    for (k, c) in trace.iter().enumerate() {
        let pre = if k == 0 { String::new() } else { format!("o*{k},") };
        out.push((format!("{pre}f"), "F"));
        out.push((format!("{pre}t"), "T"));
        out.push((format!("{pre}i"), "I"));
        if let Some(n) = c.strip_prefix('w') {
            let n: usize = n.parse().unwrap();
            out.push((format!("{pre}z"), "Z"));
            if n > 1 {
                out.push((format!("{pre}s1,f"), "SF"));
                out.push((format!("{pre}s{}", n / 2), "S"));
                out.push((format!("{pre}s{}", n - 1), "S"));
                out.push((format!("{pre}s1,i,s1"), "SIS"));
            }
        }
    }
    // every write short by one byte, all the way through
    out.push((vec!["s1"; 64].join(","), "S1x64"));
    out
}

// ------------------------------------------------------------------------------ fault source

#[derive(Default)]
pub struct ReadState {
    /// E = error (sticky), I = one Interrupted, S = one short read (1 byte), A = every read 1 byte, N = none
    pub mode: char,
    pub k: usize,
    pub calls: usize,
    pub failed: bool,
    pub budget_exceeded: bool,
}

#[derive(Clone)]
pub struct ReadCtl(pub Arc<Mutex<ReadState>>);
impl ReadCtl {
    pub fn new(mode: char, k: usize) -> Self {
        ReadCtl(Arc::new(Mutex::new(ReadState { mode, k, ..Default::default() })))
    }
    pub fn calls(&self) -> usize {
        self.0.lock().unwrap().calls
    }
    /// what to do for the next raw call: Err / Ok(limit on bytes)
    pub fn gate(&self) -> io::Result<Option<usize>> {
        let mut st = self.0.lock().unwrap();
        let i = st.calls;
        st.calls += 1;
        if st.calls > 5_000_000 {
            st.budget_exceeded = true;
            return Err(io::Error::other("injected: call budget exceeded (hang?)"));
        }
        if st.failed {
            return Err(io::Error::other("injected: source is gone"));
        }
        match st.mode {
            'E' if i == st.k => {
                st.failed = true;
                Err(io::Error::other("injected: read failed"))
            }
            'I' if i == st.k => Err(io::Error::new(io::ErrorKind::Interrupted, "injected: interrupted")),
            'S' if i == st.k => Ok(Some(1)),
            'A' => Ok(Some(1)),
            _ => Ok(None),
        }
    }
}

pub struct FaultRead<R> {
    pub inner: R,
    pub ctl: ReadCtl,
}

impl<R: Read> Read for FaultRead<R> {
    fn read(&mut self, buf: &mut [u8]) -> io::Result<usize> {
        match self.ctl.gate()? {
            Some(lim) if buf.len() > lim => self.inner.read(&mut buf[..lim]),
            _ => self.inner.read(buf),
        }
    }
}
impl<R: Seek> Seek for FaultRead<R> {
    fn seek(&mut self, pos: SeekFrom) -> io::Result<u64> {
        self.ctl.gate()?;
        self.inner.seek(pos)
    }
}

// -------------------------------------------------------------------------------- misc

type Job = Box<dyn FnOnce() -> String + Send + 'static>;
struct Worker {
    tx: std::sync::mpsc::Sender<Job>,
    rx: std::sync::mpsc::Receiver<String>,
}
fn spawn_worker() -> Worker {
    let (jtx, jrx) = std::sync::mpsc::channel::<Job>();
    let (rtx, rrx) = std::sync::mpsc::channel::<String>();
    std::thread::Builder::new()
        .stack_size(16 << 20)
        .spawn(move || {
            while let Ok(job) = jrx.recv() {
                let r = vcommon::guarded(job);
                if rtx.send(r).is_err() {
                    break;
                }
            }
        })
        .expect("spawn");
    Worker { tx: jtx, rx: rrx }
}

/// run `f` on the worker thread; `HANG` if it does not finish within `secs` (the stuck worker
/// is abandoned and a new one is started)
pub fn with_timeout<F: FnOnce() -> String + Send + 'static>(secs: u64, f: F) -> String {
    static W: Mutex<Option<Worker>> = Mutex::new(None);
    let mut g = W.lock().unwrap();
    if g.is_none() {
        *g = Some(spawn_worker());
    }
    let w = g.as_ref().unwrap();
    w.tx.send(Box::new(f)).expect("worker alive");
    match w.rx.recv_timeout(std::time::Duration::from_secs(secs)) {
        Ok(s) => s,
        Err(_) => {
            *g = None;
            "HANG".to_string()
        }
    }
}

/// is `a` a prefix of `b`
pub fn is_prefix(a: &[u8], b: &[u8]) -> bool {
    a.len() <= b.len() && &b[..a.len()] == a
}
