//! C05 correspondence harness: Parquet write → read returns the same Arrow types and values.
//!
//! Unit level (real encoders/decoders vs the Lean model, bytes are the contract here):
//!   C05 vlq <u64>                      put_vlq_int bytes + get_vlq_int read-back
//!   C05 vlq-dec <hex>                  get_vlq_int on arbitrary bytes
//!   C05 zz <i64>                       put_zigzag_vlq_int bytes + read-back
//!   C05 bitpack <w> <vals>             BitWriter::put_value* bytes (+ BitReader round trip oracle)
//!   C05 bitunpack <w> <n> <hex>        BitReader::get_batch / get_value
//!   C05 rle-enc <w> <vals>             RleEncoder bytes (+ RleDecoder round trip oracle, extend_run path)
//!   C05 rle-dec <w> <n> <hex>          RleDecoder::get_batch on arbitrary (alternative / truncated) streams
//!   C05 enc <enc> <ty> <vals>          get_encoder / DictEncoder bytes (+ get_decoder round trip oracle)
//!   C05 delta-dec <ty> <cap> <hex>     DeltaBitPackDecoder on alternative block layouts
//!   C05 levels <variant> <path> <rows> ArrowWriter → low-level column reader: rep/def levels and values
//! End to end (module c05_e2e.rs):
//!   C05 e2e <props> <plan> <rbs> <schema> <data>
use std::sync::Arc;

use arrow_array::{Array, ArrayRef, Int32Array, RecordBatch, StructArray};
use arrow_buffer::{NullBuffer, OffsetBuffer, ScalarBuffer};
use arrow_schema::{DataType as ArrowType, Field, Schema};
use bytes::Bytes;
use parquet::arrow::ArrowWriter;
use parquet::basic::{BrotliLevel, Compression, Encoding, GzipLevel, Repetition, Type as PhysicalType, ZstdLevel};
use parquet::column::reader::ColumnReader;
use parquet::data_type::*;
use parquet::encodings::decoding::{Decoder, DictDecoder, PlainDecoder, get_decoder};
use parquet::encodings::encoding::{DictEncoder, Encoder, get_encoder};
use parquet::compression::{CodecOptionsBuilder, create_codec};
use parquet::encodings::levels::LevelEncoder;
use parquet::encodings::rle::{RleDecoder, RleEncoder};
use parquet::file::properties::{WriterProperties, WriterVersion};
use parquet::file::reader::{FileReader, SerializedFileReader};
use parquet::schema::types::{ColumnDescPtr, ColumnDescriptor, ColumnPath, Type as SchemaType};
use parquet::util::bit_util::{BitReader, BitWriter};
use vcommon::*;

#[path = "../c05_e2e.rs"]
mod e2e;

fn us(s: &str) -> usize {
    s.parse::<usize>().unwrap()
}

fn mask(w: usize) -> u64 {
    if w >= 64 { u64::MAX } else { (1u64 << w) - 1 }
}

fn descr(pt: PhysicalType, len: i32) -> ColumnDescPtr {
    let mut b = SchemaType::primitive_type_builder("c", pt).with_repetition(Repetition::REQUIRED);
    if len >= 0 {
        b = b.with_length(len);
    }
    let ty = b.build().unwrap();
    Arc::new(ColumnDescriptor::new(Arc::new(ty), 0, 0, ColumnPath::new(vec!["c".to_string()])))
}

// ------------------------------------------------------------------ RLE

/// the real encoder fed value by value
fn rle_encode_plain(w: usize, vals: &[u64]) -> Vec<u8> {
    let mut e = RleEncoder::new(w as u8, 16);
    for v in vals {
        e.put(*v);
    }
    e.consume()
}

/// the real encoder fed the way `LevelEncoder::put_with_observer` does (bulk `extend_run`)
fn rle_encode_bulk(w: usize, vals: &[u64]) -> Vec<u8> {
    let mut e = RleEncoder::new(w as u8, 16);
    let mut rest = vals;
    while let Some((&v, r)) = rest.split_first() {
        e.put(v);
        if e.is_accumulating_rle(v) {
            let n = r.iter().take_while(|&&x| x == v).count();
            if n > 0 {
                e.extend_run(n);
            }
            rest = &r[n..];
        } else {
            rest = r;
        }
    }
    e.consume()
}

fn rle_decode(w: usize, bytes: &[u8], n: usize) -> Result<Vec<u64>, String> {
    let mut d = RleDecoder::new(w as u8);
    d.set_data(Bytes::copy_from_slice(bytes)).map_err(|_| "ERR:dec".to_string())?;
    let mut out = vec![0u64; n];
    let k = d.get_batch::<u64>(&mut out).map_err(|_| "ERR:dec".to_string())?;
    out.truncate(k);
    Ok(out)
}

// ------------------------------------------------------------------ generic value encoders

fn parse_byte_arrays(s: &str) -> Vec<Vec<u8>> {
    if s == "-" {
        return vec![];
    }
    s.split(',').map(|t| if t == "x" { vec![] } else { unhex(&t[1..]) }).collect()
}
fn show_byte_arrays(v: &[Vec<u8>]) -> String {
    if v.is_empty() {
        return "-".into();
    }
    v.iter().map(|b| if b.is_empty() { "x".to_string() } else { format!("x{}", hex(b)) }).collect::<Vec<_>>().join(",")
}

/// chunk sizes used to split puts / gets, a deterministic function of the length
fn chunks(n: usize) -> Vec<usize> {
    let pat = [1usize, 7, 64, 3, 129, 2, 31, 256];
    let mut out = vec![];
    let mut left = n;
    let mut i = n % pat.len();
    while left > 0 {
        let c = pat[i % pat.len()].min(left);
        out.push(c);
        left -= c;
        i += 1;
    }
    out
}

/// encode with the real encoder for (`enc`, T); returns the page bytes (for `dict`: dictionary
/// page + index page) and checks the round trip through the real decoder
fn enc_typed<T: DataType>(enc: &str, d: ColumnDescPtr, vals: &[T::T]) -> Result<(String, bool), String>
where
    T::T: PartialEq + std::fmt::Debug,
{
    let n = vals.len();
    if enc == "dict" {
        let mut e = DictEncoder::<T>::new(d.clone());
        let mut pos = 0;
        for c in chunks(n) {
            e.put(&vals[pos..pos + c]).map_err(|_| "ERR:enc".to_string())?;
            pos += c;
        }
        let dict = e.write_dict().map_err(|_| "ERR:enc".to_string())?;
        let num_entries = e.num_entries();
        let idx = e.write_indices().map_err(|_| "ERR:enc".to_string())?;
        // decode
        let mut pd = PlainDecoder::<T>::new(d.type_length());
        pd.set_data(dict.clone(), num_entries).map_err(|_| "ERR:dec".to_string())?;
        let mut dd = DictDecoder::<T>::new();
        dd.set_dict(Box::new(pd)).map_err(|_| "ERR:dec".to_string())?;
        dd.set_data(idx.clone(), n).map_err(|_| "ERR:dec".to_string())?;
        let mut out = vec![T::T::default(); n];
        let mut pos = 0;
        for c in chunks(n).into_iter().rev() {
            let k = dd.get(&mut out[pos..pos + c]).map_err(|_| "ERR:dec".to_string())?;
            if k != c {
                return Ok((format!("{} {}", hex(&dict), hex(&idx)), false));
            }
            pos += c;
        }
        return Ok((format!("{} {}", hex(&dict), hex(&idx)), out == vals));
    }
    let encoding = match enc {
        "plain" => Encoding::PLAIN,
        "delta" => Encoding::DELTA_BINARY_PACKED,
        "dlba" => Encoding::DELTA_LENGTH_BYTE_ARRAY,
        "dba" => Encoding::DELTA_BYTE_ARRAY,
        "bss" => Encoding::BYTE_STREAM_SPLIT,
        "rle" => Encoding::RLE,
        _ => return Err("bad-op".into()),
    };
    let mut e = get_encoder::<T>(encoding, &d).map_err(|_| "ERR:enc".to_string())?;
    let mut pos = 0;
    for c in chunks(n) {
        e.put(&vals[pos..pos + c]).map_err(|_| "ERR:enc".to_string())?;
        pos += c;
    }
    let bytes = e.flush_buffer().map_err(|_| "ERR:enc".to_string())?;
    let mut dec = get_decoder::<T>(d.clone(), encoding).map_err(|_| "ERR:dec".to_string())?;
    dec.set_data(bytes.clone(), n).map_err(|_| "ERR:dec".to_string())?;
    let mut out = vec![T::T::default(); n];
    let mut pos = 0;
    let mut ok = true;
    for c in chunks(n).into_iter().rev() {
        let k = dec.get(&mut out[pos..pos + c]).map_err(|_| "ERR:dec".to_string())?;
        if k != c {
            ok = false;
            break;
        }
        pos += c;
    }
    // history: skip / get interleaved, values_left bookkeeping, then the same decoder object reused
    let mut ok2 = true;
    let mut dec = get_decoder::<T>(d.clone(), encoding).map_err(|_| "ERR:dec".to_string())?;
    for round in 0..2 {
        dec.set_data(bytes.clone(), n).map_err(|_| "ERR:dec".to_string())?;
        let mut pos = 0;
        for (i, c) in chunks(n).into_iter().enumerate() {
            if (i + round) % 2 == 0 {
                let k = dec.skip(c).map_err(|_| "ERR:dec".to_string())?;
                ok2 &= k == c;
            } else {
                let mut tmp = vec![T::T::default(); c];
                let k = dec.get(&mut tmp).map_err(|_| "ERR:dec".to_string())?;
                ok2 &= k == c && tmp[..] == vals[pos..pos + c];
            }
            pos += c;
            if round == 1 && i == 2 {
                break; // abandon the page half way, the next round must start clean
            }
        }
        if round == 0 {
            let mut one = vec![T::T::default(); 1];
            ok2 &= dec.get(&mut one).map(|k| k == 0).unwrap_or(encoding == Encoding::DELTA_BINARY_PACKED && n == 0);
        }
    }
    Ok((hex(&bytes), ok && ok2 && out == vals))
}

fn run_enc(enc: &str, ty: &str, vals: &str) -> (String, bool) {
    let r = match ty {
        "i32" => {
            let v: Vec<i32> = parse_list::<i64>(vals).into_iter().map(|x| x as i32).collect();
            enc_typed::<Int32Type>(enc, descr(PhysicalType::INT32, -1), &v)
        }
        "i64" => {
            let v: Vec<i64> = parse_list::<i64>(vals);
            enc_typed::<Int64Type>(enc, descr(PhysicalType::INT64, -1), &v)
        }
        "f32" => {
            // values are bit patterns (as signed 32-bit integers)
            let v: Vec<i32> = parse_list::<i64>(vals).into_iter().map(|x| x as i32).collect();
            let f: Vec<f32> = v.iter().map(|x| f32::from_bits(*x as u32)).collect();
            // compare by bits: wrap in a by-bits check
            return match enc_typed_float32(enc, &f) {
                Ok(x) => x,
                Err(e) => (e, true),
            };
        }
        "f64" => {
            let v: Vec<i64> = parse_list::<i64>(vals);
            let f: Vec<f64> = v.iter().map(|x| f64::from_bits(*x as u64)).collect();
            return match enc_typed_float64(enc, &f) {
                Ok(x) => x,
                Err(e) => (e, true),
            };
        }
        "bool" => {
            let v = parse_bits(vals);
            enc_typed::<BoolType>(enc, descr(PhysicalType::BOOLEAN, -1), &v)
        }
        "ba" => {
            let v: Vec<ByteArray> = parse_byte_arrays(vals).into_iter().map(ByteArray::from).collect();
            enc_typed::<ByteArrayType>(enc, descr(PhysicalType::BYTE_ARRAY, -1), &v)
        }
        t if t.starts_with("flba") => {
            let n: i32 = t[4..].parse().unwrap();
            let v: Vec<FixedLenByteArray> = parse_byte_arrays(vals).into_iter().map(FixedLenByteArray::from).collect();
            enc_typed::<FixedLenByteArrayType>(enc, descr(PhysicalType::FIXED_LEN_BYTE_ARRAY, n), &v)
        }
        _ => Err("bad-op".into()),
    };
    match r {
        Ok(x) => x,
        Err(e) => (e, true),
    }
}

/// floats: NaN != NaN, so compare the round trip by bit pattern
fn enc_typed_float32(enc: &str, f: &[f32]) -> Result<(String, bool), String> {
    float_rt::<FloatType, _>(enc, descr(PhysicalType::FLOAT, -1), f, |x| x.to_bits() as u64)
}
fn enc_typed_float64(enc: &str, f: &[f64]) -> Result<(String, bool), String> {
    float_rt::<DoubleType, _>(enc, descr(PhysicalType::DOUBLE, -1), f, |x| x.to_bits())
}
fn float_rt<T: DataType, F: Fn(&T::T) -> u64>(enc: &str, d: ColumnDescPtr, vals: &[T::T], bits: F) -> Result<(String, bool), String> {
    let n = vals.len();
    if enc == "dict" {
        let mut e = DictEncoder::<T>::new(d.clone());
        e.put(vals).map_err(|_| "ERR:enc".to_string())?;
        let dict = e.write_dict().map_err(|_| "ERR:enc".to_string())?;
        let num_entries = e.num_entries();
        let idx = e.write_indices().map_err(|_| "ERR:enc".to_string())?;
        let mut pd = PlainDecoder::<T>::new(d.type_length());
        pd.set_data(dict.clone(), num_entries).map_err(|_| "ERR:dec".to_string())?;
        let mut dd = DictDecoder::<T>::new();
        dd.set_dict(Box::new(pd)).map_err(|_| "ERR:dec".to_string())?;
        dd.set_data(idx.clone(), n).map_err(|_| "ERR:dec".to_string())?;
        let mut out = vec![T::T::default(); n];
        let k = dd.get(&mut out).map_err(|_| "ERR:dec".to_string())?;
        let ok = k == n && out.iter().map(&bits).eq(vals.iter().map(&bits));
        return Ok((format!("{} {}", hex(&dict), hex(&idx)), ok));
    }
    let encoding = match enc {
        "plain" => Encoding::PLAIN,
        "bss" => Encoding::BYTE_STREAM_SPLIT,
        _ => return Err("bad-op".into()),
    };
    let mut e = get_encoder::<T>(encoding, &d).map_err(|_| "ERR:enc".to_string())?;
    e.put(&[]).map_err(|_| "ERR:enc".to_string())?;
    let mut pos = 0;
    for c in chunks(n) {
        e.put(&vals[pos..pos + c]).map_err(|_| "ERR:enc".to_string())?;
        pos += c;
    }
    let bytes = e.flush_buffer().map_err(|_| "ERR:enc".to_string())?;
    let mut dec = get_decoder::<T>(d.clone(), encoding).map_err(|_| "ERR:dec".to_string())?;
    dec.set_data(bytes.clone(), n).map_err(|_| "ERR:dec".to_string())?;
    let mut out = vec![T::T::default(); n];
    let k = dec.get(&mut out).map_err(|_| "ERR:dec".to_string())?;
    let ok = k == n && out.iter().map(&bits).eq(vals.iter().map(&bits));
    Ok((hex(&bytes), ok))
}

// ------------------------------------------------------------------ levels through the column reader

#[derive(Clone, Debug)]
enum V {
    Null,
    Leaf(i32),
    Some(Box<V>),
    List(Vec<V>),
}

fn parse_v(s: &[u8], pos: &mut usize) -> V {
    match s[*pos] {
        b'n' => {
            *pos += 1;
            V::Null
        }
        b'!' => {
            *pos += 1;
            V::Some(Box::new(parse_v(s, pos)))
        }
        b'[' => {
            *pos += 1;
            let mut items = vec![];
            if s[*pos] == b']' {
                *pos += 1;
                return V::List(items);
            }
            loop {
                items.push(parse_v(s, pos));
                let c = s[*pos];
                *pos += 1;
                if c == b']' {
                    break;
                }
                assert_eq!(c, b',');
            }
            V::List(items)
        }
        _ => {
            let st = *pos;
            while *pos < s.len() && s[*pos].is_ascii_digit() {
                *pos += 1;
            }
            V::Leaf(std::str::from_utf8(&s[st..*pos]).unwrap().parse::<i64>().unwrap() as i32)
        }
    }
}

/// a value to put under a null slot
fn filler(path: &[u8], garbage: bool) -> V {
    match path.first() {
        None => V::Leaf(if garbage { 77 } else { 0 }),
        Some(b'S') => filler(&path[1..], garbage),
        Some(b'r') => {
            if garbage {
                V::List(vec![filler(&path[1..], garbage)])
            } else {
                V::List(vec![])
            }
        }
        // optional layers
        Some(_) => {
            if garbage {
                V::Some(Box::new(filler(&path[1..], garbage)))
            } else {
                V::Null
            }
        }
    }
}

/// build the Arrow array for a path (`o` nullable leaf / list validity, `s` nullable struct,
/// `S` non-null struct, `r` list) from the values of its slots
fn build(path: &[u8], vals: &[V], large: bool, garbage: bool) -> (ArrayRef, Field) {
    match path.first() {
        None => {
            let v: Vec<i32> = vals
                .iter()
                .map(|x| match x {
                    V::Leaf(i) => *i,
                    _ => panic!("leaf expected"),
                })
                .collect();
            (Arc::new(Int32Array::from(v)), Field::new("v", ArrowType::Int32, false))
        }
        Some(b'o') if path.len() == 1 => {
            let v: Vec<Option<i32>> = vals
                .iter()
                .map(|x| match x {
                    V::Null => None,
                    V::Some(b) => match **b {
                        V::Leaf(i) => Some(i),
                        _ => panic!("leaf expected"),
                    },
                    _ => panic!("opt expected"),
                })
                .collect();
            if garbage {
                // non-zero values under null slots
                let raw: Vec<i32> = v.iter().map(|x| x.unwrap_or(55)).collect();
                let nulls = NullBuffer::from(v.iter().map(|x| x.is_some()).collect::<Vec<bool>>());
                (Arc::new(Int32Array::new(ScalarBuffer::from(raw), Some(nulls))), Field::new("v", ArrowType::Int32, true))
            } else {
                (Arc::new(Int32Array::from(v)), Field::new("v", ArrowType::Int32, true))
            }
        }
        Some(b'o') | Some(b'r') => {
            // list, nullable when introduced by `o`
            let nullable = path[0] == b'o';
            let rest = if nullable {
                assert_eq!(path[1], b'r', "`o` must be followed by `r` or end the path");
                &path[2..]
            } else {
                &path[1..]
            };
            let mut child: Vec<V> = vec![];
            let mut offsets: Vec<i64> = vec![0];
            let mut valid: Vec<bool> = vec![];
            for x in vals {
                let items: Option<&Vec<V>> = match x {
                    V::Null if nullable => None,
                    V::Some(b) if nullable => match &**b {
                        V::List(it) => Some(it),
                        _ => panic!("list expected"),
                    },
                    V::List(it) if !nullable => Some(it),
                    _ => panic!("list slot expected"),
                };
                match items {
                    Some(it) => {
                        child.extend(it.iter().cloned());
                        valid.push(true);
                    }
                    None => {
                        if garbage {
                            child.push(filler(rest, garbage));
                            child.push(filler(rest, false));
                        }
                        valid.push(false);
                    }
                }
                offsets.push(child.len() as i64);
            }
            let (carr, cfield) = build(rest, &child, large, garbage);
            let cfield = Arc::new(cfield.with_name("item"));
            let nulls = if nullable { Some(NullBuffer::from(valid)) } else { None };
            if large {
                let arr = arrow_array::LargeListArray::new(cfield.clone(), OffsetBuffer::new(ScalarBuffer::from(offsets)), carr, nulls);
                (Arc::new(arr), Field::new("l", ArrowType::LargeList(cfield), nullable))
            } else {
                let off32: Vec<i32> = offsets.iter().map(|x| *x as i32).collect();
                let arr = arrow_array::ListArray::new(cfield.clone(), OffsetBuffer::new(ScalarBuffer::from(off32)), carr, nulls);
                (Arc::new(arr), Field::new("l", ArrowType::List(cfield), nullable))
            }
        }
        Some(b's') | Some(b'S') => {
            let nullable = path[0] == b's';
            let rest = &path[1..];
            let mut child: Vec<V> = vec![];
            let mut valid: Vec<bool> = vec![];
            for x in vals {
                if nullable {
                    match x {
                        V::Null => {
                            child.push(filler(rest, garbage));
                            valid.push(false);
                        }
                        V::Some(b) => {
                            child.push((**b).clone());
                            valid.push(true);
                        }
                        _ => panic!("opt expected"),
                    }
                } else {
                    child.push(x.clone());
                    valid.push(true);
                }
            }
            let (carr, cfield) = build(rest, &child, large, garbage);
            let cfield = Arc::new(cfield.with_name("f"));
            let nulls = if nullable { Some(NullBuffer::from(valid)) } else { None };
            let arr = StructArray::new(vec![cfield.clone()].into(), vec![carr], nulls);
            (Arc::new(arr), Field::new("s", ArrowType::Struct(vec![cfield].into()), nullable))
        }
        Some(c) => panic!("bad path char {}", c),
    }
}

fn run_levels(variant: usize, path: &str, rows: &str) -> String {
    let mut pos = 0;
    let top = parse_v(rows.as_bytes(), &mut pos);
    let rows: Vec<V> = match top {
        V::List(r) => r,
        _ => return "bad-op".into(),
    };
    let large = variant & 1 == 1;
    let garbage = variant & 2 == 2;
    let (arr, field) = build(path.as_bytes(), &rows, large, garbage);
    let field = field.with_name("c");
    let schema = Arc::new(Schema::new(vec![field]));
    let mut b = WriterProperties::builder();
    if variant & 8 == 8 {
        b = b.set_writer_version(WriterVersion::PARQUET_2_0);
    }
    if variant & 16 == 16 {
        b = b.set_data_page_row_count_limit(2).set_write_batch_size(3);
    }
    if variant & 32 == 32 {
        b = b.set_dictionary_enabled(false);
    }
    if variant & 64 == 64 {
        b = b.set_max_row_group_row_count(Some(3));
    }
    let mut buf = Vec::new();
    {
        let mut w = match ArrowWriter::try_new(&mut buf, schema.clone(), Some(b.build())) {
            Ok(w) => w,
            Err(_) => return "ERR:write".into(),
        };
        let n = arr.len();
        let parts: Vec<(usize, usize)> = if variant & 4 == 4 && n > 1 { vec![(0, n / 2), (n / 2, n - n / 2)] } else { vec![(0, n)] };
        for (o, l) in parts {
            let batch = match RecordBatch::try_new(schema.clone(), vec![arr.slice(o, l)]) {
                Ok(b) => b,
                Err(_) => return "ERR:build".into(),
            };
            if w.write(&batch).is_err() {
                return "ERR:write".into();
            }
        }
        if w.close().is_err() {
            return "ERR:write".into();
        }
    }
    let reader = match SerializedFileReader::new(Bytes::from(buf)) {
        Ok(r) => r,
        Err(_) => return "ERR:read".into(),
    };
    let (mut defs, mut reps, mut vals): (Vec<i16>, Vec<i16>, Vec<i32>) = (vec![], vec![], vec![]);
    let d = reader.metadata().file_metadata().schema_descr().column(0);
    let (max_def, max_rep) = (d.max_def_level(), d.max_rep_level());
    for i in 0..reader.num_row_groups() {
        let rg = reader.get_row_group(i).unwrap();
        let cr = match rg.get_column_reader(0) {
            Ok(c) => c,
            Err(_) => return "ERR:read".into(),
        };
        let mut r = match cr {
            ColumnReader::Int32ColumnReader(r) => r,
            _ => return "ERR:read".into(),
        };
        loop {
            let (mut d1, mut r1, mut v1) = (vec![], vec![], vec![]);
            let (recs, nvals, nlevels) = match r.read_records(5, Some(&mut d1), Some(&mut r1), &mut v1) {
                Ok(x) => x,
                Err(_) => return "ERR:read".into(),
            };
            if recs == 0 && nvals == 0 && nlevels == 0 {
                break;
            }
            let n = nlevels.max(nvals);
            if max_def == 0 {
                d1 = vec![0; n];
            }
            if max_rep == 0 {
                r1 = vec![0; n];
            }
            defs.extend(d1);
            reps.extend(r1);
            vals.extend(v1);
        }
    }
    format!("rep={} def={} vals={}", show_list(&reps), show_list(&defs), show_list(&vals))
}

// ------------------------------------------------------------------ BitWriter / BitReader scripts, LevelEncoder, codecs

fn run_bw(script: &str) -> String {
    let mut w = BitWriter::new(8);
    for t in script.split(';') {
        let (k, body) = t.split_at(1);
        let f: Vec<&str> = body.split(':').collect();
        match k {
            "v" => w.put_value(f[1].parse().unwrap(), us(f[0])),
            "a" => w.put_aligned::<u64>(f[1].parse().unwrap(), us(f[0])),
            "s" => {
                w.skip(us(f[0]));
            }
            "p" => {
                let sl = w.get_next_byte_ptr(us(f[0]));
                for (i, b) in sl.iter_mut().enumerate() {
                    *b = (i + 1) as u8;
                }
            }
            "w" => w.write_at(us(f[0]), f[1].parse::<u64>().unwrap() as u8),
            "o" => w.put_aligned_offset::<u8>(f[1].parse::<u64>().unwrap() as u8, 1, us(f[0])),
            "q" => w.put_vlq_int(f[0].parse().unwrap()),
            "z" => w.put_zigzag_vlq_int(f[0].parse().unwrap()),
            "f" => w.flush(),
            _ => return "bad-op".into(),
        }
    }
    let n = w.bytes_written();
    format!("{} {}", hex(&w.consume()), n)
}

fn run_br(bytes: &[u8], script: &str) -> String {
    let mut r = BitReader::new(Bytes::copy_from_slice(bytes));
    let mut out: Vec<String> = vec![];
    for (i, t) in script.split(';').enumerate() {
        let (k, body) = t.split_at(1);
        let f: Vec<&str> = body.split(':').collect();
        let o = match k {
            "v" => r.get_value::<u64>(us(f[0])).map(|v| v.to_string()).unwrap_or("none".into()),
            "b" => {
                let (n, w) = (us(f[0]), us(f[1]));
                // the element type selects the unpack8/16/32/64 fast path
                let vals: Vec<u64> = match (i + n) % 4 {
                    0 if w <= 8 => {
                        let mut b = vec![0u8; n];
                        let k = r.get_batch::<u8>(&mut b, w);
                        b[..k].iter().map(|x| *x as u64).collect()
                    }
                    1 if w <= 16 => {
                        let mut b = vec![0u16; n];
                        let k = r.get_batch::<u16>(&mut b, w);
                        b[..k].iter().map(|x| *x as u64).collect()
                    }
                    2 if w <= 32 => {
                        let mut b = vec![0i32; n];
                        let k = r.get_batch::<i32>(&mut b, w);
                        b[..k].iter().map(|x| *x as u32 as u64).collect()
                    }
                    3 if w == 1 => {
                        let mut b = vec![false; n];
                        let k = r.get_batch::<bool>(&mut b, w);
                        b[..k].iter().map(|x| *x as u64).collect()
                    }
                    _ => {
                        let mut b = vec![0u64; n];
                        let k = r.get_batch::<u64>(&mut b, w);
                        b[..k].to_vec()
                    }
                };
                format!("[{}]", vals.iter().map(|x| x.to_string()).collect::<Vec<_>>().join(","))
            }
            "k" => r.skip(us(f[0]), us(f[1])).to_string(),
            "a" => r.get_aligned::<u64>(us(f[0])).map(|v| v.to_string()).unwrap_or("none".into()),
            "q" => r.get_vlq_int().map(|v| (v as u64).to_string()).unwrap_or("none".into()),
            "z" => r.get_zigzag_vlq_int().map(|v| v.to_string()).unwrap_or("none".into()),
            "o" => r.get_byte_offset().to_string(),
            _ => return "bad-op".into(),
        };
        out.push(o);
    }
    out.join(";")
}

/// returns (answer, observer consistent)
fn run_lvl(ver: &str, max_level: i16, script: &str) -> (String, bool) {
    let mut e = if ver == "v1" { LevelEncoder::v1_streaming(max_level) } else { LevelEncoder::v2_streaming(max_level) };
    let mut pages: Vec<String> = vec![];
    let mut ok = true;
    if script != "-" {
        for t in script.split(';') {
            let (k, body) = t.split_at(1);
            match k {
                "b" => {
                    let levels: Vec<i16> = if body.is_empty() { vec![] } else { body.split('.').map(|x| x.parse().unwrap()).collect() };
                    let mut seen: Vec<i16> = vec![];
                    let n = e.put_with_observer(&levels, |v, c| seen.extend(std::iter::repeat_n(v, c)));
                    ok &= n == levels.len() && seen == levels;
                }
                "n" => {
                    let f: Vec<&str> = body.split(':').collect();
                    let (v, c): (i16, usize) = (f[0].parse().unwrap(), f[1].parse().unwrap());
                    let mut calls = vec![];
                    e.put_n_with_observer(v, c, |v, c| calls.push((v, c)));
                    ok &= calls == vec![(v, c)];
                }
                "F" => pages.push(e.flush_to(|b| hex(b))),
                _ => return ("bad-op".into(), true),
            }
        }
    }
    pages.push(hex(&e.consume()));
    (pages.join("/"), ok)
}

fn run_codec(name: &str, data: &[u8]) -> String {
    let f: Vec<&str> = name.split(':').collect();
    let lvl = |d: u32| f.get(1).and_then(|x| x.parse::<u32>().ok()).unwrap_or(d);
    let (c, compat) = match f[0] {
        "SNAPPY" => (Compression::SNAPPY, false),
        "GZIP" => (Compression::GZIP(GzipLevel::try_new(lvl(6)).unwrap()), false),
        "BROTLI" => (Compression::BROTLI(BrotliLevel::try_new(lvl(1)).unwrap()), false),
        "ZSTD" => (Compression::ZSTD(ZstdLevel::try_new(lvl(1) as i32).unwrap()), false),
        "LZ4" => (Compression::LZ4, false),
        "LZ4C" => (Compression::LZ4, true),
        "LZ4_RAW" => (Compression::LZ4_RAW, false),
        _ => return "bad-op".into(),
    };
    let opts = CodecOptionsBuilder::default().set_backward_compatible_lz4(compat).build();
    let mut codec = match create_codec(c, &opts) {
        Ok(Some(c)) => c,
        _ => return "ERR:codec".into(),
    };
    // compress appends: a non-empty output buffer keeps its prefix
    let mut comp = vec![0xEEu8; 3];
    if codec.compress(data, &mut comp).is_err() {
        return "ERR:codec".into();
    }
    let hint = if data.len() % 2 == 0 { Some(data.len()) } else { None };
    // the LZ4 block formats need the size
    let hint = if f[0].starts_with("LZ4") { Some(data.len()) } else { hint };
    let mut out = vec![0x11u8; 2];
    match codec.decompress(&comp[3..], &mut out, hint) {
        Ok(n) if n == data.len() && out.len() == 2 + n && comp[..3] == [0xEE; 3] && out[..2] == [0x11; 2] => {
            // a second use of the same codec object
            let mut comp2 = vec![];
            let mut out2 = vec![];
            if codec.compress(data, &mut comp2).is_err() || codec.decompress(&comp2, &mut out2, Some(data.len())).is_err() || out2 != data {
                return "ERR:codec-reuse".into();
            }
            hex(&out[2..])
        }
        Ok(_) => "ERR:codec-len".into(),
        Err(_) => "ERR:codec".into(),
    }
}

// ------------------------------------------------------------------ dispatch

/// returns (answer, oracle failure description if any)
fn run_case_full(line: &str) -> (String, Option<String>) {
    let t: Vec<&str> = line.split(' ').collect();
    assert_eq!(t[0], "C05");
    let mut oracle: Option<String> = None;
    let ans = match t[1] {
        "e2e" => e2e::run_e2e(&t),
        "vlq" => {
            let v: u64 = t[2].parse().unwrap();
            guarded(|| {
                let mut w = BitWriter::new(16);
                w.put_vlq_int(v);
                let b = w.consume();
                let mut r = BitReader::new(Bytes::from(b.clone()));
                let back = r.get_vlq_int().map(|x| (x as u64).to_string()).unwrap_or("?".into());
                format!("{} {}", hex(&b), back)
            })
        }
        "vlq-dec" => {
            let b = unhex(t[2]);
            guarded(|| {
                let n = b.len();
                let mut r = BitReader::new(Bytes::from(b));
                match r.get_vlq_int() {
                    Some(x) => format!("ok:{}:{}", x as u64, n - r.get_byte_offset()),
                    None => "none".into(),
                }
            })
        }
        "zz" => {
            let v: i64 = t[2].parse().unwrap();
            guarded(|| {
                let mut w = BitWriter::new(16);
                w.put_zigzag_vlq_int(v);
                let b = w.consume();
                let mut r = BitReader::new(Bytes::from(b.clone()));
                let back = r.get_zigzag_vlq_int().map(|x| x.to_string()).unwrap_or("?".into());
                format!("{} {}", hex(&b), back)
            })
        }
        "bitpack" => {
            let w = us(t[2]);
            let vals: Vec<u64> = parse_list(t[3]);
            let mut fail = None;
            let a = guarded(|| {
                let mut bw = BitWriter::new(16);
                for v in &vals {
                    bw.put_value(*v, w);
                }
                let b = bw.consume();
                // round trip through the reader, both entry points
                let mut r = BitReader::new(Bytes::from(b.clone()));
                let one: Vec<u64> = (0..vals.len()).map(|_| r.get_value::<u64>(w).unwrap_or(u64::MAX)).collect();
                let mut r2 = BitReader::new(Bytes::from(b.clone()));
                let mut batch = vec![0u64; vals.len()];
                let k = r2.get_batch::<u64>(&mut batch, w);
                if one != vals || k != vals.len() || batch != vals {
                    fail = Some("bit-pack round trip".to_string());
                }
                hex(&b)
            });
            oracle = fail;
            a
        }
        "bitunpack" => {
            let (w, n, b) = (us(t[2]), us(t[3]), unhex(t[4]));
            guarded(|| {
                let out: Vec<u64> = match n % 3 {
                    1 if w <= 32 => {
                        let mut r = BitReader::new(Bytes::from(b));
                        let mut o = vec![0u32; n];
                        let k = r.get_batch::<u32>(&mut o, w);
                        o.truncate(k);
                        o.into_iter().map(|x| x as u64).collect()
                    }
                    2 => {
                        let mut r = BitReader::new(Bytes::from(b));
                        let mut o = vec![];
                        for _ in 0..n {
                            match r.get_value::<u64>(w) {
                                Some(v) => o.push(v),
                                None => break,
                            }
                        }
                        o
                    }
                    _ => {
                        let mut r = BitReader::new(Bytes::from(b));
                        let mut o = vec![0u64; n];
                        let k = r.get_batch::<u64>(&mut o, w);
                        o.truncate(k);
                        o
                    }
                };
                show_list(&out)
            })
        }
        "rle-enc" => {
            let w = us(t[2]);
            let vals: Vec<u64> = parse_list(t[3]);
            let mut fail = None;
            let a = guarded(|| {
                let b = rle_encode_plain(w, &vals);
                let b2 = rle_encode_bulk(w, &vals);
                if b != b2 {
                    fail = Some("extend_run path differs from put path".to_string());
                }
                match rle_decode(w, &b, vals.len()) {
                    Ok(v) if v == vals => {}
                    _ => fail = Some("rle round trip".to_string()),
                }
                // value-at-a-time reads
                let mut d = RleDecoder::new(w as u8);
                if d.set_data(Bytes::from(b.clone())).is_ok() {
                    for v in &vals {
                        match d.get::<u64>() {
                            Ok(Some(x)) if x == *v => {}
                            _ => {
                                fail = Some("rle get() round trip".to_string());
                                break;
                            }
                        }
                    }
                }
                hex(&b)
            });
            oracle = fail;
            a
        }
        "rle-dec" => {
            let (w, n, b) = (us(t[2]), us(t[3]), unhex(t[4]));
            guarded(|| match rle_decode(w, &b, n) {
                Ok(v) => format!("ok:{}", show_list(&v)),
                Err(e) => e,
            })
        }
        "enc" => {
            let (enc, ty, vals) = (t[2], t[3], t[4]);
            let mut ok = true;
            let a = guarded(|| {
                let (a, o) = run_enc(enc, ty, vals);
                ok = o;
                a
            });
            if !ok {
                oracle = Some(format!("{} {} round trip through the real decoder", enc, ty));
            }
            a
        }
        "delta-dec" => {
            let (ty, cap, b) = (t[2], us(t[3]), unhex(t[4]));
            guarded(|| {
                if ty == "i32" {
                    let mut d = get_decoder::<Int32Type>(descr(PhysicalType::INT32, -1), Encoding::DELTA_BINARY_PACKED).unwrap();
                    if d.set_data(Bytes::from(b), cap).is_err() {
                        return "ERR:dec".into();
                    }
                    let mut out = vec![0i32; cap];
                    match d.get(&mut out) {
                        Ok(k) => {
                            out.truncate(k);
                            format!("ok:{}", show_list(&out))
                        }
                        Err(_) => "ERR:dec".into(),
                    }
                } else {
                    let mut d = get_decoder::<Int64Type>(descr(PhysicalType::INT64, -1), Encoding::DELTA_BINARY_PACKED).unwrap();
                    if d.set_data(Bytes::from(b), cap).is_err() {
                        return "ERR:dec".into();
                    }
                    let mut out = vec![0i64; cap];
                    match d.get(&mut out) {
                        Ok(k) => {
                            out.truncate(k);
                            format!("ok:{}", show_list(&out))
                        }
                        Err(_) => "ERR:dec".into(),
                    }
                }
            })
        }
        "levels" => {
            let (variant, path, rows) = (us(t[2]), t[3], t[4]);
            guarded(|| run_levels(variant, path, rows))
        }
        "bw" => guarded(|| run_bw(t[2])),
        "br" => {
            let b = unhex(t[2]);
            guarded(|| run_br(&b, t[3]))
        }
        "lvl" => {
            let mut ok = true;
            let a = guarded(|| {
                let (a, o) = run_lvl(t[2], t[3].parse().unwrap(), t[4]);
                ok = o;
                a
            });
            if !ok {
                oracle = Some("LevelEncoder observer calls do not add up to the levels put".into());
            }
            a
        }
        "codec" => {
            let b = unhex(t[3]);
            guarded(|| run_codec(t[2], &b))
        }
        _ => "bad-op".into(),
    };
    (ans, oracle)
}

// ------------------------------------------------------------------ generators

/// values `< 2^w` with runs biased around the group size / RLE threshold
fn gen_rle_values(rng: &mut Rng, w: usize, n: usize) -> Vec<u64> {
    let m = mask(w);
    let mut out = Vec::with_capacity(n);
    let small = rng.chance(1, 2); // draw from a tiny alphabet → many accidental repeats
    while out.len() < n {
        let v = if small { rng.below(3) & m } else if rng.chance(1, 6) { m } else { rng.next_u64() & m };
        let run = match rng.below(10) {
            0..=3 => 1,
            4 => *rng.pick(&[7usize, 8, 9]),
            5 => *rng.pick(&[15usize, 16, 17, 23, 24, 25]),
            6 => 2 + rng.usize(6),
            7 => 8 + rng.usize(60),
            8 => *rng.pick(&[503usize, 504, 505, 511, 512, 513, 63, 64, 65]),
            _ => 1 + rng.usize(3),
        };
        for _ in 0..run.min(n - out.len()) {
            out.push(v);
        }
    }
    out
}

fn put_uleb(out: &mut Vec<u8>, mut v: u64) {
    while v >= 128 {
        out.push((v as u8 & 0x7f) | 0x80);
        v >>= 7;
    }
    out.push(v as u8);
}

fn pack_bits(out: &mut Vec<u8>, vals: &[u64], w: usize) {
    let mut acc: u128 = 0;
    let mut nb = 0;
    for v in vals {
        acc |= (*v as u128) << nb;
        nb += w;
        while nb >= 8 {
            out.push(acc as u8);
            acc >>= 8;
            nb -= 8;
        }
    }
    if nb > 0 {
        out.push(acc as u8);
    }
}

/// an arbitrary *valid* hybrid encoding of `vals` (a decomposition the real encoder would not
/// necessarily choose): random RLE / bit-packed runs, short RLE runs, long bit-packed runs,
/// zero padding or garbage padding of the last group
fn alt_rle_encoding(rng: &mut Rng, w: usize, vals: &[u64]) -> Vec<u8> {
    let mut out = vec![];
    let mut i = 0;
    let vb = w.div_ceil(8);
    while i < vals.len() {
        let mut run = 1;
        while i + run < vals.len() && vals[i + run] == vals[i] {
            run += 1;
        }
        if rng.chance(1, 2) || (run >= 8 && rng.chance(3, 4)) {
            // RLE run of a prefix of the repeat
            let c = 1 + rng.usize(run);
            put_uleb(&mut out, (c as u64) << 1);
            out.extend_from_slice(&vals[i].to_le_bytes()[..vb]);
            i += c;
        } else {
            let gmax = if rng.chance(1, 10) { 70 } else { 4 };
            let groups = 1 + rng.usize(gmax);
            let take = (groups * 8).min(vals.len() - i);
            let groups = take.div_ceil(8);
            let mut g: Vec<u64> = vals[i..i + take].to_vec();
            while g.len() < groups * 8 {
                g.push(if rng.chance(1, 2) { 0 } else { rng.next_u64() & mask(w) });
            }
            put_uleb(&mut out, ((groups as u64) << 1) | 1);
            pack_bits(&mut out, &g, w);
            i += take;
        }
    }
    out
}

fn zigzag(v: i64) -> u64 {
    ((v << 1) ^ (v >> 63)) as u64
}

/// an alternative valid DELTA_BINARY_PACKED stream for `vals` (`bits` = 32 or 64): other block
/// sizes, wider-than-needed mini blocks, smaller-than-minimal `min_delta`
fn alt_delta_encoding(rng: &mut Rng, bits: usize, vals: &[i64]) -> Vec<u8> {
    let m = mask(bits);
    let (block, minis) = *rng.pick(&[(128usize, 4usize), (128, 2), (128, 1), (256, 4), (256, 8), (256, 2), (384, 4), (512, 4)]);
    let vpm = block / minis;
    let mut out = vec![];
    put_uleb(&mut out, block as u64);
    put_uleb(&mut out, minis as u64);
    put_uleb(&mut out, vals.len() as u64);
    put_uleb(&mut out, zigzag(vals.first().copied().unwrap_or(0)));
    // wrapping deltas in `bits` bits, kept sign extended
    let sext = |x: u64| -> i64 { if bits == 32 { x as u32 as i32 as i64 } else { x as i64 } };
    let deltas: Vec<i64> = vals.windows(2).map(|p| sext((p[1].wrapping_sub(p[0]) as u64) & m)).collect();
    for blk in deltas.chunks(block) {
        let mut min = *blk.iter().min().unwrap();
        if rng.chance(1, 3) {
            // any smaller min_delta is fine as long as it stays in range
            let lo = if bits == 32 { i32::MIN as i64 } else { i64::MIN };
            let slack = rng.below(5) as i64;
            if min >= lo + slack {
                min -= slack;
            }
        }
        put_uleb(&mut out, zigzag(min));
        let mbs: Vec<&[i64]> = blk.chunks(vpm).collect();
        let mut widths = vec![];
        for mb in &mbs {
            let max = *mb.iter().max().unwrap();
            let need = 64 - ((max.wrapping_sub(min) as u64) & m).leading_zeros() as usize;
            let wdt = if rng.chance(1, 3) { (need + rng.usize(4)).min(bits) } else { need };
            widths.push(wdt);
        }
        for i in 0..minis {
            // trailing mini blocks: arbitrary width bytes must be ignored by readers
            out.push(if i < widths.len() { widths[i] as u8 } else if rng.chance(1, 2) { 0 } else { rng.below(33) as u8 });
        }
        for (mb, wdt) in mbs.iter().zip(widths.iter()) {
            let mut g: Vec<u64> = mb.iter().map(|d| (d.wrapping_sub(min) as u64) & m).collect();
            // the last mini block may be padded to full size or (as some writers do) cut short
            let full = rng.chance(3, 4);
            if full {
                while g.len() < vpm {
                    g.push(0);
                }
            }
            pack_bits(&mut out, &g, *wdt);
        }
    }
    out
}

fn gen_ints(rng: &mut Rng, bits: usize, n: usize) -> Vec<i64> {
    let (lo, hi) = if bits == 32 { (i32::MIN as i64, i32::MAX as i64) } else { (i64::MIN, i64::MAX) };
    let mode = rng.below(7);
    let mut cur: i64 = if bits == 32 { rng.next_u64() as i32 as i64 } else { rng.next_u64() as i64 };
    let step = rng.range(-5, 5);
    (0..n)
        .map(|i| {
            let v = match mode {
                0 => cur, // constant
                1 => {
                    // arithmetic progression (bit width 0, non-zero min delta), wrapping
                    cur = cur.wrapping_add(step);
                    cur
                }
                2 => *rng.pick(&[lo, hi, 0, -1, 1, lo + 1, hi - 1]), // extremes: deltas wrap around
                3 => rng.range(-100, 100),
                4 => {
                    cur = cur.wrapping_add(rng.range(0, 1000));
                    cur
                }
                5 => {
                    if i % 50 == 49 {
                        rng.next_u64() as i64
                    } else {
                        cur = cur.wrapping_add(rng.range(-3, 3));
                        cur
                    }
                }
                _ => rng.next_u64() as i64,
            };
            if bits == 32 { v as i32 as i64 } else { v }
        })
        .collect()
}

fn gen_len(rng: &mut Rng) -> usize {
    match rng.below(20) {
        0 => 0,
        1 => 1,
        2 => *rng.pick(&[7usize, 8, 9, 16, 32, 33]),
        3 => *rng.pick(&[127usize, 128, 129, 130, 255, 256, 257, 258]),
        4 => *rng.pick(&[511usize, 512, 513, 514, 600]),
        5..=12 => rng.usize(40),
        13..=17 => rng.usize(300),
        _ => rng.usize(1100),
    }
}

fn gen_byte_arrays(rng: &mut Rng, n: usize, fixed: Option<usize>) -> Vec<Vec<u8>> {
    let mut prev: Vec<u8> = vec![];
    let alphabet = rng.chance(1, 2);
    (0..n)
        .map(|_| {
            let len = fixed.unwrap_or_else(|| match rng.below(6) {
                0 => 0,
                1 => 1 + rng.usize(3),
                2 => 12 + rng.usize(3),
                3 => rng.usize(40),
                _ => rng.usize(9),
            });
            let mut v: Vec<u8> = if alphabet { (0..len).map(|_| b'a' + rng.below(3) as u8).collect() } else { rng.bytes(len) };
            // shared prefixes with the previous value (DELTA_BYTE_ARRAY), exact repeats (dictionary)
            match rng.below(4) {
                0 if !prev.is_empty() => {
                    let k = rng.usize(prev.len().min(v.len()) + 1);
                    v[..k].copy_from_slice(&prev[..k]);
                }
                1 if fixed.is_none() || fixed == Some(prev.len()) => v = prev.clone(),
                _ => {}
            }
            if let Some(f) = fixed {
                v.resize(f, 0);
            }
            prev = v.clone();
            v
        })
        .collect()
}

fn gen_val(rng: &mut Rng, path: &[u8], depth: usize) -> String {
    match path.first() {
        None => rng.below(1000).to_string(),
        Some(b'S') => gen_val(rng, &path[1..], depth),
        Some(b'r') => {
            let n = match rng.below(6) {
                0 | 1 => 0,
                2 => 1,
                3 => 2,
                _ => rng.usize(if depth == 0 { 6 } else { 4 }),
            };
            let items: Vec<String> = (0..n).map(|_| gen_val(rng, &path[1..], depth + 1)).collect();
            format!("[{}]", items.join(","))
        }
        Some(_) => {
            if rng.chance(1, 3) {
                "n".into()
            } else {
                format!("!{}", gen_val(rng, &path[1..], depth))
            }
        }
    }
}

fn gen_path(rng: &mut Rng) -> String {
    // grammar: (S | s | r | or)* (o)?
    let mut p = String::new();
    let n = rng.usize(5);
    let mut lists = 0;
    for _ in 0..n {
        match rng.below(6) {
            0 => p.push('S'),
            1 => p.push('s'),
            2 | 3 if lists < 3 => {
                p.push('r');
                lists += 1;
            }
            4 | 5 if lists < 3 => {
                p.push_str("or");
                lists += 1;
            }
            _ => p.push('s'),
        }
    }
    if rng.chance(2, 3) {
        p.push('o');
    }
    p
}

fn gen_bw(rng: &mut Rng) -> (String, String) {
    // the script is built against a real writer so that write_at offsets are in bounds
    let mut w = BitWriter::new(8);
    let mut ops: Vec<String> = vec![];
    let n = 1 + rng.usize(40);
    let fixed_w = if rng.chance(1, 2) { Some(*rng.pick(&[0usize, 1, 3, 7, 8, 9, 31, 32, 33, 63, 64])) } else { None };
    for _ in 0..n {
        match rng.below(12) {
            0..=6 => {
                let wd = fixed_w.unwrap_or_else(|| rng.usize(65));
                let v = if rng.chance(1, 4) { mask(wd) } else { rng.next_u64() & mask(wd) };
                w.put_value(v, wd);
                ops.push(format!("v{}:{}", wd, v));
            }
            7 => {
                let nb = rng.usize(10);
                let v = rng.next_u64();
                w.put_aligned::<u64>(v, nb);
                ops.push(format!("a{}:{}", nb, v));
            }
            8 => {
                let nb = rng.usize(4);
                if rng.bool() {
                    w.skip(nb);
                    ops.push(format!("s{}", nb));
                } else {
                    w.get_next_byte_ptr(nb);
                    ops.push(format!("p{}", nb));
                }
            }
            9 if w.byte_offset() > 0 => {
                let off = rng.usize(w.byte_offset());
                let v = rng.below(256);
                w.write_at(off, v as u8);
                ops.push(format!("{}{}:{}", if rng.bool() { "w" } else { "o" }, off, v));
            }
            10 => {
                let v = rng.next_u64() >> rng.below(64);
                w.put_vlq_int(v);
                ops.push(format!("q{}", v));
            }
            11 => {
                let v = (rng.next_u64() as i64) >> rng.below(64);
                w.put_zigzag_vlq_int(v);
                ops.push(format!("z{}", v));
            }
            _ => {
                w.flush();
                ops.push("f".into());
            }
        }
    }
    (format!("C05 bw {}", ops.join(";")), "op:bw nt".into())
}

fn gen_br(rng: &mut Rng) -> (String, String) {
    let nbytes = *rng.pick(&[0usize, 1, 7, 8, 9, 15, 16, 17, 40, 64, 65, 130, 300]);
    let mut b = rng.bytes(nbytes);
    // make varints terminate often
    for x in b.iter_mut() {
        if rng.chance(1, 2) {
            *x &= 0x7f;
        }
    }
    let mut ops: Vec<String> = vec![];
    for _ in 0..1 + rng.usize(12) {
        ops.push(match rng.below(12) {
            0..=2 => format!("v{}", rng.usize(65)),
            3..=6 => format!("b{}:{}", *rng.pick(&[0usize, 1, 7, 8, 9, 15, 16, 17, 31, 32, 33, 63, 64, 65, 100]), *rng.pick(&[0usize, 1, 2, 3, 7, 8, 9, 13, 16, 17, 31, 32, 33, 64])),
            7 => format!("k{}:{}", rng.usize(70), rng.usize(65)),
            8 => format!("a{}", rng.usize(9)),
            9 => "q".into(),
            10 => "z".into(),
            _ => "o".into(),
        });
    }
    (format!("C05 br {} {}", hex(&b), ops.join(";")), "op:br nt".into())
}

fn gen_lvl(rng: &mut Rng) -> (String, String) {
    let ver = if rng.bool() { "v1" } else { "v2" };
    let max_level = *rng.pick(&[0i64, 1, 1, 2, 3, 4, 7, 8, 255, 256]);
    let mut ops: Vec<String> = vec![];
    for _ in 0..rng.usize(8) {
        match rng.below(6) {
            0..=2 => {
                let w = 64 - (max_level as u64).leading_zeros() as usize;
                let n = gen_len(rng).min(200);
                let vals: Vec<u64> = gen_rle_values(rng, w, n).into_iter().map(|v| v.min(max_level as u64)).collect();
                ops.push(format!("b{}", vals.iter().map(|x| x.to_string()).collect::<Vec<_>>().join(".")));
            }
            3 | 4 => ops.push(format!("n{}:{}", rng.range(0, max_level), *rng.pick(&[0usize, 1, 7, 8, 9, 16, 17, 100, 600]))),
            _ => ops.push("F".into()),
        }
    }
    let s = if ops.is_empty() { "-".to_string() } else { ops.join(";") };
    (format!("C05 lvl {} {} {}", ver, max_level, s), format!("op:lvl lvl:{} nt", ver))
}

fn gen_codec(rng: &mut Rng) -> (String, String) {
    let name = match rng.below(8) {
        0 => "SNAPPY".to_string(),
        1 => format!("GZIP:{}", rng.below(10)),
        2 => format!("BROTLI:{}", rng.below(6)),
        3 => format!("ZSTD:{}", 1 + rng.below(12)),
        4 => "LZ4".to_string(),
        5 => "LZ4C".to_string(),
        _ => "LZ4_RAW".to_string(),
    };
    let n = *rng.pick(&[0usize, 1, 2, 15, 16, 17, 255, 256, 1000, 4096, 4097]);
    let data: Vec<u8> = match rng.below(3) {
        0 => rng.bytes(n),
        1 => vec![rng.below(256) as u8; n],
        _ => (0..n).map(|i| (i % 7) as u8).collect(),
    };
    (format!("C05 codec {} {}", name, hex(&data)), format!("op:codec codec:{} nt", name.split(':').next().unwrap()))
}

/// the dense block: boundary cases generated in code, the same in every run
fn dense_unit() -> Vec<(String, String)> {
    let mut out: Vec<(String, String)> = vec![];
    let sizes = [0usize, 1, 7, 8, 9, 15, 16, 17, 63, 64, 65, 503, 504, 505, 511, 512, 513];
    // RLE: run / group boundaries for three widths and four shapes
    for w in [1usize, 3, 8, 32] {
        for n in sizes {
            let m = mask(w);
            let shapes: [Vec<u64>; 4] = [
                vec![1 & m; n],
                (0..n).map(|i| (i as u64) & m).collect(),
                (0..n).map(|i| if i % 9 == 8 { 0 } else { 1 & m }).collect(), // 8 equal then a break
                (0..n).map(|i| if i < n / 2 { (i as u64 * 7) & m } else { m }).collect(), // packed then a long run
            ];
            for v in shapes {
                out.push((format!("C05 rle-enc {} {}", w, show_list(&v)), format!("op:rle-enc dense w:{} len:{} nt", wclass(w), lclass(n))));
            }
        }
    }
    // delta: block / mini block boundaries, wrap-around
    for ty in ["i32", "i64"] {
        let (lo, hi) = if ty == "i32" { (i32::MIN as i64, i32::MAX as i64) } else { (i64::MIN, i64::MAX) };
        for n in [0usize, 1, 2, 32, 33, 64, 65, 128, 129, 130, 256, 257, 258, 513] {
            let shapes: [Vec<i64>; 4] = [
                vec![hi; n],
                (0..n).map(|i| if i % 2 == 0 { lo } else { hi }).collect(),
                (0..n).map(|i| (i as i64) * 3 - 5).collect(),
                (0..n).map(|i| if i % 64 == 63 { hi } else { i as i64 }).collect(),
            ];
            for v in shapes {
                out.push((format!("C05 enc delta {} {}", ty, show_list(&v)), format!("op:enc enc:delta dense ty:{} len:{} nt", ty, lclass(n))));
            }
        }
    }
    // booleans (RLE + PLAIN), plain/bss/dict ints at batch boundaries
    for n in [0usize, 1, 7, 8, 9, 63, 64, 65, 511, 512, 513] {
        let bits: Vec<bool> = (0..n).map(|i| i % 11 < 9).collect();
        for e in ["plain", "rle"] {
            out.push((format!("C05 enc {} bool {}", e, show_bits(&bits)), format!("op:enc enc:{} dense ty:bool len:{} nt", e, lclass(n))));
        }
        let v: Vec<i64> = (0..n).map(|i| (i % 5) as i64 - 2).collect();
        for (e, ty) in [("plain", "i32"), ("bss", "i64"), ("dict", "i32"), ("dict", "f64"), ("bss", "f32")] {
            out.push((format!("C05 enc {} {} {}", e, ty, show_list(&v)), format!("op:enc enc:{} dense ty:{} len:{} nt", e, ty, lclass(n))));
        }
    }
    // bit reader: every element type around its unpack batch size, from an unaligned position
    let data: Vec<u8> = (0..400).map(|i| (i * 37 + 11) as u8).collect();
    for w in [1usize, 3, 8, 13, 16, 17, 32] {
        for n in [7usize, 8, 9, 15, 16, 17, 31, 32, 33, 63, 64, 65] {
            for lead in [0usize, 1, 5] {
                let mut ops = vec![];
                if lead > 0 {
                    ops.push(format!("v{}", lead));
                }
                ops.push(format!("b{}:{}", n, w));
                ops.push("o".into());
                ops.push(format!("b{}:{}", n + 1, w));
                out.push((format!("C05 br {} {}", hex(&data), ops.join(";")), "op:br dense nt".into()));
            }
        }
    }
    // levels: bulk-fill gate (64 elements, >= 50 % nulls) at a non-zero child offset, both sides of the gate
    for big in [63usize, 64, 65, 100] {
        for nulls_every in [2usize, 3] {
            let elems = |n: usize, base: usize| (0..n).map(|i| if (i + base) % nulls_every == 0 { "n".to_string() } else { format!("!{}", (i + base) % 1000) }).collect::<Vec<_>>().join(",");
            let rows = format!("[![{}],n,![{}],![],![{}]]", elems(5, 0), elems(big, 5), elems(3, 9));
            for variant in [0usize, 2, 5, 8] {
                out.push((format!("C05 levels {} oro {}", variant, rows), "op:levels dense depth:1 nested nt".into()));
            }
        }
    }
    out
}

fn gen_unit(rng: &mut Rng) -> (String, String) {
    match rng.below(112) {
        100..=102 => return gen_bw(rng),
        103..=105 => return gen_br(rng),
        106..=108 => return gen_lvl(rng),
        109..=111 => return gen_codec(rng),
        _ => {}
    }
    match rng.below(100) {
        0..=3 => {
            let v = match rng.below(4) {
                0 => rng.below(300),
                1 => {
                    let k = rng.below(10);
                    let b = 1u64 << (7 * k).min(63);
                    *rng.pick(&[b - 1, b, b.wrapping_add(1)])
                }
                2 => *rng.pick(&[0, 127, 128, u64::MAX, u64::MAX - 1, 1 << 63, (1 << 63) - 1, u32::MAX as u64]),
                _ => rng.next_u64() >> rng.below(64),
            };
            (format!("C05 vlq {}", v), format!("op:vlq {}", if v >= 128 { "nt" } else { "" }))
        }
        4..=5 => {
            let n = rng.usize(13);
            let mut b = rng.bytes(n);
            for x in b.iter_mut() {
                if rng.chance(2, 3) {
                    *x |= 0x80;
                }
            }
            if rng.chance(1, 2) && !b.is_empty() {
                let k = rng.usize(b.len());
                b[k] &= 0x7f;
            }
            (format!("C05 vlq-dec {}", hex(&b)), "op:vlq-dec nt".into())
        }
        6..=9 => {
            let v = match rng.below(3) {
                0 => rng.range(-300, 300),
                1 => *rng.pick(&[i64::MIN, i64::MAX, i64::MIN + 1, -1, 0, 1, i32::MIN as i64, i32::MAX as i64, -64, 63, 64, -65]),
                _ => (rng.next_u64() as i64) >> rng.below(64),
            };
            (format!("C05 zz {}", v), format!("op:zz {}", if v != 0 { "nt" } else { "" }))
        }
        10..=19 => {
            let w = if rng.chance(1, 4) { *rng.pick(&[0usize, 1, 7, 8, 9, 31, 32, 33, 63, 64]) } else { rng.usize(65) };
            let n = if rng.chance(1, 5) { rng.usize(200) } else { rng.usize(40) };
            let vals: Vec<u64> = (0..n).map(|_| if rng.chance(1, 5) { mask(w) } else { rng.next_u64() & mask(w) }).collect();
            (format!("C05 bitpack {} {}", w, show_list(&vals)), format!("op:bitpack w:{} {}", wclass(w), if n > 1 && w % 8 != 0 { "nt" } else { "" }))
        }
        20..=25 => {
            let w = if rng.chance(1, 4) { *rng.pick(&[0usize, 1, 7, 8, 9, 31, 32, 33, 63, 64]) } else { rng.usize(65) };
            let n = if rng.chance(1, 4) { rng.usize(150) } else { rng.usize(40) };
            let nbytes = if rng.chance(1, 2) { (w * n).div_ceil(8) } else { rng.usize((w * n).div_ceil(8) + 3) };
            let b = rng.bytes(nbytes);
            (format!("C05 bitunpack {} {} {}", w, n, hex(&b)), format!("op:bitunpack w:{} {}", wclass(w), if n > 1 { "nt" } else { "" }))
        }
        26..=50 => {
            let w = match rng.below(5) {
                0 => *rng.pick(&[0usize, 1, 2, 3]),
                1 => *rng.pick(&[7usize, 8, 9, 15, 16, 17]),
                2 => *rng.pick(&[31usize, 32, 33, 63, 64]),
                _ => 1 + rng.usize(20),
            };
            let n = gen_len(rng);
            let vals = gen_rle_values(rng, w, n);
            (format!("C05 rle-enc {} {}", w, show_list(&vals)), format!("op:rle-enc w:{} len:{} {}", wclass(w), lclass(n), if n >= 8 { "nt" } else { "" }))
        }
        51..=62 => {
            let w = match rng.below(4) {
                0 => *rng.pick(&[0usize, 1, 2, 3]),
                1 => *rng.pick(&[7usize, 8, 9, 16, 17, 32, 33, 64]),
                _ => 1 + rng.usize(20),
            };
            let n = gen_len(rng).min(700);
            let vals = gen_rle_values(rng, w, n);
            let mut b = alt_rle_encoding(rng, w, &vals);
            let mut kind = "alt";
            match rng.below(8) {
                0 if !b.is_empty() => {
                    b.truncate(rng.usize(b.len()));
                    kind = "trunc";
                }
                1 => {
                    let k = 1 + rng.usize(3);
                    b.extend(rng.bytes(k));
                    kind = "trail";
                }
                2 => {
                    b.push(0);
                    let k = rng.usize(3);
                    b.extend(rng.bytes(k));
                    kind = "zero-ind";
                }
                _ => {}
            }
            let ask = match rng.below(4) {
                0 => n,
                1 => rng.usize(n + 1),
                2 => n + 1 + rng.usize(10),
                _ => n,
            };
            (format!("C05 rle-dec {} {} {}", w, ask, hex(&b)), format!("op:rle-dec stream:{} w:{} {}", kind, wclass(w), if n >= 8 { "nt" } else { "" }))
        }
        63..=84 => {
            // value encoders
            let n = gen_len(rng).min(if rng.chance(1, 8) { 1100 } else { 300 });
            let (enc, ty, vals): (&str, String, String) = match rng.below(16) {
                0 => ("plain", "i32".into(), show_list(&gen_ints(rng, 32, n))),
                1 => ("plain", "i64".into(), show_list(&gen_ints(rng, 64, n))),
                2 | 3 | 4 => ("delta", "i32".into(), show_list(&gen_ints(rng, 32, n))),
                5 | 6 | 7 => ("delta", "i64".into(), show_list(&gen_ints(rng, 64, n))),
                8 => {
                    let ty = *rng.pick(&["i32", "i64", "f32", "f64"]);
                    let bits = if ty.ends_with("32") { 32 } else { 64 };
                    ("bss", ty.into(), show_list(&gen_ints(rng, bits, n)))
                }
                9 => {
                    let ty = *rng.pick(&["i32", "i64", "f32", "f64"]);
                    let bits = if ty.ends_with("32") { 32 } else { 64 };
                    let mut v = gen_ints(rng, bits, n);
                    if !v.is_empty() && rng.chance(2, 3) {
                        // few distinct values
                        let k = 1 + rng.usize(5);
                        let pool: Vec<i64> = v.iter().take(k).copied().collect();
                        for x in v.iter_mut() {
                            *x = *rng.pick(&pool);
                        }
                    }
                    ("dict", ty.into(), show_list(&v))
                }
                10 => ("plain", "ba".into(), show_byte_arrays(&gen_byte_arrays(rng, n.min(120), None))),
                11 => ("dlba", "ba".into(), show_byte_arrays(&gen_byte_arrays(rng, n.min(200), None))),
                12 => {
                    if rng.chance(2, 3) {
                        ("dba", "ba".into(), show_byte_arrays(&gen_byte_arrays(rng, n.min(200), None)))
                    } else {
                        let f = 1 + rng.usize(6);
                        ("dba", format!("flba{}", f), show_byte_arrays(&gen_byte_arrays(rng, n.min(200), Some(f))))
                    }
                }
                13 => {
                    let f = *rng.pick(&[1usize, 2, 3, 4, 5, 8, 16]);
                    let e = *rng.pick(&["plain", "bss", "dict"]);
                    (e, format!("flba{}", f), show_byte_arrays(&gen_byte_arrays(rng, n.min(150), Some(f))))
                }
                14 => ("dict", "ba".into(), show_byte_arrays(&gen_byte_arrays(rng, n.min(200), None))),
                _ => {
                    let v: Vec<bool> = gen_rle_values(rng, 1, n).into_iter().map(|x| x == 1).collect();
                    (*rng.pick(&["plain", "rle"]), "bool".into(), show_bits(&v))
                }
            };
            (format!("C05 enc {} {} {}", enc, ty, vals), format!("op:enc enc:{} ty:{} len:{} {}", enc, &ty[..ty.len().min(4)], lclass(n), if n > 1 { "nt" } else { "" }))
        }
        85..=91 => {
            let bits = if rng.bool() { 32 } else { 64 };
            let n = gen_len(rng).min(700);
            let vals = gen_ints(rng, bits, n);
            let mut b = alt_delta_encoding(rng, bits, &vals);
            let mut kind = "alt";
            if rng.chance(1, 8) && !b.is_empty() && n > 0 {
                b.truncate(rng.usize(b.len()));
                kind = "trunc";
            }
            let cap = match rng.below(4) {
                0 => rng.usize(n + 1),
                1 => n + rng.usize(5),
                _ => n,
            };
            (format!("C05 delta-dec i{} {} {}", bits, cap, hex(&b)), format!("op:delta-dec stream:{} len:{} {}", kind, lclass(n), if n > 1 { "nt" } else { "" }))
        }
        _ => {
            let path = gen_path(rng);
            let nrows = match rng.below(5) {
                0 => rng.usize(3),
                1 => 60 + rng.usize(80), // past BULK_FILL_MIN_LEN
                _ => rng.usize(14),
            };
            let rows: Vec<String> = (0..nrows).map(|_| gen_val(rng, path.as_bytes(), 0)).collect();
            let variant = rng.usize(128);
            let nested = path.contains('r');
            (
                format!("C05 levels {} {} [{}]", variant, if path.is_empty() { "S".to_string() } else { path.clone() }, rows.join(",")),
                format!("op:levels depth:{} {} {}", path.matches('r').count(), if nested { "nested" } else { "flat" }, if nrows > 0 && path.chars().any(|c| c != 'S') { "nt" } else { "" }),
            )
        }
    }
}

fn wclass(w: usize) -> &'static str {
    match w {
        0 => "0",
        1..=7 => "1-7",
        8 => "8",
        9..=31 => "9-31",
        32 => "32",
        33..=63 => "33-63",
        _ => "64",
    }
}
fn lclass(n: usize) -> &'static str {
    match n {
        0 => "0",
        1..=7 => "1-7",
        8..=127 => "8-127",
        128..=503 => "128-503",
        _ => "504+",
    }
}

/// e2e post-processing shared by gen and replay: `kf:` tags are a function of the case line;
/// a clean `Err` from the writer means the input is outside the property's domain ("batches the
/// writer accepts"): the case is counted under `refused:write` and answered with the expected dump
/// so that it is not a disagreement (a panic in the writer stays one).
fn post_e2e(line: &str, answer: String, tags: &str) -> (String, String) {
    let t: Vec<&str> = line.split(' ').collect();
    if t.len() < 2 || t[1] != "e2e" {
        return (answer, tags.to_string());
    }
    let mut tags = tags.to_string();
    for k in e2e::kf_tags(&t) {
        if !tags.split(' ').any(|x| x == k) {
            tags.push(' ');
            tags.push_str(&k);
        }
    }
    if answer == "ERR:write" && t.len() == 7 {
        tags.push_str(" refused:write");
        return (format!("{} {}", t[5], t[6]), tags);
    }
    (answer, tags)
}

fn main() {
    let args = parse_args();
    if std::env::var("VERIF_LOUD").is_err() {
        quiet_panics();
    }
    let mut sink = Sink::new(&args.out);
    if args.mode == "replay" {
        for line in read_cases(args.replay.as_ref().unwrap()) {
            let (a, o) = run_case_full(&line);
            if let Some(what) = o {
                sink.oracle_failure(line.clone(), what, "replay");
            }
            let (a, tags) = post_e2e(&line, a, "replay");
            sink.case(line, a, &tags);
        }
    } else {
        let thorough = args.tier == "thorough";
        let mut dense = dense_unit();
        dense.extend(e2e::dense_e2e());
        for (line, tags) in dense {
            let (a, o) = run_case_full(&line);
            if let Some(what) = o {
                sink.oracle_failure(line.clone(), what, &tags);
            }
            let (a, tags) = post_e2e(&line, a, &tags);
            sink.case(line, a, &tags);
        }
        let mut rng = Rng::new(args.seed ^ 0xC05);
        let n_unit = n_cases(&args, 7000, 150000);
        for _ in 0..n_unit {
            let (line, tags) = gen_unit(&mut rng);
            let (a, o) = run_case_full(&line);
            if let Some(what) = o {
                sink.oracle_failure(line.clone(), what, &tags);
            }
            sink.case(line, a, &tags);
        }
        let mut rng = Rng::new(args.seed ^ 0xC05E2E);
        let n_e2e = if args.cases.is_some() { n_unit / 4 } else if thorough { 40000 } else { 1800 };
        for _ in 0..n_e2e {
            let (line, tags) = e2e::gen_e2e(&mut rng, thorough);
            let (a, o) = run_case_full(&line);
            if let Some(what) = o {
                sink.oracle_failure(line.clone(), what, &tags);
            }
            let (a, tags) = post_e2e(&line, a, &tags);
            sink.case(line, a, &tags);
        }
    }
    sink.finish();
}
