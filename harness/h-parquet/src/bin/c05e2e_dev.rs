//! throw-away dev driver for c05_e2e.rs
#[path = "../c05_e2e.rs"]
mod e2e;
use std::collections::BTreeMap;
use vcommon::*;

fn main() {
    let a: Vec<String> = std::env::args().collect();
    quiet_panics();
    match a.get(1).map(|s| s.as_str()) {
        Some("run") => {
            let toks: Vec<&str> = a[2].split(' ').collect();
            println!("{}", e2e::run_e2e(&toks));
        }
        Some("gen") => {
            let n: usize = a[2].parse().unwrap();
            let seed: u64 = a[3].parse().unwrap();
            let thorough = a.get(4).map(|s| s == "thorough").unwrap_or(false);
            let verbose = a.get(4).map(|s| s == "print").unwrap_or(false);
            let mut rng = Rng::new(seed ^ 0xC05);
            let mut hist: BTreeMap<String, usize> = BTreeMap::new();
            let t0 = std::time::Instant::now();
            let (mut bad, mut slowest) = (0, (0.0f64, String::new()));
            for _ in 0..n {
                let (line, tags) = e2e::gen_e2e(&mut rng, thorough);
                if verbose {
                    println!("{}", line);
                }
                let toks: Vec<&str> = line.split(' ').collect();
                let t1 = std::time::Instant::now();
                let ans = e2e::run_e2e(&toks);
                let dt = t1.elapsed().as_secs_f64();
                if dt > slowest.0 {
                    slowest = (dt, line.chars().take(300).collect());
                }
                let want = format!("{} {}", toks[5], toks[6]);
                for t in tags.split(' ') {
                    *hist.entry(t.to_string()).or_insert(0) += 1;
                }
                if ans != want {
                    bad += 1;
                    *hist.entry(format!("MISMATCH:{}", if ans.starts_with("ERR") || ans == "PANIC" { ans.clone() } else { "diff".into() })).or_insert(0) += 1;
                    let cut = |s: &str| if s.len() > 3000 { format!("{}...", &s[..3000]) } else { s.to_string() };
                    println!("MISMATCH {}\n  got  {}\n  want {}", cut(&line), cut(&ans), cut(&want));
                }
            }
            let el = t0.elapsed().as_secs_f64();
            println!("cases {} mismatches {} elapsed {:.2}s ({:.0} cases/s) slowest {:.3}s: {}", n, bad, el, n as f64 / el, slowest.0, slowest.1);
            for (k, v) in hist {
                println!("  {:24} {}", k, v);
            }
        }
        _ => eprintln!("usage: gen N SEED [thorough|print] | run '<line>'"),
    }
}
