//! C06 correspondence harness: RowSelection algebra (direct API) and end-to-end pushdown
//! reads (sync `ParquetRecordBatchReaderBuilder` and `ParquetPushDecoder`) compared with
//! post-filtering a full read.  Case lines: `C06 <op> <fields…>` (see `lean/ArrowModel/C06/Driver.lean`).
use std::collections::HashMap;
use std::sync::Arc;

use arrow_array::builder::{Int32Builder, ListBuilder};
use arrow_array::cast::AsArray;
use arrow_array::types::Int32Type;
use arrow_array::{Array, ArrayRef, BooleanArray, Int32Array, RecordBatch, StringArray};
use arrow_buffer::BooleanBuffer;
use arrow_schema::{ArrowError, DataType, Field, Schema};
use bytes::Bytes;
use parquet::DecodeResult;
use parquet::arrow::arrow_reader::{
    ArrowPredicate, ArrowPredicateFn, ArrowReaderMetadata, ArrowReaderOptions, MaskRunIter,
    ParquetRecordBatchReaderBuilder, RowFilter, RowSelection, RowSelectionPolicy, RowSelector,
};
use parquet::arrow::async_reader::{AsyncFileReader, ParquetRecordBatchStreamBuilder};
use parquet::arrow::push_decoder::ParquetPushDecoderBuilder;
use parquet::arrow::{ArrowWriter, ProjectionMask};
use parquet::file::metadata::PageIndexPolicy;
use parquet::file::page_index::offset_index::PageLocation;
use parquet::file::properties::{EnabledStatistics, WriterProperties, WriterVersion};
use vcommon::*;

// ------------------------------------------------------------------ selections <-> text

fn parse_sels(s: &str) -> Vec<RowSelector> {
    if s == "-" {
        return vec![];
    }
    s.split(',')
        .map(|t| {
            let n: usize = t[1..].parse().expect("selector count");
            if t.starts_with('s') { RowSelector::skip(n) } else { RowSelector::select(n) }
        })
        .collect()
}
fn show_sels<'a>(it: impl Iterator<Item = &'a RowSelector>) -> String {
    let v: Vec<String> = it.map(|s| format!("{}{}", if s.skip { 's' } else { 'k' }, s.row_count)).collect();
    if v.is_empty() { "-".into() } else { v.join(",") }
}
fn parse_operand(t: &str) -> RowSelection {
    if let Some(r) = t.strip_prefix("R:") {
        RowSelection::from(parse_sels(r))
    } else if let Some(m) = t.strip_prefix("M:") {
        RowSelection::from_boolean_buffer(BooleanBuffer::from(parse_bits(m)))
    } else if t.starts_with('M') {
        // `M<k>:bits`: the same mask as a slice at bit offset k of a larger buffer whose
        // surrounding bits are set (offset / unaligned layout class); via `From<BooleanBuffer>`
        let (k, m) = t[1..].split_once(':').expect("operand");
        let k: usize = k.parse().expect("offset");
        let bits = parse_bits(m);
        let mut all = vec![true; k];
        all.extend_from_slice(&bits);
        all.extend_from_slice(&[true, true, true]);
        RowSelection::from(BooleanBuffer::from(all).slice(k, bits.len()))
    } else {
        panic!("bad operand")
    }
}
/// positions as half-open ranges
fn show_ranges(ps: &[usize]) -> String {
    let mut out: Vec<(usize, usize)> = vec![];
    for &p in ps {
        match out.last_mut() {
            Some(l) if l.1 == p => l.1 = p + 1,
            _ => out.push((p, p + 1)),
        }
    }
    if out.is_empty() { "-".into() } else { out.iter().map(|r| format!("{}-{}", r.0, r.1)).collect::<Vec<_>>().join(",") }
}
/// expand through the public iterator: (domain, selected positions)
fn expand(sel: &RowSelection) -> (usize, Vec<usize>) {
    let mut pos = vec![];
    let mut at = 0usize;
    for s in sel.iter() {
        if !s.skip {
            pos.extend(at..at + s.row_count);
        }
        at += s.row_count;
    }
    (at, pos)
}
/// canonical answer `<domain>|<positions>|<raw selectors>`; cross-checks `as_mask` against `iter`
fn show_rs(sel: &RowSelection) -> String {
    let (d, pos) = expand(sel);
    if let Some(m) = sel.as_mask() {
        let p2: Vec<usize> = m.set_indices().collect();
        if m.len() != d || p2 != pos {
            return format!("INCONSISTENT-MASK {}|{}", m.len(), show_ranges(&p2));
        }
    }
    let raw = show_sels(sel.iter());
    let v: Vec<RowSelector> = sel.clone().into();
    let dq: std::collections::VecDeque<RowSelector> = sel.clone().into();
    if show_sels(v.iter()) != raw || show_sels(dq.iter()) != raw {
        return format!("INCONSISTENT-INTO {}|{}", raw, show_sels(v.iter()));
    }
    format!("{}|{}|{}", d, show_ranges(&pos), raw)
}

// ------------------------------------------------------------------ test files

const NCOLS: usize = 5; // id, a, s, l, st
const COLS: [&str; 5] = ["id", "a", "s", "l", "st"];
fn val_st(i: usize) -> Option<(Option<i32>, Option<String>)> {
    if i % 13 == 6 { None } else { Some((if i % 4 == 1 { None } else { Some((i * 3) as i32) }, if i % 5 == 2 { None } else { Some(format!("y{}", i % 17)) })) }
}
fn st_fields() -> arrow_schema::Fields {
    arrow_schema::Fields::from(vec![Field::new("x", DataType::Int32, true), Field::new("y", DataType::Utf8, true)])
}
fn val_a(i: usize) -> Option<i32> {
    if i % 11 == 5 { None } else { Some(((i * 7 + 3) % 101) as i32) }
}
fn val_s(i: usize) -> Option<String> {
    if i % 7 == 3 { None } else { Some(format!("v{}{}", (i * 5) % 13, "x".repeat(i % 4))) }
}
fn val_l(i: usize) -> Option<Vec<Option<i32>>> {
    if i % 9 == 4 {
        None
    } else {
        Some((0..(i % 4)).map(|j| if (i + j) % 5 == 0 { None } else { Some((i * 10 + j) as i32) }).collect())
    }
}
fn schema() -> Arc<Schema> {
    Arc::new(Schema::new(vec![
        Field::new("id", DataType::Int32, false),
        Field::new("a", DataType::Int32, true),
        Field::new("s", DataType::Utf8, true),
        Field::new("l", DataType::List(Arc::new(Field::new_list_field(DataType::Int32, true))), true),
        Field::new("st", DataType::Struct(st_fields()), true),
    ]))
}
fn make_batch(lo: usize, hi: usize) -> RecordBatch {
    let id = Int32Array::from((lo..hi).map(|i| i as i32).collect::<Vec<_>>());
    let a = Int32Array::from((lo..hi).map(val_a).collect::<Vec<_>>());
    let s = StringArray::from((lo..hi).map(val_s).collect::<Vec<_>>());
    let mut lb = ListBuilder::new(Int32Builder::new());
    for i in lo..hi {
        match val_l(i) {
            None => lb.append(false),
            Some(v) => {
                for x in v {
                    lb.values().append_option(x);
                }
                lb.append(true);
            }
        }
    }
    let sx = Int32Array::from((lo..hi).map(|i| val_st(i).and_then(|v| v.0)).collect::<Vec<_>>());
    let sy = StringArray::from((lo..hi).map(|i| val_st(i).and_then(|v| v.1)).collect::<Vec<_>>());
    let nulls = arrow_buffer::NullBuffer::from((lo..hi).map(|i| val_st(i).is_some()).collect::<Vec<bool>>());
    let st = arrow_array::StructArray::new(st_fields(), vec![Arc::new(sx) as ArrayRef, Arc::new(sy) as ArrayRef], Some(nulls));
    RecordBatch::try_new(schema(), vec![Arc::new(id), Arc::new(a), Arc::new(s), Arc::new(lb.finish()), Arc::new(st)]).unwrap()
}
fn render(col: &ArrayRef, i: usize) -> String {
    if col.is_null(i) {
        return "null".into();
    }
    match col.data_type() {
        DataType::Int32 => col.as_primitive::<Int32Type>().value(i).to_string(),
        DataType::Utf8 => col.as_string::<i32>().value(i).to_string(),
        DataType::List(_) => {
            let v = col.as_list::<i32>().value(i);
            let v = v.as_primitive::<Int32Type>();
            let items: Vec<String> =
                (0..v.len()).map(|j| if v.is_null(j) { "n".into() } else { v.value(j).to_string() }).collect();
            format!("[{}]", items.join(" "))
        }
        DataType::Struct(_) => {
            let st = col.as_struct();
            format!("{{{} {}}}", render(st.column(0), i), render(st.column(1), i))
        }
        DataType::Int64 => col.as_primitive::<arrow_array::types::Int64Type>().value(i).to_string(),
        _ => "?".into(),
    }
}
fn render_expected(c: usize, i: usize) -> String {
    match c {
        0 => i.to_string(),
        1 => val_a(i).map(|x| x.to_string()).unwrap_or("null".into()),
        2 => val_s(i).unwrap_or("null".into()),
        3 => match val_l(i) {
            None => "null".into(),
            Some(v) => format!(
                "[{}]",
                v.iter().map(|x| x.map(|y| y.to_string()).unwrap_or("n".into())).collect::<Vec<_>>().join(" ")
            ),
        },
        _ => match val_st(i) {
            None => "null".into(),
            Some((x, y)) => format!("{{{} {}}}", x.map(|v| v.to_string()).unwrap_or("null".into()), y.unwrap_or("null".into())),
        },
    }
}

/// leading digits of the page token
fn page_rows_of(pg: &str) -> usize {
    pg.chars().take_while(|c| c.is_ascii_digit()).collect::<String>().parse().unwrap()
}

// ------------------------------------------------------------------ encoding × type grid files
//
// `pg` tokens containing `E` select a second file family: one wide schema whose columns pair a
// Parquet value ENCODING with an Arrow target type (so that every decoder's value-level
// `skip` is reached after a prior read and after a prior skip inside a page).

/// (column name, arrow type, explicit encoding, dictionary enabled, nullable)
fn enc_columns() -> Vec<(String, DataType, Option<parquet::basic::Encoding>, bool, bool)> {
    use parquet::basic::Encoding as E;
    let mut v: Vec<(String, DataType, Option<E>, bool, bool)> = vec![("id".into(), DataType::Int32, None, false, false)];
    let mut add = |name: &str, dt: DataType, e: Option<E>, dict: bool| {
        v.push((name.to_string(), dt.clone(), e, dict, true));
        v.push((format!("{}_req", name), dt, e, dict, false));
    };
    // integers
    for (n, dt) in [("i8", DataType::Int8), ("i16", DataType::Int16), ("i32", DataType::Int32), ("i64", DataType::Int64), ("u32", DataType::UInt32), ("u64", DataType::UInt64)] {
        add(&format!("{}_plain", n), dt.clone(), Some(E::PLAIN), false);
        add(&format!("{}_delta", n), dt.clone(), Some(E::DELTA_BINARY_PACKED), false);
        add(&format!("{}_dict", n), dt.clone(), None, true);
        add(&format!("{}_bss", n), dt, Some(E::BYTE_STREAM_SPLIT), false);
    }
    // floats
    for (n, dt) in [("f32", DataType::Float32), ("f64", DataType::Float64)] {
        add(&format!("{}_plain", n), dt.clone(), Some(E::PLAIN), false);
        add(&format!("{}_bss", n), dt.clone(), Some(E::BYTE_STREAM_SPLIT), false);
        add(&format!("{}_dict", n), dt, None, true);
    }
    add("f16_plain", DataType::Float16, Some(E::PLAIN), false);
    add("f16_bss", DataType::Float16, Some(E::BYTE_STREAM_SPLIT), false);
    // booleans
    add("bool_plain", DataType::Boolean, Some(E::PLAIN), false);
    add("bool_rle", DataType::Boolean, Some(E::RLE), false);
    // byte arrays × target types
    for (n, dt) in [
        ("utf8", DataType::Utf8),
        ("lutf8", DataType::LargeUtf8),
        ("view", DataType::Utf8View),
        ("bin", DataType::Binary),
        ("lbin", DataType::LargeBinary),
        ("binview", DataType::BinaryView),
    ] {
        add(&format!("{}_plain", n), dt.clone(), Some(E::PLAIN), false);
        add(&format!("{}_dl", n), dt.clone(), Some(E::DELTA_LENGTH_BYTE_ARRAY), false);
        add(&format!("{}_db", n), dt.clone(), Some(E::DELTA_BYTE_ARRAY), false);
        add(&format!("{}_dict", n), dt, None, true);
    }
    // fixed-length byte arrays (widths ≤ 8 and > 8), decimals of every physical type
    for (n, dt) in [
        ("flba4", DataType::FixedSizeBinary(4)),
        ("flba16", DataType::FixedSizeBinary(16)),
        ("flba11", DataType::FixedSizeBinary(11)),
        ("dec9", DataType::Decimal128(9, 2)),
        ("dec18", DataType::Decimal128(18, 4)),
        ("dec28", DataType::Decimal128(28, 3)),
        ("dec256", DataType::Decimal256(50, 5)),
    ] {
        add(&format!("{}_plain", n), dt.clone(), Some(E::PLAIN), false);
        add(&format!("{}_bss", n), dt.clone(), Some(E::BYTE_STREAM_SPLIT), false);
        add(&format!("{}_dict", n), dt.clone(), None, true);
        if !matches!(dt, DataType::Decimal128(9, _) | DataType::Decimal128(18, _)) {
            add(&format!("{}_db", n), dt, Some(E::DELTA_BYTE_ARRAY), false);
        } else {
            add(&format!("{}_delta", n), dt, Some(E::DELTA_BINARY_PACKED), false);
        }
    }
    v
}
fn enc_schema() -> Arc<Schema> {
    Arc::new(Schema::new(enc_columns().into_iter().map(|(n, dt, _, _, nullable)| Field::new(n, dt, nullable)).collect::<Vec<_>>()))
}
/// deterministic values: few distinct values for dictionary columns, varying lengths for strings
fn enc_array(dt: &DataType, nullable: bool, salt: usize, lo: usize, hi: usize) -> ArrayRef {
    use arrow_array::*;
    let null = |i: usize| nullable && (i + salt) % 5 == 2;
    let k = |i: usize| -> i64 { (((i * 37 + salt * 11) % 23) as i64 - 7) * (1 + (i % 3) as i64) };
    let text = |i: usize| -> String { format!("r{}{}", (i * 7 + salt) % 10, "abcdefghijklmnopqrstuvw".chars().take((i * 5 + salt) % 21).collect::<String>()) };
    let bytes_n = |i: usize, n: usize| -> Vec<u8> { (0..n).map(|j| ((i * 31 + j * 7 + salt) % 251) as u8).collect() };
    macro_rules! prim {
        ($arr:ty, $t:ty) => {
            Arc::new(<$arr>::from((lo..hi).map(|i| if null(i) { None } else { Some(k(i) as $t) }).collect::<Vec<Option<$t>>>())) as ArrayRef
        };
    }
    match dt {
        DataType::Int8 => prim!(Int8Array, i8),
        DataType::Int16 => prim!(Int16Array, i16),
        DataType::Int32 => prim!(Int32Array, i32),
        DataType::Int64 => Arc::new(Int64Array::from((lo..hi).map(|i| if null(i) { None } else { Some(k(i) * 1_000_000_007) }).collect::<Vec<_>>())),
        DataType::UInt32 => Arc::new(UInt32Array::from((lo..hi).map(|i| if null(i) { None } else { Some((k(i) + 50) as u32 * 40_000_000) }).collect::<Vec<_>>())),
        DataType::UInt64 => Arc::new(UInt64Array::from((lo..hi).map(|i| if null(i) { None } else { Some((k(i) + 50) as u64 * 300_000_000_000_000_000) }).collect::<Vec<_>>())),
        DataType::Float32 => Arc::new(Float32Array::from((lo..hi).map(|i| if null(i) { None } else { Some(k(i) as f32 * 1.25) }).collect::<Vec<_>>())),
        DataType::Float64 => Arc::new(Float64Array::from((lo..hi).map(|i| if null(i) { None } else { Some(k(i) as f64 * 1.0e-3) }).collect::<Vec<_>>())),
        DataType::Float16 => Arc::new(Float16Array::from((lo..hi).map(|i| if null(i) { None } else { Some(half::f16::from_f32(k(i) as f32 * 0.5)) }).collect::<Vec<_>>())),
        DataType::Boolean => Arc::new(BooleanArray::from((lo..hi).map(|i| if null(i) { None } else { Some((i / 3 + salt) % 2 == 0) }).collect::<Vec<_>>())),
        DataType::Utf8 => Arc::new(StringArray::from((lo..hi).map(|i| if null(i) { None } else { Some(text(i)) }).collect::<Vec<_>>())),
        DataType::LargeUtf8 => Arc::new(LargeStringArray::from((lo..hi).map(|i| if null(i) { None } else { Some(text(i)) }).collect::<Vec<_>>())),
        DataType::Utf8View => Arc::new(StringViewArray::from_iter((lo..hi).map(|i| if null(i) { None } else { Some(text(i)) }))),
        DataType::Binary => Arc::new(BinaryArray::from_iter((lo..hi).map(|i| if null(i) { None } else { Some(bytes_n(i, (i * 3 + salt) % 17)) }))),
        DataType::LargeBinary => Arc::new(LargeBinaryArray::from_iter((lo..hi).map(|i| if null(i) { None } else { Some(bytes_n(i, (i * 3 + salt) % 17)) }))),
        DataType::BinaryView => Arc::new(BinaryViewArray::from_iter((lo..hi).map(|i| if null(i) { None } else { Some(bytes_n(i, (i * 3 + salt) % 17)) }))),
        DataType::FixedSizeBinary(n) => Arc::new(
            FixedSizeBinaryArray::try_from_sparse_iter_with_size((lo..hi).map(|i| if null(i) { None } else { Some(bytes_n(i % 9, *n as usize)) }), *n).unwrap(),
        ),
        DataType::Decimal128(p, sc) => {
            let big = if *p > 18 { 10_000_000_000_000_000_000i128 } else if *p > 9 { 1_000_000_000i128 } else { 1 };
            Arc::new(
                Decimal128Array::from((lo..hi).map(|i| if null(i) { None } else { Some(k(i) as i128 * big + i as i128 % 7) }).collect::<Vec<_>>())
                    .with_precision_and_scale(*p, *sc)
                    .unwrap(),
            )
        }
        DataType::Decimal256(p, sc) => Arc::new(
            Decimal256Array::from(
                (lo..hi)
                    .map(|i| if null(i) { None } else { Some(arrow_buffer::i256::from_i128(k(i) as i128 * 1_000_000_000_000_000_000_000_000_000i128).wrapping_mul(arrow_buffer::i256::from_i128(1_000_000_007))) })
                    .collect::<Vec<_>>(),
            )
            .with_precision_and_scale(*p, *sc)
            .unwrap(),
        ),
        _ => unreachable!("enc type"),
    }
}
fn build_enc_file(sizes: &[usize], pg: &str, offset_index: bool) -> TestFile {
    use parquet::schema::types::ColumnPath;
    let rows = page_rows_of(pg);
    let cols = enc_columns();
    let mut props = WriterProperties::builder()
        .set_data_page_row_count_limit(rows.max(1))
        .set_write_batch_size(rows.clamp(1, 8))
        .set_dictionary_enabled(false)
        .set_statistics_enabled(if offset_index { EnabledStatistics::Page } else { EnabledStatistics::Chunk })
        .set_max_row_group_row_count(Some(1 << 20))
        .set_offset_index_disabled(!offset_index);
    if pg.contains('2') {
        props = props.set_writer_version(WriterVersion::PARQUET_2_0);
    }
    for (name, _, enc, dict, _) in &cols {
        let path = ColumnPath::from(name.as_str());
        if *dict {
            props = props.set_column_dictionary_enabled(path.clone(), true);
        }
        if let Some(e) = enc {
            props = props.set_column_encoding(path, *e);
        }
    }
    let schema = enc_schema();
    let mut buf = Vec::new();
    let mut w = ArrowWriter::try_new(&mut buf, schema.clone(), Some(props.build())).unwrap();
    let mut at = 0;
    for &n in sizes {
        let mut lo = at;
        while lo < at + n {
            let hi = (lo + 8).min(at + n);
            let arrays: Vec<ArrayRef> = cols
                .iter()
                .enumerate()
                .map(|(c, (_, dt, _, _, nullable))| {
                    if c == 0 { Arc::new(Int32Array::from((lo..hi).map(|i| i as i32).collect::<Vec<_>>())) as ArrayRef } else { enc_array(dt, *nullable, c, lo, hi) }
                })
                .collect();
            w.write(&RecordBatch::try_new(schema.clone(), arrays).unwrap()).unwrap();
            lo = hi;
        }
        w.flush().unwrap();
        at += n;
    }
    w.close().unwrap();
    let bytes = Bytes::from(buf);
    let rb = ParquetRecordBatchReaderBuilder::try_new(bytes.clone()).unwrap();
    if std::env::var("C06_DUMP_ENC").is_ok() {
        let rg = rb.metadata().row_group(0);
        for c in rg.columns() {
            eprintln!("{} {:?} {:?}", c.column_path(), c.column_type(), c.encodings().collect::<Vec<_>>());
        }
    }
    let reader = rb.with_batch_size(100_000).build().unwrap();
    let mut full = vec![];
    let mut types_ok = true;
    for b in reader {
        let b = b.unwrap();
        // the embedded arrow schema must give back the target types (view types in particular)
        for (c, (_, dt, _, _, _)) in cols.iter().enumerate() {
            types_ok &= b.column(c).data_type() == dt;
        }
        for i in 0..b.num_rows() {
            full.push((0..cols.len()).map(|c| arrow_cast::display::array_value_to_string(b.column(c), i).unwrap()).collect::<Vec<_>>());
        }
    }
    // the unrestricted read must equal what was written (rendered the same way)
    let mut full_ok = types_ok && full.len() == at;
    if full_ok {
        for (c, (_, dt, _, _, nullable)) in cols.iter().enumerate().skip(1) {
            let a = enc_array(dt, *nullable, c, 0, at);
            for i in 0..at {
                full_ok &= arrow_cast::display::array_value_to_string(&a, i).unwrap() == full[i][c];
            }
        }
    }
    TestFile { bytes, full, full_ok, names: cols.into_iter().map(|c| c.0).collect() }
}

struct TestFile {
    /// column names (index = position in `full` rows)
    names: Vec<String>,
    bytes: Bytes,
    /// rendering of every column of every row from an unrestricted read
    full: Vec<Vec<String>>,
    full_ok: bool,
}
/// `pg` = rows per data page followed by flags: `d` dictionary on, `2` data page v2
fn build_file(sizes: &[usize], pg: &str, offset_index: bool) -> TestFile {
    let rows = page_rows_of(pg);
    let mut props = WriterProperties::builder()
        .set_data_page_row_count_limit(rows.max(1))
        .set_write_batch_size(rows.clamp(1, 4))
        .set_dictionary_enabled(pg.contains('d'))
        .set_statistics_enabled(EnabledStatistics::Page)
        .set_max_row_group_row_count(Some(1 << 20))
        .set_offset_index_disabled(!offset_index);
    if !offset_index {
        props = props.set_statistics_enabled(EnabledStatistics::Chunk);
    }
    if pg.contains('2') {
        props = props.set_writer_version(WriterVersion::PARQUET_2_0);
    }
    let mut buf = Vec::new();
    let mut w = ArrowWriter::try_new(&mut buf, schema(), Some(props.build())).unwrap();
    let mut at = 0;
    for &n in sizes {
        // several write calls per row group so that page limits are checked often
        let mut lo = at;
        while lo < at + n {
            let hi = (lo + 3).min(at + n);
            w.write(&make_batch(lo, hi)).unwrap();
            lo = hi;
        }
        w.flush().unwrap();
        at += n;
    }
    w.close().unwrap();
    let bytes = Bytes::from(buf);
    let reader = ParquetRecordBatchReaderBuilder::try_new(bytes.clone()).unwrap().with_batch_size(1000).build().unwrap();
    let mut full = vec![];
    for b in reader {
        let b = b.unwrap();
        for i in 0..b.num_rows() {
            full.push((0..NCOLS).map(|c| render(b.column(c), i)).collect::<Vec<_>>());
        }
    }
    let full_ok = full.len() == at && (0..at).all(|i| (0..NCOLS).all(|c| full[i][c] == render_expected(c, i)));
    TestFile { bytes, full, full_ok, names: COLS.iter().map(|c| c.to_string()).collect() }
}

thread_local! {
    static FILES: std::cell::RefCell<HashMap<String, Arc<TestFile>>> = std::cell::RefCell::new(HashMap::new());
}
fn get_file(sizes_s: &str, pg: &str, offset_index: bool) -> Arc<TestFile> {
    let key = format!("{} {} {}", sizes_s, pg, offset_index);
    FILES.with(|f| {
        f.borrow_mut()
            .entry(key)
            .or_insert_with(|| {
                let sizes = parse_list::<usize>(sizes_s);
                Arc::new(if pg.contains('E') { build_enc_file(&sizes, pg, offset_index) } else { build_file(&sizes, pg, offset_index) })
            })
            .clone()
    })
}

// ------------------------------------------------------------------ predicates

/// `<col><op><k>=<r>`: col ∈ i(id) a s l; value: id, a, len(s), len(l); `%` null → null
/// result (the reader must treat it as false), `#` null → false computed by the predicate.
#[derive(Clone)]
struct Pred {
    col: usize,
    null_as_null: bool,
    k: usize,
    r: usize,
}
fn parse_pred(t: &str) -> Pred {
    let col = match &t[0..1] {
        "i" => 0,
        "a" => 1,
        "s" => 2,
        _ => 3,
    };
    let null_as_null = &t[1..2] == "%";
    let (k, r) = t[2..].split_once('=').unwrap();
    Pred { col, null_as_null, k: k.parse().unwrap(), r: r.parse().unwrap() }
}
impl Pred {
    fn key(&self, i: usize) -> Option<usize> {
        match self.col {
            0 => Some(i),
            1 => val_a(i).map(|x| x as usize),
            2 => val_s(i).map(|x| x.len()),
            _ => val_l(i).map(|x| x.len()),
        }
    }
    /// reference value for file row `i` (null → false)
    fn holds(&self, i: usize) -> bool {
        self.key(i).map(|k| k % self.k == self.r).unwrap_or(false)
    }
    fn to_arrow(&self, sd: &parquet::schema::types::SchemaDescriptor) -> Box<dyn ArrowPredicate> {
        let p = self.clone();
        Box::new(ArrowPredicateFn::new(ProjectionMask::roots(sd, [self.col]), move |b: RecordBatch| {
            let c = b.column(0);
            let v: Vec<Option<bool>> = (0..c.len())
                .map(|i| {
                    let key: Option<usize> = if c.is_null(i) {
                        None
                    } else {
                        Some(match c.data_type() {
                            DataType::Int32 => c.as_primitive::<Int32Type>().value(i) as usize,
                            DataType::Utf8 => c.as_string::<i32>().value(i).len(),
                            _ => c.as_list::<i32>().value(i).len(),
                        })
                    };
                    match key {
                        Some(k) => Some(k % p.k == p.r),
                        None => if p.null_as_null { None } else { Some(false) },
                    }
                })
                .collect();
            Ok::<_, ArrowError>(BooleanArray::from(v))
        }))
    }
}

/// an `ArrayReader` over an abstract tape of `total` rows (one Int32 column `id` = row index):
/// exactly the abstraction the Lean reader-loop model uses
struct TapeReader {
    total: usize,
    pos: usize,
    buf: Vec<i32>,
    dt: DataType,
}
impl TapeReader {
    fn new(total: usize) -> Self {
        let dt = DataType::Struct(arrow_schema::Fields::from(vec![Field::new("id", DataType::Int32, false)]));
        TapeReader { total, pos: 0, buf: vec![], dt }
    }
}
impl parquet::arrow::array_reader::ArrayReader for TapeReader {
    fn as_any(&self) -> &dyn std::any::Any {
        self
    }
    fn get_data_type(&self) -> &DataType {
        &self.dt
    }
    fn read_records(&mut self, n: usize) -> parquet::errors::Result<usize> {
        let k = n.min(self.total - self.pos);
        self.buf.extend((self.pos..self.pos + k).map(|x| x as i32));
        self.pos += k;
        Ok(k)
    }
    fn consume_batch(&mut self) -> parquet::errors::Result<ArrayRef> {
        let a = Int32Array::from(std::mem::take(&mut self.buf));
        Ok(Arc::new(arrow_array::StructArray::from(vec![(
            Arc::new(Field::new("id", DataType::Int32, false)),
            Arc::new(a) as ArrayRef,
        )])))
    }
    fn skip_records(&mut self, n: usize) -> parquet::errors::Result<usize> {
        let k = n.min(self.total - self.pos);
        self.pos += k;
        Ok(k)
    }
    fn get_def_levels(&self) -> Option<&[i16]> {
        None
    }
    fn get_rep_levels(&self) -> Option<&[i16]> {
        None
    }
}

/// in-memory `AsyncFileReader`
struct MemReader {
    bytes: Bytes,
    md: Arc<parquet::file::metadata::ParquetMetaData>,
}
impl AsyncFileReader for MemReader {
    fn get_bytes(&mut self, range: std::ops::Range<u64>) -> futures::future::BoxFuture<'_, parquet::errors::Result<Bytes>> {
        let b = self.bytes.slice(range.start as usize..range.end as usize);
        Box::pin(async move { Ok(b) })
    }
    fn get_metadata<'a>(
        &'a mut self,
        _options: Option<&'a ArrowReaderOptions>,
    ) -> futures::future::BoxFuture<'a, parquet::errors::Result<Arc<parquet::file::metadata::ParquetMetaData>>> {
        let md = self.md.clone();
        Box::pin(async move { Ok(md) })
    }
}

// ------------------------------------------------------------------ run one case

fn policy_of(t: &str) -> Option<RowSelectionPolicy> {
    match t {
        "s" => Some(RowSelectionPolicy::Selectors),
        "m" => Some(RowSelectionPolicy::Mask),
        "d" => None,
        _ => Some(RowSelectionPolicy::Auto { threshold: t[1..].parse().unwrap() }),
    }
}

struct ReadOut {
    answer: String,
    oracle: Option<String>,
}

fn configure<T>(
    mut b: parquet::arrow::arrow_reader::ArrowReaderBuilder<T>,
    t: &[&str],
) -> parquet::arrow::arrow_reader::ArrowReaderBuilder<T> {
    // t: [mode, sizes, pg, idx, groups, sel, pol, preds, pmasks, off, lim, bs, proj]
    let sd = b.metadata().file_metadata().schema_descr_ptr();
    b = b.with_row_groups(parse_list::<usize>(t[4]));
    if t[5] != "-" {
        b = b.with_row_selection(parse_operand(t[5]));
    }
    if let Some(p) = policy_of(t[6]) {
        b = b.with_row_selection_policy(p);
    }
    if t[7] != "-" {
        let preds: Vec<Box<dyn ArrowPredicate>> = t[7].split(';').map(|p| parse_pred(p).to_arrow(&sd)).collect();
        b = b.with_row_filter(RowFilter::new(preds));
    }
    if t[9] != "-" {
        b = b.with_offset(t[9].parse().unwrap());
    }
    if t[10] != "-" {
        b = b.with_limit(t[10].parse().unwrap());
    }
    b = b.with_batch_size(t[11].parse().unwrap());
    if let Some((_, c)) = t[0].split_once(".c") {
        b = b.with_max_predicate_cache_size(c.parse().unwrap());
    }
    let names: Vec<String> = b.schema().fields().iter().map(|f| f.name().clone()).collect();
    let want: Vec<String> = if t[12] == "*" { names.iter().filter(|n| *n != "rn").cloned().collect() } else { t[12].split(',').map(|c| c.to_string()).collect() };
    let cols: Vec<usize> = want.iter().filter(|c| *c != "rn").map(|c| names.iter().position(|x| x == c).expect("projected column")).collect();
    b.with_projection(ProjectionMask::roots(&sd, cols))
}

fn run_read(t: &[&str]) -> ReadOut {
    let mode = t[0].split('.').next().unwrap();
    let sizes = parse_list::<usize>(t[1]);
    let idx: usize = t[3].parse().unwrap();
    let file = get_file(t[1], t[2], idx != 0);
    let groups = parse_list::<usize>(t[4]);
    let bs: usize = t[11].parse().unwrap();
    let enc = t[2].contains('E');
    let proj_owned: Vec<String> = if t[12] == "*" { file.names.clone() } else { t[12].split(',').map(|c| c.to_string()).collect() };
    let proj: Vec<&str> = proj_owned.iter().map(|c| c.as_str()).collect();
    let mut options = ArrowReaderOptions::new()
        .with_page_index_policy(if idx == 2 { PageIndexPolicy::Optional } else { PageIndexPolicy::Skip });
    if proj.contains(&"rn") {
        // virtual row-number column: must follow the rows through every kind of skipping
        let f = Field::new("rn", DataType::Int64, false).with_extension_type(parquet::arrow::RowNumber);
        options = options.with_virtual_columns(vec![Arc::new(f)]).expect("virtual column");
    }

    // ---- reference: post-filter the full read, in the harness
    let mut concat: Vec<usize> = vec![]; // file row id of each row of the chosen groups, in order
    for &g in &groups {
        let base: usize = sizes[..g].iter().sum();
        concat.extend(base..base + sizes[g]);
    }
    let selmask: Option<Vec<bool>> = if t[5] == "-" {
        None
    } else {
        let (d, pos) = expand(&parse_operand(t[5]));
        let mut m = vec![false; d];
        for p in pos {
            m[p] = true;
        }
        Some(m)
    };
    let preds: Vec<Pred> = if t[7] == "-" { vec![] } else { t[7].split(';').map(parse_pred).collect() };
    // the predicate bitmasks in the line must be what the predicates mean on the full data
    let pmasks: Vec<Vec<bool>> =
        if t[8] == "-" { vec![] } else { t[8].split(';').map(|m| if m == "e" { vec![] } else { parse_bits(m) }).collect() };
    let expect_pm: Vec<Vec<bool>> = preds.iter().map(|p| concat.iter().map(|&i| p.holds(i)).collect()).collect();
    if pmasks != expect_pm {
        return ReadOut { answer: "ERR:bad-case".into(), oracle: None };
    }
    let mut expect: Vec<usize> = concat
        .iter()
        .enumerate()
        .filter(|(j, _)| selmask.as_ref().map(|m| m.get(*j).copied().unwrap_or(false)).unwrap_or(true))
        .map(|(_, &i)| i)
        .filter(|&i| preds.iter().all(|p| p.holds(i)))
        .collect();
    if t[9] != "-" {
        let o: usize = t[9].parse().unwrap();
        expect = expect.into_iter().skip(o).collect();
    }
    if t[10] != "-" {
        expect.truncate(t[10].parse().unwrap());
    }

    // ---- the real reader
    let result: Result<Vec<RecordBatch>, String> = (|| {
        if mode == "sync" {
            let b = ParquetRecordBatchReaderBuilder::try_new_with_options(file.bytes.clone(), options)
                .map_err(|e| format!("open {e}"))?;
            let r = configure(b, t).build().map_err(|e| format!("build {e}"))?;
            r.collect::<Result<Vec<_>, _>>().map_err(|e| format!("read {e}"))
        } else if mode == "async" {
            use futures::TryStreamExt;
            let md = ArrowReaderMetadata::load(&file.bytes, options).map_err(|e| format!("open {e}"))?;
            let rd = MemReader { bytes: file.bytes.clone(), md: md.metadata().clone() };
            let b = ParquetRecordBatchStreamBuilder::new_with_metadata(rd, md);
            let stream = configure(b, t).build().map_err(|e| format!("build {e}"))?;
            futures::executor::block_on(stream.try_collect::<Vec<_>>()).map_err(|e| format!("read {e}"))
        } else if mode == "pushr" {
            // `try_next_reader` per row group, and the decoder rebuilt through `into_builder`
            // at every row-group boundary (remaining row groups / selection / budget carried over)
            let md = ArrowReaderMetadata::load(&file.bytes, options).map_err(|e| format!("open {e}"))?;
            let b = ParquetPushDecoderBuilder::new_with_metadata(md);
            let mut dec = configure(b, t).build().map_err(|e| format!("build {e}"))?;
            let mut out: Vec<RecordBatch> = vec![];
            // `peek_next_row_group` (a second entry point to the frontier logic) must name the
            // row group the next reader's rows come from (checked when no predicate can empty it)
            let mut fresh = true;
            let mut peeked: Option<Option<usize>> = None;
            loop {
                if fresh {
                    peeked = Some(dec.peek_next_row_group().map_err(|e| format!("peek {e}"))?);
                    fresh = false;
                }
                match dec.try_next_reader().map_err(|e| format!("read {e}"))? {
                    DecodeResult::NeedsData(ranges) => {
                        let bufs = ranges.iter().map(|r| file.bytes.slice(r.start as usize..r.end as usize)).collect();
                        dec.push_ranges(ranges, bufs).map_err(|e| format!("push {e}"))?;
                    }
                    DecodeResult::Data(reader) => {
                        let start = out.len();
                        for b in reader {
                            out.push(b.map_err(|e| format!("read {e}"))?);
                        }
                        if t[7] == "-" {
                            if let Some(p) = peeked.take() {
                                let rg_of = |id: usize| {
                                    let mut at = 0;
                                    sizes.iter().position(|n| { at += n; id < at })
                                };
                                for b in &out[start..] {
                                    for v in b.column(0).as_primitive::<Int32Type>().values().iter() {
                                        if rg_of(*v as usize) != p {
                                            return Err(format!("peek-mismatch: peeked {:?}, row {} is in {:?}", p, v, rg_of(*v as usize)));
                                        }
                                    }
                                }
                            }
                        }
                        fresh = true;
                        if dec.is_at_row_group_boundary() {
                            dec = dec.into_builder().map_err(|e| format!("rebuild {e}"))?.build().map_err(|e| format!("build {e}"))?;
                        }
                    }
                    DecodeResult::Finished => break,
                }
            }
            Ok(out)
        } else {
            let md = ArrowReaderMetadata::load(&file.bytes, options).map_err(|e| format!("open {e}"))?;
            let b = ParquetPushDecoderBuilder::new_with_metadata(md);
            let mut dec = configure(b, t).build().map_err(|e| format!("build {e}"))?;
            let mut out = vec![];
            loop {
                match dec.try_decode().map_err(|e| format!("read {e}"))? {
                    DecodeResult::NeedsData(ranges) => {
                        let bufs = ranges.iter().map(|r| file.bytes.slice(r.start as usize..r.end as usize)).collect();
                        dec.push_ranges(ranges, bufs).map_err(|e| format!("push {e}"))?;
                    }
                    DecodeResult::Data(b) => out.push(b),
                    DecodeResult::Finished => break,
                }
            }
            Ok(out)
        }
    })();
    let batches = match result {
        Ok(b) => b,
        Err(e) => {
            if std::env::var("VERIF_LOUD").is_ok() {
                eprintln!("error: {e}");
            }
            return ReadOut { answer: "ERR:read".into(), oracle: None };
        }
    };
    let mut ids = vec![];
    let mut lens = vec![];
    let mut oracle = None;
    if !file.full_ok {
        oracle = Some("unrestricted read differs from the written data".to_string());
    }
    for b in &batches {
        lens.push(b.num_rows());
        if b.num_rows() == 0 || b.num_rows() > bs {
            oracle = Some(format!("batch of {} rows with batch size {}", b.num_rows(), bs));
        }
        if b.num_columns() != proj.len() {
            oracle = Some(format!("{} columns for projection {}", b.num_columns(), t[12]));
            continue;
        }
        let idc = b.column(0).as_primitive::<Int32Type>();
        for i in 0..b.num_rows() {
            let id = idc.value(i) as usize;
            ids.push(id);
            for name in proj.iter() {
                let Some(col) = b.column_by_name(name) else {
                    oracle = Some(format!("column {} missing from the batch", name));
                    continue;
                };
                let got = if enc && *name != "rn" { arrow_cast::display::array_value_to_string(col, i).unwrap_or("?".into()) } else { render(col, i) };
                let want = if *name == "rn" {
                    Some(id.to_string())
                } else {
                    let c = file.names.iter().position(|x| x == name).unwrap();
                    file.full.get(id).map(|r| r[c].clone())
                };
                if want.as_ref() != Some(&got) {
                    oracle = Some(format!("row id {} column {} = {} differs from the full read", id, name, got));
                }
            }
        }
    }
    if ids != expect {
        oracle = Some(format!("rows {} but post-filtering the full read gives {}", show_ranges(&ids), show_ranges(&expect)));
    }
    ReadOut { answer: format!("{} {}", show_ranges(&ids), show_list(&lens)), oracle }
}

fn run_case(line: &str) -> (String, Option<String>) {
    let t: Vec<&str> = line.split(' ').collect();
    assert_eq!(t[0], "C06");
    let us = |s: &str| s.parse::<usize>().unwrap();
    let mut oracle = None;
    let ans = match t[1] {
        "from" => guarded(|| show_rs(&parse_operand(t[2]))),
        "ranges" => guarded(|| {
            let total = us(t[2]);
            let rs: Vec<std::ops::Range<usize>> = if t[3] == "-" {
                vec![]
            } else {
                t[3].split(',').map(|r| { let (a, b) = r.split_once('-').unwrap(); us(a)..us(b) }).collect()
            };
            show_rs(&RowSelection::from_consecutive_ranges(rs.into_iter(), total))
        }),
        "filters" => guarded(|| {
            let fs: Vec<BooleanArray> =
                if t[2] == "none" { vec![] } else { t[2].split(';').map(|f| BooleanArray::from(parse_bits(f))).collect() };
            show_rs(&RowSelection::from_filters(&fs))
        }),
        "andthen" => guarded(|| show_rs(&parse_operand(t[2]).and_then(&parse_operand(t[3])))),
        "inter" => guarded(|| show_rs(&parse_operand(t[2]).intersection(&parse_operand(t[3])))),
        "union" => guarded(|| show_rs(&parse_operand(t[2]).union(&parse_operand(t[3])))),
        "split" => guarded(|| {
            let mut s = parse_operand(t[2]);
            let head = s.split_off(us(t[3]));
            format!("{} ; {}", show_rs(&head), show_rs(&s))
        }),
        "counts" => guarded(|| {
            let s = parse_operand(t[2]);
            format!("{} {} {} {}", s.row_count(), s.skipped_row_count(), s.total_row_count(), if s.selects_any() { 1 } else { 0 })
        }),
        "eq" => guarded(|| {
            let (a, b) = (parse_operand(t[2]), parse_operand(t[3]));
            let (x, y) = (a == b, b == a);
            if x != y { "ASYMMETRIC".into() } else if x { "1".into() } else { "0".into() }
        }),
        "concat" => guarded(|| {
            let items: Vec<RowSelection> = if t[2] == "none" { vec![] } else { t[2].split(';').map(parse_operand).collect() };
            show_rs(&items.into_iter().collect::<RowSelection>())
        }),
        "scan" => guarded(|| {
            let s = parse_operand(t[2]);
            let firsts = parse_list::<i64>(t[3]);
            let pages: Vec<PageLocation> = firsts
                .iter()
                .enumerate()
                .map(|(i, f)| PageLocation { offset: 1000 * i as i64 + 4, compressed_page_size: 10 + i as i32, first_row_index: *f })
                .collect();
            let idxs: Vec<usize> = s
                .scan_ranges(&pages)
                .iter()
                .map(|r| {
                    let i = ((r.start - 4) / 1000) as usize;
                    if r.start != 1000 * i as u64 + 4 || r.end != r.start + 10 + i as u64 { usize::MAX } else { i }
                })
                .collect();
            show_list(&idxs)
        }),
        "runs" => guarded(|| {
            let sel = parse_operand(t[2]);
            let m = sel.as_mask().expect("mask operand").clone();
            let v: Vec<RowSelector> = MaskRunIter::new(&m).collect();
            show_sels(v.iter())
        }),
        "default" => guarded(|| show_rs(&RowSelection::default())),
        "plan" => guarded(|| {
            // C06 plan <operand|-> <policy s|m|aN|d> <bs>: the public ReadPlanBuilder / ReadPlan /
            // RowSelectionCursor / MaskCursor surface
            use parquet::arrow::arrow_reader::{ReadPlanBuilder, RowSelectionCursor};
            let sel = if t[2] == "-" { None } else { Some(parse_operand(t[2])) };
            let bs = us(t[4]);
            let mut b = ReadPlanBuilder::new(bs).with_selection(sel);
            if let Some(p) = policy_of(t[3]) {
                b = b.with_row_selection_policy(p);
            }
            let head = format!(
                "any={} n={}",
                b.selects_any() as u8,
                b.num_rows_selected().map(|n| n.to_string()).unwrap_or("-".into())
            );
            let explicit = t[3] == "s" || t[3] == "m" || t[2] == "-";
            let mut plan = b.build();
            if plan.batch_size() != bs {
                return "BAD-BATCH-SIZE".into();
            }
            if !explicit {
                return head;
            }
            match plan.row_selection_cursor_mut() {
                RowSelectionCursor::All => format!("{} all", head),
                RowSelectionCursor::Selectors(c) => format!("{} sel empty={}", head, c.is_empty() as u8),
                RowSelectionCursor::Mask(c) => {
                    let mut chunks = vec![];
                    let mut guard = 0;
                    while let Some(ch) = c.next_mask_chunk(bs) {
                        let bits = c.mask_values_for(&ch).map(|a| show_bits(&a.values().iter().collect::<Vec<_>>())).unwrap_or("ERR".into());
                        chunks.push(format!("{}:{}:{}:{}:{}", ch.initial_skip, ch.chunk_rows, ch.selected_rows, ch.mask_start, bits));
                        guard += 1;
                        if guard > 10000 {
                            return "LOOP".into();
                        }
                    }
                    format!("{} mask empty={} {}", head, c.is_empty() as u8, if chunks.is_empty() { "-".to_string() } else { chunks.join(",") })
                }
            }
        }),
        "wpred" => guarded(|| {
            // C06 wpred <operand|-> <policy> <bs> <total> <pred over tape rows: 0/1/n> <limit|-> <total_rows>
            use parquet::arrow::arrow_reader::{PredicateOptions, ReadPlanBuilder};
            let sel = if t[2] == "-" { None } else { Some(parse_operand(t[2])) };
            let (bs, total) = (us(t[4]), us(t[5]));
            let pv: Vec<char> = if t[6] == "e" { vec![] } else { t[6].chars().collect() };
            let mut b = ReadPlanBuilder::new(bs).with_selection(sel);
            if let Some(p) = policy_of(t[3]) {
                b = b.with_row_selection_policy(p);
            }
            let mut pred = ArrowPredicateFn::new(ProjectionMask::all(), move |batch: RecordBatch| {
                let ids = batch.column(0).as_primitive::<Int32Type>();
                let v: Vec<Option<bool>> = ids
                    .values()
                    .iter()
                    .map(|i| match pv.get(*i as usize) {
                        Some('1') => Some(true),
                        Some('n') => None,
                        _ => Some(false),
                    })
                    .collect();
                Ok::<_, ArrowError>(BooleanArray::from(v))
            });
            let mut opts = PredicateOptions::new(Box::new(TapeReader::new(total)), &mut pred);
            if t[7] != "-" {
                opts = opts.with_limit(us(t[7]), us(t[8]));
            }
            match b.with_predicate_options(opts) {
                Err(_) => "ERR:read".to_string(),
                Ok(b) => match b.selection() {
                    None => "none".to_string(),
                    Some(s) => show_rs(s),
                },
            }
        }),
        "prog" => {
            let mut o: Option<String> = None;
            let a = guarded(|| {
                let mut cur = parse_operand(t[2]);
                let mut out: Vec<String> = vec![];
                // ground truth from the rows themselves (never from the cached count)
                let truth = |c: &RowSelection| {
                    let (d, pos) = expand(c);
                    (pos.len(), d - pos.len(), !pos.is_empty())
                };
                let ops: Vec<&str> = if t[3] == "-" { vec![] } else { t[3].split(';').collect() };
                for op in ops {
                    let arg = &op[1..];
                    match &op[0..1] {
                        "r" => {
                            let v = cur.row_count();
                            if v != truth(&cur).0 { o = Some(format!("row_count() = {} but {} rows are selected (after `{}`)", v, truth(&cur).0, t[3])); }
                            out.push(format!("r={}", v));
                        }
                        "k" => {
                            let v = cur.skipped_row_count();
                            if v != truth(&cur).1 { o = Some(format!("skipped_row_count() = {} but {} rows are skipped", v, truth(&cur).1)); }
                            out.push(format!("k={}", v));
                        }
                        "y" => {
                            let v = cur.selects_any();
                            if v != truth(&cur).2 { o = Some(format!("selects_any() = {} but {} rows are selected", v, truth(&cur).0)); }
                            out.push(format!("y={}", v as u8));
                        }
                        "t" => out.push(format!("t={}", cur.total_row_count())),
                        "c" => cur = cur.clone(),
                        "h" => {
                            let head = cur.split_off(us(arg));
                            cur = head;
                        }
                        "l" => {
                            let _ = cur.split_off(us(arg));
                        }
                        "a" => cur = cur.and_then(&parse_operand(&arg[1..])),
                        "i" => cur = cur.intersection(&parse_operand(&arg[1..])),
                        "u" => cur = cur.union(&parse_operand(&arg[1..])),
                        _ => return "bad-op".to_string(),
                    }
                }
                let tr = truth(&cur);
                let (r, k, y) = (cur.row_count(), cur.skipped_row_count(), cur.selects_any());
                if (r, k, y) != tr {
                    o = Some(format!("final row_count/skipped/selects_any = {}/{}/{} but the rows say {}/{}/{}", r, k, y, tr.0, tr.1, tr.2));
                }
                out.push(format!("r={} k={} y={} {}", r, k, y as u8, show_rs(&cur)));
                out.join(" ")
            });
            oracle = o;
            a
        }
        "read" => {
            let mut o = None;
            let a = guarded(|| {
                let r = run_read(&t[2..]);
                o = r.oracle;
                r.answer
            });
            oracle = o;
            a
        }
        _ => "bad-op".into(),
    };
    (ans, oracle)
}

// ------------------------------------------------------------------ generators

/// run lengths biased to small values, zero and the given boundaries
fn gen_runs(rng: &mut Rng, total: usize, marks: &[usize], zeros: bool) -> Vec<(usize, bool)> {
    let mut out = vec![];
    let mut at = 0usize;
    let mut skip = rng.bool();
    let style = rng.below(5);
    while at < total {
        let left = total - at;
        let mut n = match style {
            // sparse: long skips, one or two selected rows
            4 => if skip { 4 + rng.usize(18) } else { 1 + rng.usize(2) },
            0 => 1 + rng.usize(3),
            1 => 1 + rng.usize(12),
            2 => {
                // end exactly on / next to a boundary
                let next = marks.iter().copied().find(|&m| m > at).unwrap_or(total);
                let d = next - at;
                let alt = 1 + rng.usize(d + 2);
                *rng.pick(&[d, d, d.saturating_sub(1).max(1), d + 1, alt])
            }
            _ => 1 + rng.usize(left.max(1)),
        };
        if zeros && rng.chance(1, 8) {
            n = 0;
        }
        let n = n.min(left);
        out.push((n, skip));
        at += n;
        // mostly alternate, sometimes repeat the kind (exercises merging)
        if !rng.chance(1, 6) {
            skip = !skip;
        }
    }
    if zeros && rng.chance(1, 6) {
        out.push((0, rng.bool()));
    }
    out
}
fn runs_to_r(runs: &[(usize, bool)]) -> String {
    if runs.is_empty() {
        return "R:-".into();
    }
    format!("R:{}", runs.iter().map(|(n, s)| format!("{}{}", if *s { 's' } else { 'k' }, n)).collect::<Vec<_>>().join(","))
}
fn runs_to_m(runs: &[(usize, bool)]) -> String {
    let bits: Vec<bool> = runs.iter().flat_map(|(n, s)| std::iter::repeat(!*s).take(*n)).collect();
    format!("M:{}", show_bits(&bits))
}
fn gen_operand(rng: &mut Rng, total: usize, marks: &[usize]) -> (String, Vec<(usize, bool)>) {
    let runs = match rng.below(10) {
        0 => vec![(total, false)],
        1 => vec![(total, true)],
        _ => gen_runs(rng, total, marks, true),
    };
    if rng.chance(2, 5) { (with_bit_offset(rng, runs_to_m(&runs)), runs) } else { (runs_to_r(&runs), runs) }
}
/// half of the mask operands live at a non-zero (mostly unaligned) bit offset of a larger buffer
fn with_bit_offset(rng: &mut Rng, m: String) -> String {
    if rng.bool() {
        m
    } else {
        format!("M{}:{}", *rng.pick(&[1usize, 3, 7, 8, 9, 13, 63, 64, 65]), &m[2..])
    }
}
fn sel_count(runs: &[(usize, bool)]) -> usize {
    runs.iter().filter(|r| !r.1).map(|r| r.0).sum()
}
fn small_total(rng: &mut Rng) -> usize {
    *rng.pick(&[0usize, 1, 2, 5, 8, 13, 20, 33, 63, 64, 65, 100, 127, 128, 129, 200])
}

/// an operation history on one selection; observers are placed before and after the mutating ops
fn gen_prog(rng: &mut Rng) -> (String, String) {
    // domain like a few row groups; selections often sparse
    let total = *rng.pick(&[0usize, 1, 7, 20, 33, 64, 72, 100, 130]);
    let runs = match rng.below(6) {
        0 => vec![(total, false)],
        1 => vec![(total, true)],
        _ => gen_runs(rng, total, &[], false),
    };
    let mask_backed = rng.chance(3, 4);
    let start = if mask_backed { with_bit_offset(rng, runs_to_m(&runs)) } else { runs_to_r(&runs) };
    let mut bits: Vec<bool> = runs.iter().flat_map(|(n, s)| std::iter::repeat(!*s).take(*n)).collect();
    let mut ops: Vec<String> = vec![];
    let mut tags = std::collections::BTreeSet::new();
    let nops = 1 + rng.usize(6);
    let mut warm = false;
    for _ in 0..nops {
        match rng.below(12) {
            0 | 1 | 2 => {
                ops.push("r".into());
                warm = true;
            }
            3 => {
                ops.push("k".into());
                warm = true;
            }
            4 => ops.push("y".into()),
            5 => ops.push("c".into()),
            6 | 7 | 8 | 9 => {
                // split, biased to run edges, to the popcount (≠ length) and to the ends
                let pop = bits.iter().filter(|b| **b).count();
                let n = match rng.below(5) {
                    0 => pop,
                    1 => *rng.pick(&[0, bits.len(), bits.len() + 1, pop + 1, pop.saturating_sub(1)]),
                    _ => rng.usize(bits.len() + 2),
                };
                let keep_tail = rng.chance(2, 3);
                tags.insert(format!("split:{}:{}", if warm { "warm" } else { "cold" }, if n >= pop && n < bits.len() { "ge-pop-lt-len" } else if n >= bits.len() { "ge-len" } else { "lt-pop" }));
                if keep_tail {
                    ops.push(format!("l{}", n));
                    bits = bits[n.min(bits.len())..].to_vec();
                } else {
                    ops.push(format!("h{}", n));
                    bits.truncate(n);
                }
                // the observer right after the split is what exposes a stale count
                if rng.chance(3, 4) {
                    ops.push((*rng.pick(&["r", "y", "k"])).to_string());
                    if ops.last().unwrap() != "y" { warm = true; }
                }
            }
            10 => {
                let pop = bits.iter().filter(|b| **b).count();
                let (o, ro) = gen_operand(rng, pop, &[]);
                ops.push(format!("a:{}", o));
                let ob: Vec<bool> = ro.iter().flat_map(|(n, s)| std::iter::repeat(!*s).take(*n)).collect();
                let mut j = 0;
                for b in bits.iter_mut() {
                    if *b {
                        *b = ob[j];
                        j += 1;
                    }
                }
                warm = false;
                tags.insert("andthen".to_string());
            }
            _ => {
                let (o, ro) = gen_operand(rng, bits.len(), &[]);
                let ob: Vec<bool> = ro.iter().flat_map(|(n, s)| std::iter::repeat(!*s).take(*n)).collect();
                let inter = rng.bool();
                ops.push(format!("{}:{}", if inter { "i" } else { "u" }, o));
                for (b, x) in bits.iter_mut().zip(ob.iter()) {
                    *b = if inter { *b && *x } else { *b || *x };
                }
                warm = false;
                tags.insert("setop".to_string());
            }
        }
    }
    let line = format!("C06 prog {} {}", start, if ops.is_empty() { "-".to_string() } else { ops.join(";") });
    let t = format!(
        "op:prog bk:{} {} {}",
        if mask_backed { "M" } else { "R" },
        tags.into_iter().collect::<Vec<_>>().join(" "),
        if runs.len() > 1 && ops.len() > 1 { "nt" } else { "" }
    );
    (line, t)
}

/// the public ReadPlanBuilder surface: `plan` (cursor + mask chunks) and `wpred`
/// (`with_predicate_options` over a tape ArrayReader, with and without a match limit)
fn gen_plan(rng: &mut Rng) -> (String, String) {
    let total = small_total(rng);
    let pol = match rng.below(5) {
        0 => "d".to_string(),
        1 | 2 => "s".to_string(),
        3 => "m".to_string(),
        _ => format!("a{}", *rng.pick(&[0usize, 1, 2, 4, 32, 1000])),
    };
    let bs = *rng.pick(&[1usize, 2, 3, 7, 8, 64, 65, 1000]);
    let (sel, runs) = if rng.chance(1, 6) { ("-".to_string(), vec![]) } else { gen_operand(rng, total, &[]) };
    if rng.chance(1, 3) {
        let nt = if runs.len() > 1 { "nt" } else { "" };
        return (format!("C06 plan {} {} {}", sel, pol, bs), format!("op:plan pol:{} {}", &pol[0..1], nt));
    }
    // tape as long as the selection (sometimes longer); predicate with nulls
    let tape = if rng.chance(1, 5) { total + rng.usize(5) } else { total };
    let style = rng.below(4);
    let pv: String = (0..tape)
        .map(|i| match style {
            0 => '1',
            1 => if rng.chance(1, 8) { '1' } else { '0' },
            2 => *rng.pick(&['0', '1', 'n']),
            _ => if i % 3 == 0 { '1' } else { '0' },
        })
        .collect();
    let pv = if pv.is_empty() { "e".to_string() } else { pv };
    let matches = pv.chars().filter(|c| *c == '1').count();
    let (lim, ltag) = match rng.below(5) {
        0 | 1 => ("-".to_string(), "none"),
        2 => ((*rng.pick(&[0usize, 1, matches, matches + 1, matches.saturating_sub(1)])).to_string(), "edge"),
        _ => (rng.usize(matches + 2).to_string(), "some"),
    };
    let nt = if runs.len() > 1 || sel == "-" { "nt" } else { "" };
    (
        format!("C06 wpred {} {} {} {} {} {} {}", sel, pol, bs, tape, pv, lim, tape),
        format!("op:wpred pol:{} wlim:{} wsel:{} {}", &pol[0..1], ltag, if sel == "-" { "none" } else if sel.starts_with('M') { "M" } else { "R" }, nt),
    )
}

fn gen_algebra(rng: &mut Rng) -> (String, String) {
    if rng.chance(1, 5) {
        return gen_prog(rng);
    }
    if rng.chance(1, 6) {
        return gen_plan(rng);
    }
    let total = small_total(rng);
    let kind = |o: &str| if o.starts_with('M') { "M" } else { "R" };
    match rng.below(13) {
        0 => {
            let runs = gen_runs(rng, total, &[], true);
            (format!("C06 from {}", runs_to_r(&runs)), format!("op:from {}", if runs.len() > 2 { "nt" } else { "" }))
        }
        1 => {
            // consecutive ranges; sometimes empty ranges, adjacent ranges, rarely out of order
            let runs = gen_runs(rng, total, &[], true);
            let mut rs = vec![];
            let mut at = 0;
            for (n, skip) in &runs {
                if !*skip {
                    if rng.chance(1, 4) && *n > 1 {
                        let c = 1 + rng.usize(n - 1);
                        rs.push((at, at + c));
                        rs.push((at + c, at + n));
                    } else {
                        rs.push((at, at + n));
                    }
                } else if rng.chance(1, 6) {
                    rs.push((at, at));
                }
                at += n;
            }
            let mut tag = "ok";
            if rs.len() > 1 && rng.chance(1, 12) {
                let i = rng.usize(rs.len() - 1);
                rs.swap(i, i + 1);
                tag = "swapped";
            }
            let s = if rs.is_empty() { "-".into() } else { rs.iter().map(|r| format!("{}-{}", r.0, r.1)).collect::<Vec<_>>().join(",") };
            (format!("C06 ranges {} {}", total, s), format!("op:ranges ranges:{} {}", tag, if rs.len() > 1 { "nt" } else { "" }))
        }
        2 => {
            let nf = rng.usize(4);
            let fs: Vec<String> = (0..nf)
                .map(|_| {
                    let t = small_total(rng).min(40);
                    let runs = gen_runs(rng, t, &[], false);
                    runs_to_m(&runs)[2..].to_string()
                })
                .collect();
            let s = if fs.is_empty() { "none".into() } else { fs.join(";") };
            (format!("C06 filters {}", s), format!("op:filters {}", if nf > 1 { "nt" } else { "" }))
        }
        3 | 4 => {
            let (a, ra) = gen_operand(rng, total, &[]);
            let n = sel_count(&ra);
            // mostly the right length, sometimes off by one / empty
            let (bn, tag) = match rng.below(12) {
                0 => (n + 1, "long"),
                1 if n > 0 => (n - 1, "short"),
                _ => (n, "exact"),
            };
            let (b, rb) = gen_operand(rng, bn, &[]);
            (
                format!("C06 andthen {} {}", a, b),
                format!("op:andthen at:{}{} len:{} {}", kind(&a), kind(&b), tag, if ra.len() > 1 && rb.len() > 1 { "nt" } else { "" }),
            )
        }
        5 | 6 | 7 => {
            let (a, ra) = gen_operand(rng, total, &[]);
            let bt = match rng.below(4) {
                0 => small_total(rng),
                1 => total + 1 + rng.usize(5),
                _ => total,
            };
            let (b, rb) = gen_operand(rng, bt, &[]);
            let op = if rng.bool() { "inter" } else { "union" };
            let rel = if bt == total { "eqlen" } else if bt < total { "rshort" } else { "rlong" };
            (
                format!("C06 {} {} {}", op, a, b),
                format!("op:{} bk:{}{} {} {}", op, kind(&a), kind(&b), rel, if ra.len() > 1 && rb.len() > 1 { "nt" } else { "" }),
            )
        }
        8 => {
            let (a, ra) = gen_operand(rng, total, &[]);
            let mut edges = vec![0, total, total + 1, total + 7];
            let mut at = 0;
            for r in &ra {
                at += r.0;
                edges.push(at);
                edges.push(at.saturating_sub(1));
            }
            let n = if rng.bool() { *rng.pick(&edges) } else { rng.usize(total + 2) };
            (format!("C06 split {} {}", a, n), format!("op:split bk:{} {}", kind(&a), if ra.len() > 1 && n > 0 && n < total { "nt" } else { "" }))
        }
        9 => {
            let (a, ra) = gen_operand(rng, total, &[]);
            (format!("C06 counts {}", a), format!("op:counts bk:{} {}", kind(&a), if ra.len() > 1 { "nt" } else { "" }))
        }
        10 => {
            let (a, ra) = gen_operand(rng, total, &[]);
            let (b, tag) = match rng.below(4) {
                0 => (gen_operand(rng, total, &[]).0, "random"),
                1 => {
                    // same rows, other backing
                    (if a.starts_with('M') { runs_to_r(&ra) } else { runs_to_m(&ra) }, "same-other-backing")
                }
                2 => {
                    // one row flipped / one row longer
                    let mut bits: Vec<bool> = ra.iter().flat_map(|(n, s)| std::iter::repeat(!*s).take(*n)).collect();
                    if !bits.is_empty() && rng.bool() {
                        let i = rng.usize(bits.len());
                        bits[i] = !bits[i];
                    } else {
                        bits.push(rng.bool());
                    }
                    let runs: Vec<(usize, bool)> = bits.iter().map(|b| (1usize, !*b)).collect();
                    (if rng.bool() { runs_to_r(&runs) } else { runs_to_m(&runs) }, "near")
                }
                _ => (if rng.bool() { runs_to_r(&ra) } else { runs_to_m(&ra) }, "same"),
            };
            (format!("C06 eq {} {}", a, b), format!("op:eq eq:{} bk:{}{} {}", tag, kind(&a), kind(&b), if ra.len() > 1 { "nt" } else { "" }))
        }
        11 => {
            let n = rng.usize(4);
            let all_mask = rng.chance(1, 3);
            let items: Vec<String> = (0..n)
                .map(|_| {
                    let t = small_total(rng).min(20);
                    let runs = gen_runs(rng, t, &[], true);
                    if all_mask || rng.bool() { runs_to_m(&runs) } else { runs_to_r(&runs) }
                })
                .collect();
            let s = if items.is_empty() { "none".into() } else { items.join(";") };
            (format!("C06 concat {}", s), format!("op:concat {}", if n > 1 { "nt" } else { "" }))
        }
        _ => {
            if rng.chance(1, 6) {
                let runs = gen_runs(rng, total, &[], false);
                return (format!("C06 runs {}", runs_to_m(&runs)), format!("op:runs {}", if runs.len() > 1 { "nt" } else { "" }));
            }
            // scan_ranges: pages with ascending first rows starting at 0
            let np = 1 + rng.usize(7);
            let mut firsts = vec![0usize];
            for _ in 1..np {
                let step = 1 + rng.usize((total / np).max(1) + 2);
                firsts.push(firsts.last().unwrap() + step);
            }
            // selection over `total` rows: usually covering all pages, sometimes shorter / longer
            let t2 = match rng.below(5) {
                0 => total,
                1 => firsts.last().unwrap() + 1 + rng.usize(5),
                _ => (firsts.last().unwrap() + 1 + rng.usize(8)).max(total),
            };
            let (a, ra) = gen_operand(rng, t2, &firsts);
            (
                format!("C06 scan {} {}", a, show_list(&firsts)),
                format!("op:scan bk:{} pages:{} {}", kind(&a), np.min(4), if ra.len() > 1 && np > 1 { "nt" } else { "" }),
            )
        }
    }
}

const LAYOUTS: &[(&str, &str)] = &[
    ("30,17,25", "5"),
    ("30,17,25", "7d"),
    ("64", "8"),
    ("9,1,9,2", "3d2"),
    ("40,40", "4"),
    ("25,50", "1000d"),
    ("12,12,12,12", "2"),
    ("33", "5d2"),
];

/// more than 1024 rows per row group and per page run: crosses the readers' internal
/// 1024-value batches (levels, dictionary indices, skip loops)
const BIG_LAYOUT: (&str, &str) = ("1500,1200", "300d");

/// the encoding × target-type grid files (2-3 pages of 40 rows per row group; v1 and v2 pages)
const ENC_LAYOUTS: &[(&str, &str)] = &[("80", "40E"), ("80", "40E2"), ("40,80", "40E"), ("40,80", "40E2"), ("100", "25E2")];

/// a complete `read` case line (predicate bitmasks computed from the predicate specs)
#[allow(clippy::too_many_arguments)]
fn mk_read(mode: &str, sizes_s: &str, pg: &str, idx: usize, groups: &[usize], sel: &str, pol: &str, preds: &[&str], off: &str, lim: &str, bs: usize, proj: &str) -> String {
    let sizes = parse_list::<usize>(sizes_s);
    let mut concat: Vec<usize> = vec![];
    for &g in groups {
        let base: usize = sizes[..g].iter().sum();
        concat.extend(base..base + sizes[g]);
    }
    let pmasks: Vec<String> = preds
        .iter()
        .map(|p| {
            let p = parse_pred(p);
            let bits = concat.iter().map(|&i| p.holds(i)).collect::<Vec<_>>();
            if bits.is_empty() { "e".to_string() } else { show_bits(&bits) }
        })
        .collect();
    format!(
        "C06 read {} {} {} {} {} {} {} {} {} {} {} {} {}",
        mode,
        sizes_s,
        pg,
        idx,
        show_list(groups),
        sel,
        pol,
        if preds.is_empty() { "-".to_string() } else { preds.join(";") },
        if pmasks.is_empty() { "-".to_string() } else { pmasks.join(";") },
        off,
        lim,
        bs,
        proj
    )
}

/// the deterministic block of boundary cases emitted in every run (independent of the seed)
fn dense_block() -> Vec<(String, String)> {
    let mut out: Vec<(String, String)> = vec![];
    let bits = |n: usize, f: &dyn Fn(usize) -> bool| -> String { show_bits(&(0..n).map(f).collect::<Vec<_>>()) };
    out.push(("C06 default".into(), "op:default dense".into()));
    // ---- word / byte boundary sizes, boundary bit positions, bit offsets, both backings
    for &n in &[0usize, 1, 7, 8, 9, 63, 64, 65, 127, 128, 129] {
        let pats: Vec<(&str, String)> = vec![
            ("ones", bits(n, &|_| true)),
            ("zeros", bits(n, &|_| false)),
            ("first", bits(n, &|i| i == 0)),
            ("last", bits(n, &|i| i + 1 == n)),
            ("w63", bits(n, &|i| i == 63)),
            ("w64", bits(n, &|i| i == 64)),
            ("alt", bits(n, &|i| i % 2 == 1)),
            ("ends", bits(n, &|i| i == 0 || i + 1 == n)),
        ];
        for (pname, b) in &pats {
            let pop = b.chars().filter(|c| *c == '1').count();
            for k in [0usize, 1, 7, 63, 64] {
                let m = if k == 0 { format!("M:{}", b) } else { format!("M{}:{}", k, b) };
                let tag = format!("dense size:{} pat:{} moff:{}", n, pname, k);
                out.push((format!("C06 counts {}", m), format!("op:counts {}", tag)));
                out.push((format!("C06 runs {}", m), format!("op:runs {}", tag)));
                for sp in [0usize, 1, pop, 63, 64, 65, n.saturating_sub(1), n, n + 1] {
                    out.push((format!("C06 prog {} r;l{};r;y;k", m, sp), format!("op:prog split:warm {}", tag)));
                    out.push((format!("C06 prog {} h{};r;y", m, sp), format!("op:prog split:cold {}", tag)));
                }
                // and_then fast paths and the scatter loop, right / wrong operand length
                let second = [bits(pop, &|_| true), bits(pop, &|_| false), bits(pop, &|i| i % 2 == 0), bits(pop + 1, &|_| true)];
                for o in &second {
                    out.push((format!("C06 andthen {} M:{}", m, o), format!("op:andthen {}", tag)));
                    out.push((format!("C06 andthen {} M3:{}", m, o), format!("op:andthen {}", tag)));
                }
                // set ops with equal / unequal lengths, other operand at another offset
                for (on, ob) in [(n, bits(n, &|i| i % 3 == 0)), (n + 1, bits(n + 1, &|i| i % 3 == 0)), (n / 2, bits(n / 2, &|_| true))] {
                    let _ = on;
                    out.push((format!("C06 inter {} M5:{}", m, ob), format!("op:inter {}", tag)));
                    out.push((format!("C06 union {} M:{}", m, ob), format!("op:union {}", tag)));
                    out.push((format!("C06 eq {} M9:{}", m, ob), format!("op:eq {}", tag)));
                }
                out.push((format!("C06 eq {} M2:{}", m, b), format!("op:eq {}", tag)));
                for bs in [1usize, 64, 65] {
                    out.push((format!("C06 plan {} m {}", m, bs), format!("op:plan {}", tag)));
                }
                out.push((format!("C06 plan {} s 8", m), format!("op:plan {}", tag)));
                // predicate with a match limit at every boundary of the match count
                let pv = bits(n, &|i| i % 2 == 0).replace('0', "n");
                let pv = if pv.is_empty() { "e".to_string() } else { pv };
                for lim in ["-", "0", "1", "2", "1000"] {
                    out.push((format!("C06 wpred {} m 3 {} {} {} {}", m, n, pv, lim, n), format!("op:wpred {}", tag)));
                }
            }
        }
    }
    // ---- encoding × type grid: several select/skip runs inside one page, so that every value
    // decoder's `skip` runs after a prior read and after a prior skip; all columns projected
    for (sizes_s, pg) in ENC_LAYOUTS.iter() {
        let sizes = parse_list::<usize>(sizes_s);
        let groups: Vec<usize> = (0..sizes.len()).collect();
        let total: usize = sizes.iter().sum();
        let pats: Vec<(&str, String)> = vec![
            ("full", "-".to_string()),
            ("read-skip-read", format!("M:{}", bits(total, &|i| matches!(i % 13, 0 | 1 | 2 | 7 | 8)))),
            ("skip-read-skip", format!("M3:{}", bits(total, &|i| matches!(i % 11, 2 | 6 | 7)))),
            ("alt1", format!("M:{}", bits(total, &|i| i % 2 == 0))),
            ("alt2", format!("M1:{}", bits(total, &|i| i % 4 >= 2))),
            ("second-of-page", format!("M:{}", bits(total, &|i| i % 40 == 1 || i % 40 == 38))),
            ("sparse", format!("M:{}", bits(total, &|i| matches!(i, 5 | 17 | 39 | 40 | 41 | 79)))),
            ("runs", "R:k3,s5,k2,s7,k4,s9,k10,s6,k1,s1,k1,s1,k20".to_string()),
        ];
        for (pname, sel) in &pats {
            for pol in ["s", "m"] {
                for bs in [1usize, 4, 1024] {
                    for (mode, idx) in [("sync", 0usize), ("sync", 2), ("push", 2), ("async", 1)] {
                        if mode == "async" && bs != 4 {
                            continue;
                        }
                        let line = mk_read(mode, sizes_s, pg, idx, &groups, sel, pol, &[], "-", "-", bs, "*");
                        out.push((line, format!("op:read:{} dense encgrid epat:{} nt", mode, pname)));
                    }
                }
            }
            // with an offset / limit and a predicate on top
            let line = mk_read("push", sizes_s, pg, 2, &groups, sel, "m", &["i%3=1"], "1", "9", 4, "*");
            out.push((line, format!("op:read:push dense encgrid epat:{} nt", pname)));
        }
    }
    // ---- end to end: boundary selections on every layout, every entry point
    let mut layouts: Vec<(&str, &str)> = LAYOUTS.to_vec();
    layouts.push(BIG_LAYOUT);
    for (li, (sizes_s, pg)) in layouts.iter().enumerate() {
        let sizes = parse_list::<usize>(sizes_s);
        let groups: Vec<usize> = (0..sizes.len()).collect();
        let total: usize = sizes.iter().sum();
        let page = page_rows_of(pg);
        let rg1 = sizes[0];
        let sels: Vec<(&str, String)> = vec![
            ("none", "-".to_string()),
            ("first-row", format!("M:{}", bits(total, &|i| i == 0))),
            ("last-row", format!("M3:{}", bits(total, &|i| i + 1 == total))),
            ("rg-edge", format!("M:{}", bits(total, &|i| i + 1 == rg1 || i == rg1))),
            ("page-firsts", format!("M1:{}", bits(total, &|i| i % page.max(1) == 0))),
            ("sparse-tail", format!("M:{}", bits(total, &|i| i + 2 >= total || i == 1))),
            ("all-but-one", format!("R:k{},s1,k{}", total / 2, total - total / 2 - 1)),
            ("w1024", format!("R:s{},k3,s{}", 1022.min(total.saturating_sub(4)), total.saturating_sub(1022.min(total.saturating_sub(4)) + 3))),
        ];
        for (sname, sel) in &sels {
            for mode in ["sync", "push", "async", "pushr", "push.c0"] {
                for (off, lim) in [("-", "-"), ("1", "1"), ("0", "2"), ("2", "-")] {
                    for pol in ["s", "m"] {
                        // keep the big layout's share small
                        if li == layouts.len() - 1 && (pol == "s" && off != "-") {
                            continue;
                        }
                        let idx = if mode == "sync" { 0 } else { 2 };
                        let preds: Vec<&str> = if mode.contains(".c") || *sname == "none" { vec!["a%2=0"] } else { vec![] };
                        let bs = if pol == "s" { 3 } else { 1000 };
                        let line = mk_read(mode, sizes_s, pg, idx, &groups, sel, pol, &preds, off, lim, bs, "id,a,st,rn");
                        out.push((line, format!("op:read:{} dense dsel:{} layout:{} nt", mode.split('.').next().unwrap(), sname, li)));
                    }
                }
            }
        }
    }
    out
}

fn gen_read(rng: &mut Rng) -> (String, String) {
    let (sizes_s, pg) = if rng.chance(1, 60) {
        BIG_LAYOUT
    } else if rng.chance(1, 5) {
        *rng.pick(ENC_LAYOUTS)
    } else {
        *rng.pick(LAYOUTS)
    };
    let enc = pg.contains('E');
    let sizes = parse_list::<usize>(sizes_s);
    let idx = rng.below(3);
    // row-group choice: all / ordered subset / permuted subset
    let mut groups: Vec<usize> = (0..sizes.len()).collect();
    let gtag;
    match rng.below(4) {
        0 | 1 => gtag = "all",
        2 => {
            groups.retain(|_| rng.chance(2, 3));
            gtag = "subset";
        }
        _ => {
            groups.retain(|_| rng.chance(3, 4));
            for i in (1..groups.len()).rev() {
                let j = rng.usize(i + 1);
                groups.swap(i, j);
            }
            gtag = "permuted";
        }
    }
    let total: usize = groups.iter().map(|g| sizes[*g]).sum();
    let file_rows: usize = sizes.iter().sum();
    // boundaries in the concatenation: row-group edges and page edges
    let page_rows = page_rows_of(pg);
    let mut marks = vec![];
    let mut at = 0;
    for g in &groups {
        let mut p = 0;
        while p < sizes[*g] {
            marks.push(at + p);
            p += page_rows;
        }
        at += sizes[*g];
    }
    marks.push(total);
    marks.sort();
    // selection
    let (sel, stag) = match rng.below(8) {
        0 | 1 => ("-".to_string(), "none"),
        2 => {
            // shorter than the rows read: the rest is not selected
            let t = rng.usize(total + 1);
            let runs = gen_runs(rng, t, &marks, true);
            (if rng.bool() { runs_to_r(&runs) } else { runs_to_m(&runs) }, "short")
        }
        3 if rng.chance(1, 2) => {
            // longer than the rows read (out of the documented domain: error or truncation)
            let t = total + 1 + rng.usize(6);
            let runs = gen_runs(rng, t, &marks, false);
            (if rng.bool() { runs_to_r(&runs) } else { runs_to_m(&runs) }, "long")
        }
        _ => {
            let (o, _) = gen_operand(rng, total, &marks);
            (o, "exact")
        }
    };
    let sel_kind = if sel == "-" { "none" } else if sel.starts_with('M') { "M" } else { "R" };
    let pol = match rng.below(6) {
        0 => "d".to_string(),
        1 | 2 => "s".to_string(),
        3 | 4 => "m".to_string(),
        _ => format!("a{}", *rng.pick(&[0usize, 1, 2, 4, 32, 1000])),
    };
    // predicates
    let np = *rng.pick(&[0usize, 0, 0, 1, 1, 1, 2, 2, 3]);
    let mut preds = vec![];
    let mut pmasks = vec![];
    let mut concat: Vec<usize> = vec![];
    for &g in &groups {
        let base: usize = sizes[..g].iter().sum();
        concat.extend(base..base + sizes[g]);
    }
    for _ in 0..np {
        let col = if enc { "i" } else { *rng.pick(&["i", "a", "s", "l"]) };
        let k = match col {
            "l" => 2 + rng.usize(3),
            "s" => 2 + rng.usize(3),
            _ => *rng.pick(&[1usize, 2, 2, 3, 3, 5, 10, 1000]),
        };
        let r = if k == 1000 { rng.usize(40) } else { rng.usize(k) };
        let spec = format!("{}{}{}={}", col, if rng.bool() { '%' } else { '#' }, k, r);
        let p = parse_pred(&spec);
        let bits = concat.iter().map(|&i| p.holds(i)).collect::<Vec<_>>();
        pmasks.push(if bits.is_empty() { "e".to_string() } else { show_bits(&bits) });
        preds.push(spec);
    }
    let opt = |rng: &mut Rng, hi: usize| -> String {
        match rng.below(6) {
            0 | 1 | 2 => "-".into(),
            3 => (*rng.pick(&[0usize, 1, 1, 2, hi, hi + 1, hi.saturating_sub(1)])).to_string(),
            _ => (1 + rng.usize(hi / 3 + 2)).to_string(),
        }
    };
    let off = opt(rng, total / 2 + 1);
    let lim = opt(rng, total / 2 + 1);
    let bs = *rng.pick(&[1usize, 2, 3, 5, 7, 8, 16, 64, 1000]);
    let mut proj = vec!["id"];
    for c in ["a", "s", "l", "st", "rn"] {
        if rng.chance(1, 3) {
            proj.push(c);
        }
    }
    if enc {
        proj = vec!["*"];
    }
    let mut mode = (*rng.pick(&["sync", "sync", "push", "push", "async", "pushr"])).to_string();
    if mode != "sync" && np > 0 && rng.chance(1, 3) {
        // predicate cache disabled / tiny
        mode = format!("{}.c{}", mode, *rng.pick(&[0usize, 0, 64]));
    }
    let line = format!(
        "C06 read {} {} {} {} {} {} {} {} {} {} {} {} {}",
        mode,
        sizes_s,
        pg,
        idx,
        show_list(&groups),
        sel,
        pol,
        if preds.is_empty() { "-".to_string() } else { preds.join(";") },
        if pmasks.is_empty() { "-".to_string() } else { pmasks.join(";") },
        off,
        lim,
        bs,
        proj.join(",")
    );
    let _ = file_rows;
    let nt = sel != "-" || np > 0 || off != "-" || lim != "-";
    let mode_tag = mode.split('.').next().unwrap().to_string();
    let cache_tag = if mode.contains(".c") { "pcache:limited " } else { "" };
    let tags = format!(
        "{}{}{}op:read:{} groups:{} sel:{}:{} pol:{} preds:{} off:{} lim:{} idx:{} bs:{} proj:{} {}{}",
        if enc { "encgrid " } else { "" },
        cache_tag,
        if proj.contains(&"rn") { "proj:rn " } else { "" },
        mode_tag,
        gtag,
        stag,
        sel_kind,
        &pol[0..1],
        np,
        if off == "-" { "none" } else { "some" },
        if lim == "-" { "none" } else { "some" },
        idx,
        if bs >= total.max(1) { "ge-total" } else { "lt-total" },
        proj.len(),
        if (off != "-" || lim != "-") && groups.len() > 1 { format!("budget:{}-multi-rg ", mode_tag) } else { String::new() },
        if nt { "nt" } else { "" }
    );
    (line, tags)
}

fn main() {
    let args = parse_args();
    if std::env::var("VERIF_LOUD").is_err() {
        quiet_panics();
    }
    let mut sink = Sink::new(&args.out);
    let record = |sink: &mut Sink, line: String, tags: &str| {
        let (a, oracle) = run_case(&line);
        if let Some(what) = oracle {
            sink.oracle_failure(line.clone(), what, tags);
        }
        // a read that returns nothing is not counted as a non-trivial case
        let mut tags = tags.to_string();
        if line.starts_with("C06 read") {
            if a == "ERR:read" {
                tags = format!("{} result:err", tags.replace(" nt", ""));
            } else if a.starts_with("- ") {
                tags = format!("{} result:empty", tags.replace(" nt", ""));
            } else {
                tags.push_str(" result:rows");
            }
        }
        sink.case(line, a, &tags);
    };
    if args.mode == "replay" {
        for line in read_cases(args.replay.as_ref().unwrap()) {
            record(&mut sink, line, "replay");
        }
    } else {
        for (line, tags) in dense_block() {
            record(&mut sink, line, &tags);
        }
        let mut rng = Rng::new(args.seed ^ 0xC06);
        let n_alg = n_cases(&args, 8000, 300000);
        for _ in 0..n_alg {
            let (line, tags) = gen_algebra(&mut rng);
            record(&mut sink, line, &tags);
        }
        let n_read = n_cases(&args, 8000, 300000) / 2;
        for _ in 0..n_read {
            let (line, tags) = gen_read(&mut rng);
            record(&mut sink, line, &tags);
        }
    }
    sink.finish();
}
