fn main() {}
