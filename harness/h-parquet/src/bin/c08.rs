//! C08 correspondence + corruption-search harness, parquet side:
//! thrift compact protocol (through `ParquetMetaDataReader::decode_metadata`), `BitReader`
//! varints, delta header, RLE decoder, and structure-aware corruption of whole Parquet files
//! through the Arrow record-batch reader.
//!
//! Case lines:
//!   C08 tvlq <hex>            thrift varint + zig-zag, observed as `num_rows` of a footer; answer `ok <i64> <bytes consumed>` / `ERR:eof`
//!   C08 tlist <hdr hex> <n>   thrift list header followed by n KeyValue structs, observed as the key/value count
//!   C08 tfield <hex>          unknown fields after field 4 of a footer: read_field_begin (delta / full id / overflow) + skip of scalar types; `ok` / `ERR`
//!   C08 bvlq|bzz <hex>        BitReader::get_vlq_int / get_zigzag_vlq_int
//!   C08 delta <hex>           DeltaBitPackDecoder::<Int64Type>::set_data
//!   C08 rle <bw> <n> <hex>    RleDecoder::get_batch::<u64> of n values           (search only)
//!   C08 tmeta <hex>           decode_metadata on raw bytes                        (search only)
//!   C08 pq <file> <mutation>  corrupted Parquet file through ParquetRecordBatchReader (search only)
//!   C08 pqraw <hex>           the same on explicit bytes                          (search only)
//!   C08 pqsplit <view|utf8>:<plain|dlen|dba|dict>   string column whose page bytes are those of a binary column in which a
//!                             multi-byte character is split across two adjacent values (search only)
//!   C08 variant <id> <m|v>:<mutation>   Variant::try_new on corrupted metadata / value buffers + full traversal (search only)
//!   C08 variantraw <meta hex> <value hex>
//! Every case runs in a worker process under a watchdog and a capping allocator (c08_infra.rs).
use arrow_array::{Array, ArrayRef, BooleanArray, Int32Array, Int64Array, ListArray, RecordBatch, StringArray};
use arrow_array::builder::{Int32Builder, ListBuilder};
use bytes::Bytes;
use parquet::arrow::ArrowWriter;
use parquet::arrow::arrow_reader::{ArrowReaderOptions, ParquetRecordBatchReaderBuilder};
use parquet::basic::{Compression, Encoding, GzipLevel, ZstdLevel, BrotliLevel};
use parquet::data_type::Int64Type;
use parquet::encodings::decoding::{Decoder, DeltaBitPackDecoder};
use parquet::encodings::rle::RleDecoder;
use parquet::errors::ParquetError;
use parquet::file::metadata::{PageIndexPolicy, ParquetMetaDataReader};
use parquet::file::properties::{EnabledStatistics, WriterProperties, WriterVersion};
use parquet::util::bit_util::BitReader;
use vcommon::*;

include!("../c08_infra.rs");

#[global_allocator]
static GLOBAL: CapAlloc = CapAlloc;

// ------------------------------------------------------------------ thrift through decode_metadata

/// version = 1, schema = [root "r" with one child, required INT32 "a"]
const FOOTER_HEAD: &[u8] = &[
    0x15, 0x02, // 1: version = 1
    0x19, 0x2c, // 2: list<struct>, 2 elements
    0x48, 0x01, b'r', 0x15, 0x02, 0x00, // root: 4: name "r", 5: num_children 1
    0x15, 0x02, 0x25, 0x00, 0x18, 0x01, b'a', 0x00, // leaf: 1: type INT32, 3: REQUIRED, 4: name "a"
];

fn err_class(e: &ParquetError) -> &'static str {
    match e {
        ParquetError::EOF(_) => "ERR:eof",
        _ => "ERR:other",
    }
}

fn tvlq(bytes: &[u8]) -> String {
    // 3: num_rows (i64) = <bytes under test>, then 4: row_groups = [] and stop
    let tail: &[u8] = &[0x19, 0x0c, 0x00];
    for k in 1..=bytes.len() {
        let mut f = FOOTER_HEAD.to_vec();
        f.push(0x16);
        f.extend_from_slice(&bytes[..k]);
        f.extend_from_slice(tail);
        if let Ok(m) = ParquetMetaDataReader::decode_metadata(&f) {
            return format!("ok {} {}", m.file_metadata().num_rows(), k);
        }
    }
    let mut f = FOOTER_HEAD.to_vec();
    f.push(0x16);
    f.extend_from_slice(bytes);
    match ParquetMetaDataReader::decode_metadata(&f) {
        Err(e) => err_class(&e).to_string(),
        Ok(_) => "ok-without-tail".to_string(),
    }
}

fn tlist(hdr: &[u8], n: usize) -> String {
    let mut f = FOOTER_HEAD.to_vec();
    f.extend_from_slice(&[0x16, 0x00, 0x19, 0x0c]); // 3: num_rows 0, 4: row_groups []
    f.push(0x19); // 5: key_value_metadata list
    f.extend_from_slice(hdr);
    for _ in 0..n {
        f.extend_from_slice(&[0x18, 0x01, b'k', 0x00]);
    }
    f.push(0x00);
    match ParquetMetaDataReader::decode_metadata(&f) {
        Ok(m) => format!("ok {}", m.file_metadata().key_value_metadata().map(|v| v.len()).unwrap_or(0)),
        Err(e) => {
            // the model distinguishes eof / type / overflow only for the header itself
            let _ = e;
            "ERR".to_string()
        }
    }
}

fn tfield(fields: &[u8]) -> String {
    let mut f = FOOTER_HEAD.to_vec();
    f.extend_from_slice(&[0x16, 0x00, 0x19, 0x0c]); // 3: num_rows 0, 4: row_groups []
    f.extend_from_slice(fields);
    match ParquetMetaDataReader::decode_metadata(&f) {
        Ok(_) => "ok".into(),
        Err(_) => "ERR".into(),
    }
}

// ------------------------------------------------------------------ parquet files

fn validate_batch(b: &RecordBatch) -> Result<(), String> {
    for (i, c) in b.columns().iter().enumerate() {
        if c.len() != b.num_rows() {
            return Err(format!("col{}:len", i));
        }
        c.to_data().validate_full().map_err(|e| {
            if std::env::var("VERIF_LOUD").is_ok() {
                eprintln!("validate_full: column {} ({:?}): {}", i, c.data_type(), e);
            }
            format!("col{}:{}", i, slug(&e.to_string()))
        })?;
    }
    Ok(())
}

fn read_parquet(v: Vec<u8>) -> String {
    let b = Bytes::from(v);
    for page_index in [true, false] {
        let opts = ArrowReaderOptions::new().with_page_index_policy(if page_index { PageIndexPolicy::Required } else { PageIndexPolicy::Skip });
        let builder = match ParquetRecordBatchReaderBuilder::try_new_with_options(b.clone(), opts) {
            Ok(x) => x,
            Err(_) => {
                if page_index {
                    continue;
                } else {
                    return "ERR".into();
                }
            }
        };
        let reader = match builder.with_batch_size(16).build() {
            Ok(r) => r,
            Err(_) => return "ERR".into(),
        };
        let mut rows = 0usize;
        for batch in reader {
            match batch {
                Err(_) => return "ERR".into(),
                Ok(rb) => {
                    if let Err(e) = validate_batch(&rb) {
                        return format!("INVALID:{}", e);
                    }
                    rows += rb.num_rows();
                    if rows > 1_000_000 {
                        return "INVALID:rows-unbounded".into();
                    }
                }
            }
        }
        return format!("ok:{}", rows);
    }
    "ERR".into()
}

/// second and third entry points over the same bytes: the row-oriented record API with the
/// low-level page readers, and the bloom filters
fn read_parquet_lowlevel(v: Vec<u8>) -> String {
    use parquet::file::reader::{FileReader, SerializedFileReader};
    use parquet::file::serialized_reader::ReadOptionsBuilder;
    let props = parquet::file::properties::ReaderProperties::builder().set_read_bloom_filter(true).build();
    let opts = ReadOptionsBuilder::new().with_page_index().with_reader_properties(props).build();
    let r = match SerializedFileReader::new_with_options(Bytes::from(v), opts) {
        Ok(r) => r,
        Err(_) => return "ERR".into(),
    };
    let mut pages = 0usize;
    for g in 0..r.num_row_groups().min(64) {
        let rg = match r.get_row_group(g) {
            Ok(x) => x,
            Err(_) => return "ERR".into(),
        };
        for c in 0..rg.num_columns().min(64) {
            if let Some(bf) = rg.get_column_bloom_filter(c) {
                let _ = bf.check(&1i32) | bf.check(&"a") | bf.check(&1i64);
            }
            if let Ok(mut pr) = rg.get_column_page_reader(c) {
                for _ in 0..10_000 {
                    match pr.get_next_page() {
                        Ok(Some(p)) => pages += p.num_values() as usize & 1,
                        Ok(None) => break,
                        Err(_) => break,
                    }
                }
            }
        }
    }
    let mut rows = 0usize;
    match r.get_row_iter(None) {
        Err(_) => return "ERR".into(),
        Ok(it) => {
            for row in it {
                match row {
                    Err(_) => return "ERR".into(),
                    Ok(row) => {
                        let s = row.to_string();
                        rows += 1 + (s.len() & 0) + (pages & 0);
                        if rows > 1_000_000 {
                            return "INVALID:rows-unbounded".into();
                        }
                    }
                }
            }
        }
    }
    format!("ok:{}", rows)
}

fn sample_batch(rows: usize) -> RecordBatch {
    let i32s: Int32Array = (0..rows).map(|i| if i % 5 == 3 { None } else { Some((i as i32 * 37) % 11 - 3) }).collect();
    let i64s: Int64Array = (0..rows).map(|i| Some(1_000_000_007i64 * i as i64 - 5)).collect();
    let strs: StringArray =
        (0..rows).map(|i| if i % 7 == 2 { None } else { Some(["a", "bb", "héllo", "", "zzzz"][i % 5].to_string()) }).collect();
    let bools: BooleanArray = (0..rows).map(|i| Some(i % 3 == 0)).collect();
    let mut lb = ListBuilder::new(Int32Builder::new());
    for i in 0..rows {
        if i % 4 == 1 {
            lb.append(false);
        } else {
            for j in 0..(i % 3) {
                lb.values().append_value((i + j) as i32);
            }
            lb.append(true);
        }
    }
    let lists: ListArray = lb.finish();
    RecordBatch::try_from_iter_with_nullable(vec![
        ("i", Arc::new(i32s) as ArrayRef, true),
        ("l", Arc::new(i64s) as ArrayRef, false),
        ("s", Arc::new(strs) as ArrayRef, true),
        ("b", Arc::new(bools) as ArrayRef, false),
        ("li", Arc::new(lists) as ArrayRef, true),
    ])
    .unwrap()
}

pub const N_FILES: usize = 10;

/// second column set: the array readers / physical types the first one lacks
/// (float, FLBA decimal + fixed binary, binary, struct, map, Utf8View, dictionary-preserving
/// strings, narrow and unsigned ints, date / timestamp, float16)
fn sample_batch_rich(rows: usize) -> RecordBatch {
    use arrow_array::builder::{MapBuilder, StringBuilder, StringDictionaryBuilder, StringViewBuilder};
    use arrow_array::types::Int32Type;
    use arrow_array::{BinaryArray, Date32Array, Decimal128Array, FixedSizeBinaryArray, Float16Array, Float64Array, Int8Array, StructArray, TimestampMillisecondArray, UInt64Array};
    use arrow_schema::{DataType, Field};
    let f64s: Float64Array = (0..rows).map(|i| if i % 4 == 1 { None } else { Some(i as f64 * -1.25e100) }).collect();
    let f16s: Float16Array = (0..rows).map(|i| Some(half::f16::from_f32(i as f32 * 0.5))).collect();
    let bins: BinaryArray = (0..rows).map(|i| if i % 3 == 2 { None } else { Some(vec![i as u8; i % 4]) }).collect();
    let fixed = FixedSizeBinaryArray::try_from_iter((0..rows).map(|i| vec![i as u8; 5])).unwrap();
    let dec = Decimal128Array::from_iter_values((0..rows).map(|i| i as i128 * 1_000_000_000_003 - 7)).with_precision_and_scale(20, 3).unwrap();
    let dec_small = Decimal128Array::from_iter_values((0..rows).map(|i| i as i128 - 3)).with_precision_and_scale(5, 1).unwrap();
    let d32: Date32Array = (0..rows).map(|i| Some(i as i32 * 365 - 1000)).collect();
    let ts = TimestampMillisecondArray::from_iter_values((0..rows).map(|i| i as i64 * 1_000_000_007));
    let i8s: Int8Array = (0..rows).map(|i| Some((i as i8).wrapping_mul(17))).collect();
    let u64s: UInt64Array = (0..rows).map(|i| Some(u64::MAX - i as u64)).collect();
    let x: Int64Array = (0..rows).map(|i| Some(i as i64)).collect();
    let y: StringArray = (0..rows).map(|i| if i % 2 == 0 { Some("yy") } else { None }).collect();
    let st = StructArray::from(vec![
        (Arc::new(Field::new("x", DataType::Int64, true)), Arc::new(x) as ArrayRef),
        (Arc::new(Field::new("y", DataType::Utf8, true)), Arc::new(y) as ArrayRef),
    ]);
    let mut mb = MapBuilder::new(None, StringBuilder::new(), Int32Builder::new());
    for i in 0..rows {
        for j in 0..(i % 3) {
            mb.keys().append_value(format!("k{}", j));
            mb.values().append_value((i + j) as i32);
        }
        mb.append(i % 5 != 4).unwrap();
    }
    let mut sv = StringViewBuilder::new();
    let mut db = StringDictionaryBuilder::<Int32Type>::new();
    for i in 0..rows {
        sv.append_value(["short", "a string that is longer than twelve bytes", "", "exactly12byt"][i % 4]);
        db.append_value(["RED", "GREEN", "BLUE"][i % 3]);
    }
    RecordBatch::try_from_iter_with_nullable(vec![
        ("f64", Arc::new(f64s) as ArrayRef, true),
        ("f16", Arc::new(f16s) as ArrayRef, false),
        ("bin", Arc::new(bins) as ArrayRef, true),
        ("fx", Arc::new(fixed) as ArrayRef, false),
        ("dec", Arc::new(dec) as ArrayRef, false),
        ("dec5", Arc::new(dec_small) as ArrayRef, false),
        ("d", Arc::new(d32) as ArrayRef, true),
        ("ts", Arc::new(ts) as ArrayRef, false),
        ("i8", Arc::new(i8s) as ArrayRef, false),
        ("u64", Arc::new(u64s) as ArrayRef, false),
        ("st", Arc::new(st) as ArrayRef, false),
        ("m", Arc::new(mb.finish()) as ArrayRef, true),
        ("sv", Arc::new(sv.finish()) as ArrayRef, false),
        ("dict", Arc::new(db.finish()) as ArrayRef, false),
    ])
    .unwrap()
}

/// base files are built once per process
fn base_file(id: usize) -> Vec<u8> {
    static FILES: std::sync::OnceLock<Vec<Vec<u8>>> = std::sync::OnceLock::new();
    FILES.get_or_init(|| (0..N_FILES).map(build_base_file).collect())[id % N_FILES].clone()
}

/// deterministic valid base files: encodings × codecs × page versions
fn build_base_file(id: usize) -> Vec<u8> {
    let rows = 24;
    let mut p = WriterProperties::builder().set_statistics_enabled(EnabledStatistics::Page).set_data_page_row_count_limit(10).set_write_batch_size(5);
    p = match id {
        0 => p.set_compression(Compression::UNCOMPRESSED).set_dictionary_enabled(false),
        1 => p.set_compression(Compression::SNAPPY).set_dictionary_enabled(true),
        2 => p
            .set_compression(Compression::ZSTD(ZstdLevel::try_new(1).unwrap()))
            .set_writer_version(WriterVersion::PARQUET_2_0)
            .set_dictionary_enabled(false)
            .set_column_encoding("i".into(), Encoding::DELTA_BINARY_PACKED)
            .set_column_encoding("l".into(), Encoding::DELTA_BINARY_PACKED),
        3 => p.set_compression(Compression::GZIP(GzipLevel::try_new(1).unwrap())).set_writer_version(WriterVersion::PARQUET_2_0).set_dictionary_enabled(true),
        4 => p.set_compression(Compression::LZ4_RAW).set_dictionary_enabled(false).set_column_encoding("s".into(), Encoding::DELTA_BYTE_ARRAY),
        5 => p.set_compression(Compression::BROTLI(BrotliLevel::try_new(1).unwrap())).set_dictionary_enabled(false).set_column_encoding("s".into(), Encoding::DELTA_LENGTH_BYTE_ARRAY),
        6 => p.set_compression(Compression::UNCOMPRESSED).set_writer_version(WriterVersion::PARQUET_2_0).set_dictionary_enabled(true).set_bloom_filter_enabled(true),
        8 => p.set_compression(Compression::LZ4).set_dictionary_enabled(true),
        9 => p.set_compression(Compression::UNCOMPRESSED).set_writer_version(WriterVersion::PARQUET_2_0).set_dictionary_enabled(false),
        _ => p.set_compression(Compression::UNCOMPRESSED).set_dictionary_enabled(false).set_column_encoding("l".into(), Encoding::BYTE_STREAM_SPLIT).set_statistics_enabled(EnabledStatistics::None),
    };
    let batch = if id >= 8 { sample_batch_rich(rows) } else { sample_batch(rows) };
    let mut out = Vec::new();
    {
        let mut w = ArrowWriter::try_new(&mut out, batch.schema(), Some(p.build())).unwrap();
        w.write(&batch).unwrap();
        if id % 2 == 1 {
            w.flush().unwrap(); // second row group
            w.write(&batch.slice(3, 9)).unwrap();
        }
        w.close().unwrap();
    }
    out
}

/// apply a mutation spec to a file:
///   set:<off>:<hex byte>   xor:<off>:<hex mask>   trunc:<len>
///   splice:<off>:<del>:<hex>            (length changes; nothing fixed up)
///   fsplice:<off>:<del>:<hex>           (footer length field adjusted when the edit is inside the footer)
///   cross:<other file>:<src off>:<len>:<dst off>   (overwrite with bytes of another base file)
///   le32:<off>:<i64 value>              (write a little-endian u32)
fn mutate(mut f: Vec<u8>, spec: &str, files: &dyn Fn(usize) -> Vec<u8>) -> Vec<u8> {
    let t: Vec<&str> = spec.split(':').collect();
    let us = |s: &str| s.parse::<usize>().unwrap_or(0);
    match t[0] {
        "set" => {
            let o = us(t[1]);
            if o < f.len() {
                f[o] = u8::from_str_radix(t[2], 16).unwrap_or(0);
            }
        }
        "xor" => {
            let o = us(t[1]);
            if o < f.len() {
                f[o] ^= u8::from_str_radix(t[2], 16).unwrap_or(0);
            }
        }
        "trunc" => f.truncate(us(t[1])),
        "splice" | "fsplice" => {
            let (o, d) = (us(t[1]).min(f.len()), us(t[2]));
            let ins = unhex(t[3]);
            let e = (o + d).min(f.len());
            let n = f.len();
            if t[0] == "fsplice" && n >= 8 {
                let flen = u32::from_le_bytes([f[n - 8], f[n - 7], f[n - 6], f[n - 5]]) as usize;
                if flen + 8 <= n && o >= n - 8 - flen && e <= n - 8 {
                    let nl = (flen + ins.len() - (e - o)) as u32;
                    f[n - 8..n - 4].copy_from_slice(&nl.to_le_bytes());
                }
            }
            f.splice(o..e, ins);
        }
        "cross" => {
            let other = files(us(t[1]));
            let (so, l, d) = (us(t[2]), us(t[3]), us(t[4]));
            for i in 0..l {
                if so + i < other.len() && d + i < f.len() {
                    f[d + i] = other[so + i];
                }
            }
        }
        "le32" => {
            let o = us(t[1]);
            let v = t[2].parse::<i64>().unwrap_or(0) as u32;
            if o + 4 <= f.len() {
                f[o..o + 4].copy_from_slice(&v.to_le_bytes());
            }
        }
        _ => {}
    }
    f
}



/// A file for a string column `c` (Utf8View or Utf8) whose data pages are taken from the file of a
/// binary column with the same total bytes, in which "é" is split across two adjacent values:
/// the concatenation of the values is valid UTF-8, the individual values are not.
fn split_char_file(spec: &str) -> Option<Vec<u8>> {
    use arrow_array::{BinaryArray, BinaryViewArray, StringViewArray};
    let (kind, enc) = spec.split_once(':')?;
    // same length deltas / dictionary shape in both files, so the page bytes are interchangeable
    let strings = ["é", "x", "é", "x"];
    let binaries: [&[u8]; 4] = [&[0xc3], &[0xa9, b'x'], &[0xc3], &[0xa9, b'x']];
    let (a, b): (ArrayRef, ArrayRef) = if kind == "view" {
        (Arc::new(StringViewArray::from_iter_values(strings)), Arc::new(BinaryViewArray::from_iter_values(binaries)))
    } else {
        (Arc::new(StringArray::from_iter_values(strings)), Arc::new(BinaryArray::from_iter_values(binaries)))
    };
    let write = |col: ArrayRef| -> Vec<u8> {
        let mut p = WriterProperties::builder().set_statistics_enabled(EnabledStatistics::None).set_compression(Compression::UNCOMPRESSED);
        p = match enc {
            "dlen" => p.set_dictionary_enabled(false).set_encoding(Encoding::DELTA_LENGTH_BYTE_ARRAY),
            "dba" => p.set_dictionary_enabled(false).set_encoding(Encoding::DELTA_BYTE_ARRAY),
            "dict" => p.set_dictionary_enabled(true),
            _ => p.set_dictionary_enabled(false).set_encoding(Encoding::PLAIN),
        };
        let batch = RecordBatch::try_from_iter_with_nullable(vec![("c", col, false)]).unwrap();
        let mut out = Vec::new();
        let mut w = ArrowWriter::try_new(&mut out, batch.schema(), Some(p.build())).unwrap();
        w.write(&batch).unwrap();
        w.close().unwrap();
        out
    };
    let (fa, fb) = (write(a), write(b));
    let start = |f: &[u8]| {
        let n = f.len();
        n - 8 - u32::from_le_bytes([f[n - 8], f[n - 7], f[n - 6], f[n - 5]]) as usize
    };
    let (sa, sb) = (start(&fa), start(&fb));
    if sa != sb {
        return None;
    }
    let mut out = fa.clone();
    out[4..sa].copy_from_slice(&fb[4..sb]);
    Some(out)
}

// ------------------------------------------------------------------ Variant binary format

pub const N_VARIANTS: usize = 6;
fn build_variant(id: usize) -> (Vec<u8>, Vec<u8>) {
    use parquet_variant::{Variant, VariantBuilder, VariantDecimal4};
    let mut b = VariantBuilder::new();
    match id {
        0 => {
            let mut o = b.new_object();
            o.insert("name", "héllo wörld, a string longer than the short-string limit of sixty-three bytes .......");
            o.insert("id", 12345678901i64);
            o.insert("ok", true);
            o.insert("pi", 3.25f64);
            o.insert("s", "short");
            {
                let mut l = o.new_list("tags");
                l.append_value(1i8);
                l.append_value("two");
                l.append_value(Variant::Null);
                l.append_value(VariantDecimal4::try_new(1234, 2).unwrap());
                l.finish();
            }
            {
                let mut inner = o.new_object("nested");
                inner.insert("x", 1i32);
                inner.insert("y", -2i16);
                inner.finish();
            }
            o.finish();
        }
        1 => {
            let mut l = b.new_list();
            for i in 0..40i32 {
                l.append_value(i * 1000);
            }
            for i in 0..5 {
                let mut o = l.new_object();
                o.insert("k", i as i64);
                o.insert("v", "vvvvvvvv");
                o.finish();
            }
            l.finish();
        }
        2 => {
            // many field names: wide offsets / large dictionary
            let names: Vec<String> = (0..300).map(|i| format!("field_{:03}", i)).collect();
            let mut o = b.new_object();
            for (i, n) in names.iter().enumerate() {
                o.insert(n, i as i32);
            }
            o.finish();
        }
        3 => {
            b.append_value(&b"\x00\x01binary\xff"[..]);
        }
        5 => {
            // unsorted multi-byte dictionary that the value does not reference (unused entries)
            let mut b2 = VariantBuilder::new().with_field_names(["zé", "aß", "mü€", "日本"]);
            b2.append_value(7i8);
            return b2.finish();
        }
        _ => {
            // unsorted dictionary with multi-byte field names (insertion order is not sorted)
            let mut o = b.new_object();
            o.insert("zé", 1i8);
            o.insert("aß", "x");
            o.insert("mü€", 2.5f32);
            o.insert("日本", false);
            o.finish();
        }
    }
    b.finish()
}
fn base_variant(id: usize) -> (Vec<u8>, Vec<u8>) {
    static V: std::sync::OnceLock<Vec<(Vec<u8>, Vec<u8>)>> = std::sync::OnceLock::new();
    V.get_or_init(|| (0..N_VARIANTS).map(build_variant).collect())[id % N_VARIANTS].clone()
}

/// full traversal of a validated variant: every field name, every element, every scalar rendered
fn walk_variant(v: &parquet_variant::Variant, depth: usize, budget: &mut usize) -> Result<(), String> {
    use parquet_variant::Variant;
    if *budget == 0 {
        return Err("INVALID:traversal-unbounded".into());
    }
    *budget -= 1;
    if depth > 2000 {
        return Err("INVALID:depth".into());
    }
    match v {
        Variant::Object(o) => {
            let n = o.len();
            for (name, child) in o.iter() {
                let _ = name.len();
                walk_variant(&child, depth + 1, budget)?;
            }
            for i in 0..n {
                let _ = o.field_name(i);
                let _ = o.field(i);
            }
            if let Some((name, _)) = o.iter().next() {
                let _ = o.get(name);
            }
            let _ = o.get("no-such-field");
        }
        Variant::List(l) => {
            for child in l.iter() {
                walk_variant(&child, depth + 1, budget)?;
            }
            let _ = l.get(l.len());
        }
        other => {
            let s = format!("{:?}", other);
            let _ = s.len();
        }
    }
    Ok(())
}

fn read_variant(meta: &[u8], value: &[u8]) -> String {
    match parquet_variant::Variant::try_new(meta, value) {
        Err(_) => "ERR".into(),
        Ok(v) => {
            // the metadata dictionary of an accepted variant: every entry through every accessor
            if let Ok(md) = parquet_variant::VariantMetadata::try_new(meta) {
                let n = md.len();
                let mut total = 0usize;
                for i in 0..n.min(100_000) {
                    total += md[i].len();
                }
                total += md.iter().take(100_000).map(|s| s.len()).sum::<usize>();
                let _ = md.get_entry("a");
                let _ = md.get_entry("no-such-field");
                let _ = total;
            }
            let mut budget = 2_000_000usize;
            match walk_variant(&v, 0, &mut budget) {
                Ok(()) => "ok".into(),
                Err(e) => e,
            }
        }
    }
}

// ------------------------------------------------------------------ run one case (in the worker)

fn run_case(line: &str) -> String {
    let t: Vec<&str> = line.split(' ').collect();
    if t.len() < 2 || t[0] != "C08" {
        return "bad-case".into();
    }
    let arg = |i: usize| t.get(i).copied().unwrap_or("-");
    match t[1] {
        "tvlq" => {
            let b = unhex(arg(2));
            guarded(move || tvlq(&b))
        }
        "tlist" => {
            let b = unhex(arg(2));
            let n = arg(3).parse::<usize>().unwrap_or(0);
            guarded(move || tlist(&b, n))
        }
        "tfield" => {
            let b = unhex(arg(2));
            guarded(move || tfield(&b))
        }
        "bvlq" | "bzz" => {
            let b = unhex(arg(2));
            let zz = t[1] == "bzz";
            guarded(move || {
                let mut r = BitReader::new(Bytes::from(b));
                let v = if zz { r.get_zigzag_vlq_int() } else { r.get_vlq_int() };
                match v {
                    None => "none".into(),
                    Some(v) => format!("ok {} {}", v, r.get_byte_offset()),
                }
            })
        }
        "delta" => {
            let b = unhex(arg(2));
            guarded(move || {
                let mut d = DeltaBitPackDecoder::<Int64Type>::new();
                match d.set_data(Bytes::from(b), 0) {
                    Ok(()) => "ok".into(),
                    Err(_) => "ERR".into(),
                }
            })
        }
        "rle" => {
            let bw = arg(2).parse::<u8>().unwrap_or(1).min(64);
            let n = arg(3).parse::<usize>().unwrap_or(0).min(1 << 16);
            let b = unhex(arg(4));
            guarded(move || {
                let mut d = RleDecoder::new(bw);
                if d.set_data(Bytes::from(b)).is_err() {
                    return "ERR".into();
                }
                let mut out = vec![0u64; n];
                match d.get_batch::<u64>(&mut out) {
                    Ok(k) => {
                        if k > n {
                            return "INVALID:count".into();
                        }
                        format!("ok:{}", k)
                    }
                    Err(_) => "ERR".into(),
                }
            })
        }
        "tmeta" => {
            let b = unhex(arg(2));
            guarded(move || match ParquetMetaDataReader::decode_metadata(&b) {
                Ok(_) => "ok".into(),
                Err(_) => "ERR".into(),
            })
        }
        "pq" => {
            let id = arg(2).trim_start_matches('f').parse::<usize>().unwrap_or(0) % N_FILES;
            let spec = arg(3).to_string();
            guarded(move || {
                let f = mutate(base_file(id), &spec, &|i| base_file(i % N_FILES));
                // the record API / page readers / bloom filters run on every third offset
                let off = spec.split(':').nth(1).and_then(|x| x.parse::<usize>().ok()).unwrap_or(0);
                let a = read_parquet(f.clone());
                if a.starts_with("INVALID") || off % 3 != 0 {
                    return a;
                }
                let b = read_parquet_lowlevel(f);
                if b.starts_with("INVALID") { b } else { format!("{}/{}", a, b) }
            })
        }
        "pqraw" => {
            let b = unhex(arg(2));
            guarded(move || {
                let a = read_parquet(b.clone());
                let c = read_parquet_lowlevel(b);
                if c.starts_with("INVALID") { c } else { format!("{}/{}", a, c) }
            })
        }
        "pqsplit" => {
            let spec = arg(2).to_string();
            guarded(move || match split_char_file(&spec) {
                None => "harness-error:layouts-differ".into(),
                Some(f) => {
                    let a = read_parquet(f.clone());
                    if a.starts_with("INVALID") {
                        return a;
                    }
                    let c = read_parquet_lowlevel(f);
                    if c.starts_with("INVALID") { c } else { format!("{}/{}", a, c) }
                }
            })
        }
        "variant" => {
            let id = arg(2).trim_start_matches('v').parse::<usize>().unwrap_or(0) % N_VARIANTS;
            let spec = arg(3).to_string();
            guarded(move || {
                let (mut m, mut v) = base_variant(id);
                let other = |i: usize| {
                    let (a, b) = base_variant(i % N_VARIANTS);
                    [a, b].concat()
                };
                if let Some(sp) = spec.strip_prefix("m:") {
                    m = mutate(m, sp, &other);
                } else if let Some(sp) = spec.strip_prefix("v:") {
                    v = mutate(v, sp, &other);
                }
                read_variant(&m, &v)
            })
        }
        "variantraw" => {
            let (m, v) = (unhex(arg(2)), unhex(arg(3)));
            guarded(move || read_variant(&m, &v))
        }
        _ => "bad-op".into(),
    }
}

// ------------------------------------------------------------------ generators (parent)

fn uleb(mut v: u64) -> Vec<u8> {
    let mut o = vec![];
    while v >= 0x80 {
        o.push(v as u8 | 0x80);
        v >>= 7;
    }
    o.push(v as u8);
    o
}

/// varint-shaped byte strings: canonical, padded (over-long), truncated, overflowing, all-ones
fn gen_varint(rng: &mut Rng) -> (Vec<u8>, &'static str) {
    let v = match rng.below(6) {
        0 => rng.below(300),
        1 => 1u64 << rng.below(64),
        2 => (1u64 << rng.below(64)).wrapping_sub(1),
        3 => u64::MAX - rng.below(3),
        4 => rng.next_u64() >> rng.below(64),
        _ => rng.next_u64(),
    };
    let mut b = uleb(v);
    let class = match rng.below(10) {
        0 | 1 | 2 | 3 => "canon",
        4 => {
            // pad with 0x80 … 0x00 up to a random total length (over-long)
            let total = b.len() + 1 + rng.usize(12);
            let n = b.len();
            b[n - 1] |= 0x80;
            while b.len() < total - 1 {
                b.push(0x80);
            }
            b.push(0x00);
            "padded"
        }
        5 => {
            let k = rng.usize(b.len());
            b.truncate(k);
            for x in b.iter_mut() {
                *x |= 0x80;
            }
            "truncated"
        }
        6 => {
            // ten or eleven bytes with a large last byte (overflow)
            let n = 9 + rng.usize(3);
            b = (0..n).map(|_| 0x80 | rng.next_u64() as u8).collect();
            b.push(rng.below(0x80) as u8);
            "overflow"
        }
        7 => {
            let n = rng.usize(14);
            b = vec![0xff; n];
            if rng.bool() {
                b.push(*rng.pick(&[0x00u8, 0x01, 0x02, 0x7f]));
            }
            "ones"
        }
        8 => {
            b = { let n_ = rng.usize(13); rng.bytes(n_) };
            "random"
        }
        _ => {
            b.extend({ let n_ = rng.usize(4); rng.bytes(n_) });
            "trailing"
        }
    };
    (b, class)
}

fn nt_varint(b: &[u8]) -> &'static str {
    if b.len() >= 2 { "nt" } else { "" }
}

fn gen_unit(rng: &mut Rng) -> (String, String, usize) {
    if rng.chance(1, 10) {
        return gen_tfield(rng);
    }
    match rng.below(9) {
        0 | 1 => {
            let (b, c) = gen_varint(rng);
            (format!("C08 tvlq {}", hex(&b)), format!("op:tvlq vc:{} {}", c, nt_varint(&b)), b.len())
        }
        2 => {
            // list header: short form, long form (canonical / padded / > i32::MAX), bad types
            let ty = *rng.pick(&[12u8, 12, 12, 12, 1, 2, 8, 0, 14, 15, 9]);
            let (mut hdr, n, c);
            match rng.below(6) {
                0 | 1 => {
                    let k = rng.below(15) as u8;
                    hdr = vec![(k << 4) | ty];
                    n = k as usize;
                    c = "short";
                }
                2 => {
                    let k = rng.below(40) as usize;
                    hdr = vec![0xf0 | ty];
                    hdr.extend(uleb(k as u64));
                    n = k;
                    c = "long";
                }
                3 => {
                    let k = rng.below(20) as usize;
                    hdr = vec![0xf0 | ty];
                    let mut v = uleb(k as u64);
                    let l = v.len();
                    v[l - 1] |= 0x80;
                    for _ in 0..rng.usize(10) {
                        v.push(0x80);
                    }
                    v.push(0);
                    hdr.extend(v);
                    n = k;
                    c = "long-padded";
                }
                4 => {
                    hdr = vec![0xf0 | ty];
                    hdr.extend(uleb((1u64 << 31) + rng.below(5) - 2 + (rng.below(2) << 40)));
                    n = 0;
                    c = "long-huge";
                }
                _ => {
                    let k = 1 + rng.below(14) as u8;
                    hdr = vec![(k << 4) | ty];
                    n = rng.usize(k as usize);
                    c = "short-missing";
                }
            }
            let nn = if c == "long-huge" { 0 } else { n };
            (format!("C08 tlist {} {}", hex(&hdr), nn), format!("op:tlist lc:{} ty:{} nt", c, ty), hdr.len() + 4 * nn)
        }
        3 | 4 => {
            let (b, c) = gen_varint(rng);
            let op = if rng.bool() { "bvlq" } else { "bzz" };
            (format!("C08 {} {}", op, hex(&b)), format!("op:{} vc:{} {}", op, c, nt_varint(&b)), b.len())
        }
        5 => {
            // delta header: block size, miniblocks, count, first value
            let bs = *rng.pick(&[128u64, 256, 128, 100, 0, 1 << 40, u64::MAX]);
            let mb = *rng.pick(&[4u64, 4, 1, 8, 3, 0, 128, 1 << 33]);
            let mut b = uleb(bs);
            b.extend(uleb(mb));
            b.extend(uleb(rng.below(1000)));
            let (fv, c) = gen_varint(rng);
            b.extend(fv);
            if rng.chance(1, 6) {
                let k = rng.usize(b.len() + 1);
                b.truncate(k);
            }
            if rng.chance(1, 8) {
                b = vec![0xff; 9 + rng.usize(4)];
            }
            (format!("C08 delta {}", hex(&b)), format!("op:delta vc:{} nt", c), b.len())
        }
        6 | 7 => {
            // RLE stream: mostly valid runs with corrupted indicator varints
            let bw = *rng.pick(&[1u8, 2, 3, 7, 8, 9, 16, 31, 32, 33, 64, 0]);
            let mut b = vec![];
            for _ in 0..1 + rng.usize(4) {
                if rng.bool() {
                    b.extend(uleb(rng.below(20) << 1)); // rle run
                    b.extend(rng.bytes((bw as usize).div_ceil(8)));
                } else {
                    let groups = 1 + rng.below(3);
                    b.extend(uleb((groups << 1) | 1));
                    b.extend(rng.bytes(groups as usize * bw as usize));
                }
            }
            match rng.below(5) {
                0 => {
                    let (v, _) = gen_varint(rng);
                    let at = rng.usize(b.len() + 1);
                    b.splice(at..at, v);
                }
                1 => {
                    let k = rng.usize(b.len() + 1);
                    b.truncate(k);
                }
                2 => b = [uleb(u64::MAX >> rng.below(3)), rng.bytes(8)].concat(),
                _ => {}
            }
            let n = *rng.pick(&[0usize, 1, 8, 33, 100, 1000]);
            (format!("C08 rle {} {} {}", bw, n, hex(&b)), format!("op:rle bw:{} nt", bw), b.len())
        }
        _ => {
            // raw footer fragments around the fixed head
            let mut f = FOOTER_HEAD.to_vec();
            let extra = match rng.below(4) {
                0 => { let n_ = rng.usize(12); rng.bytes(n_) },
                1 => [vec![0x16, 0x00, 0x19, 0x0c], { let n_ = rng.usize(8); rng.bytes(n_) }].concat(),
                2 => vec![0x16, 0x00, 0x19, 0x0c, 0x19, 0xfc, 0x03],
                _ => vec![0x16, 0x00, 0x19, 0x0c, 0x00],
            };
            f.extend(extra);
            if rng.chance(1, 3) {
                let i = rng.usize(f.len());
                f[i] = rng.next_u64() as u8;
            }
            (format!("C08 tmeta {}", hex(&f)), "op:tmeta nt".to_string(), f.len())
        }
    }
}


fn zz16(v: i64) -> Vec<u8> {
    uleb(((v << 1) ^ (v >> 63)) as u64)
}

/// one unknown field: header byte (delta or full id), scalar payload; `class` for the histogram
fn gen_field(rng: &mut Rng, out: &mut Vec<u8>) {
    let ty = *rng.pick(&[1u8, 2, 3, 4, 5, 6, 7, 8, 13, 1, 2, 5]);
    match rng.below(4) {
        0 => {
            out.push(ty); // delta 0: full zig-zag id follows
            out.extend(zz16(*rng.pick(&[10i64, 100, 127, 128, 32766, 32767, 32768, -1, 65546, 40000])));
        }
        _ => out.push(((1 + rng.below(15) as u8) << 4) | ty),
    }
    match ty {
        3 => out.push(rng.next_u64() as u8),
        4 | 5 | 6 => out.extend(gen_varint(rng).0),
        7 => out.extend(rng.bytes(8)),
        8 => {
            let n = rng.usize(5);
            out.extend(uleb(n as u64));
            out.extend(rng.bytes(n));
        }
        13 => out.extend(rng.bytes(16)),
        _ => {}
    }
}

fn gen_tfield(rng: &mut Rng) -> (String, String, usize) {
    let mut b = vec![];
    // first field jumps beyond the ids FileMetaData knows
    b.push(0x01);
    b.extend(zz16(*rng.pick(&[10i64, 20, 32000, 32760, 32766, 32767])));
    for _ in 0..rng.usize(6) {
        gen_field(rng, &mut b);
    }
    let class = match rng.below(6) {
        0 => {
            let k = rng.usize(b.len() + 1);
            b.truncate(k);
            "truncated"
        }
        1 => {
            b.push(0xf0 | 1); // delta 15
            b.push(0xf0 | 2);
            b.push(0x00);
            "big-deltas"
        }
        2 => {
            b.push(*rng.pick(&[0x10u8, 0xf0, 0x0e, 0x1f, 0x19, 0x1c, 0x1b])); // stop-with-delta, bad type, containers
            b.push(0x00);
            "odd-type"
        }
        _ => {
            b.push(0x00);
            "stop"
        }
    };
    (format!("C08 tfield {}", hex(&b)), format!("op:tfield fc:{} nt", class), b.len())
}

/// fixed block of boundary cases, generated in code and run in every tier (dense, not random):
/// varint length x last byte x filler for every varint reader, every list header byte,
/// powers of two around the 7-bit group and integer-width boundaries, delta header grid.
fn dense_units() -> Vec<(String, String, usize)> {
    let mut v = vec![];
    for len in 1..=12usize {
        for last in [0x00u8, 0x01, 0x02, 0x7f] {
            for fill in [0x80u8, 0xff, 0x81] {
                let mut b = vec![fill; len - 1];
                b.push(last);
                for op in ["tvlq", "bvlq", "bzz"] {
                    v.push((format!("C08 {} {}", op, hex(&b)), format!("op:{} dense:len{} nt", op, len), b.len()));
                }
            }
        }
    }
    for k in [6u32, 7, 8, 13, 14, 15, 20, 21, 22, 27, 28, 29, 30, 31, 32, 33, 34, 35, 36, 41, 42, 43, 48, 49, 50, 55, 56, 57, 62, 63] {
        for d in [-1i64, 0, 1] {
            let val = (1u64 << k).wrapping_add(d as u64);
            let b = uleb(val);
            for op in ["tvlq", "bvlq", "bzz"] {
                v.push((format!("C08 {} {}", op, hex(&b)), format!("op:{} dense:pow2 nt", op), b.len()));
            }
        }
    }
    for b in [uleb(u64::MAX), uleb(u64::MAX - 1), uleb(i64::MAX as u64), uleb(i64::MAX as u64 + 1)] {
        for op in ["tvlq", "bvlq", "bzz"] {
            v.push((format!("C08 {} {}", op, hex(&b)), format!("op:{} dense:max nt", op), b.len()));
        }
    }
    // every list header byte; the element count equals the size nibble (short form)
    for h in 0u16..=255 {
        let h = h as u8;
        let n = if h >> 4 == 15 { 0 } else { (h >> 4) as usize };
        if h >> 4 == 15 {
            for size in [0u64, 1, 14, 15, 16, 127, 128, (1 << 31) + 0, 1 << 32, u64::MAX] {
                let mut hd = vec![h];
                hd.extend(uleb(size));
                let nn = if size <= 128 { size as usize } else { 0 };
                v.push((format!("C08 tlist {} {}", hex(&hd), nn), "op:tlist dense:long nt".to_string(), hd.len() + 4 * nn));
            }
        } else {
            v.push((format!("C08 tlist {:02x} {}", h, n), "op:tlist dense:short nt".to_string(), 1 + 4 * n));
            if n > 0 {
                v.push((format!("C08 tlist {:02x} {}", h, n - 1), "op:tlist dense:short-missing nt".to_string(), 1 + 4 * n));
            }
        }
    }
    // delta header grid
    for bs in [0u64, 1, 127, 128, 129, 256, 384, 1 << 31, 1 << 32, (1 << 63) - 128, 1 << 63, u64::MAX] {
        for mb in [0u64, 1, 2, 3, 4, 5, 8, 32, 128, 129, 1 << 32, 1 << 63] {
            let mut b = uleb(bs);
            b.extend(uleb(mb));
            b.extend(uleb(5));
            b.extend(uleb(3));
            v.push((format!("C08 delta {}", hex(&b)), "op:delta dense:grid nt".to_string(), b.len()));
        }
    }
    // field headers: every delta with a bool field from last id 32760 (checked_add boundary), full ids at i16 boundaries
    for d in 1u8..=15 {
        for start in [32752i64, 32753, 32759, 32760, 32766, 32767] {
            let mut b = vec![0x01];
            b.extend(zz16(start));
            b.push((d << 4) | 1);
            b.push(0x00);
            v.push((format!("C08 tfield {}", hex(&b)), "op:tfield dense:delta-overflow nt".to_string(), b.len()));
        }
    }
    for id in [-32769i64, -32768, -1, 0, 10, 32767, 32768, 65535, 65536 + 10, 65536 + 5, (1 << 31) + 10, -(1 << 31) + 12] {
        let mut b = vec![0x02];
        b.extend(zz16(id));
        b.push(0x00);
        v.push((format!("C08 tfield {}", hex(&b)), "op:tfield dense:full-id nt".to_string(), b.len()));
    }
    v
}

/// hand-picked witnesses of the negative theorems, replayed on the real code
fn witnesses(thorough: bool) -> Vec<(String, String, usize)> {
    let mut v = vec![];
    let mut w = |line: String, tags: &str| {
        let n = line.split(' ').last().map(|h| h.len() / 2).unwrap_or(0);
        v.push((line, tags.to_string(), n))
    };
    // read_thrift_vec: Vec::with_capacity(i32::MAX) from a 6-byte list header (schema list)
    w("C08 tmeta 1502".to_string() + "19fcffffffff07", "op:tmeta witness:thrift-vec-capacity nt");
    // key_value_metadata list after a complete footer
    w(format!("C08 tmeta {}1600190c19fcffffffff07", hex(FOOTER_HEAD)), "op:tmeta witness:thrift-vec-capacity nt");
    w("C08 tlist fcffffffff07 0".into(), "op:tlist witness:thrift-vec-capacity nt");
    // row_groups list: hand-written reader in file/metadata/thrift/mod.rs
    w(format!("C08 tmeta {}160019fcffffffff07", hex(FOOTER_HEAD)), "op:tmeta witness:thrift-rowgroup-capacity nt");
    // skip of a list<bool> with 2^31-1 elements in an unknown field (id 15): loop without consuming input
    // (six such fields: 48 bytes of input, 6 * 2^31 iterations)
    w(format!("C08 tmeta {}1600190c{}00", hex(FOOTER_HEAD), "f9f1ffffffff07".repeat(if thorough { 24 } else { 12 })), "op:tmeta witness:thrift-skip-bool-list nt");
    // BitReader::get_vlq_int assert
    w("C08 bvlq ffffffffffffffffffffff".into(), "op:bvlq witness:bitreader-vlq-overlong nt");
    w("C08 delta ffffffffffffffffffffff01".into(), "op:delta witness:bitreader-vlq-overlong nt");
    w("C08 rle 1 8 ffffffffffffffffffffff01".into(), "op:rle witness:bitreader-vlq-overlong nt");
    // "fully validated" unsorted Variant metadata whose offset splits a multi-byte character
    w("C08 variantraw 0102000103c3a961 00".into(), "op:variantraw witness:variant-unsorted-metadata-char-boundary nt");
    // a multi-byte character split across two adjacent values of a string column
    for kind in ["view", "utf8"] {
        for enc in ["plain", "dlen", "dba", "dict"] {
            w(format!("C08 pqsplit {}:{}", kind, enc), "op:pqsplit witness:split-char nt");
        }
    }
    // thrift over-long varint accepted with a wrapped value
    w("C08 tvlq 8080808080808080808001".into(), "op:tvlq witness:thrift-vlq-overlong nt");
    v
}

fn sweep(args: &Args, rng: &mut Rng) -> Vec<(String, String, usize)> {
    let mut out = vec![];
    let thorough = args.tier == "thorough";
    for id in 0..N_FILES {
        let f = base_file(id);
        let n = f.len();
        let flen = u32::from_le_bytes([f[n - 8], f[n - 7], f[n - 6], f[n - 5]]) as usize;
        let fstart = n - 8 - flen;
        let mut push = |spec: String, class: &str, out: &mut Vec<(String, String, usize)>| {
            out.push((format!("C08 pq f{} {}", id, spec), format!("op:pq file:f{} mut:{} nt", id, class), n));
        };
        push("xor:0:00".into(), "none", &mut out);
        // single-byte mutations: every offset in the footer, strided in the data pages (quick)
        // the files added for type coverage (f8, f9) get a lighter pattern in the quick tier
        let light = !thorough && id >= 8;
        let stride = if thorough { 1 } else if light { 5 } else { 3 };
        for off in 0..n {
            let in_footer = off >= fstart;
            if !in_footer && off % stride != (id % stride) {
                continue;
            }
            if light && in_footer && off % 3 != id % 3 {
                continue;
            }
            let vals: &[&str] = if thorough || (in_footer && !light) { &["set:ff", "set:00", "xor:01", "xor:80"] } else { &["set:ff", "xor:01"] };
            for v in vals {
                let (k, x) = v.split_once(':').unwrap();
                push(format!("{}:{}:{}", k, off, x), if in_footer { "byte-footer" } else { "byte-data" }, &mut out);
            }
        }
        // truncations
        let tstride = if thorough { 1 } else if light { 23 } else { 7 };
        for len in (0..n).step_by(tstride) {
            push(format!("trunc:{}", len), "trunc", &mut out);
        }
        // length-field inflations: varint at every footer offset replaced by a huge varint (footer length fixed up)
        let istride = if thorough { 1 } else if light { 6 } else { 2 };
        for off in (fstart..n - 8).step_by(istride) {
            // 2^21-1: big enough to be unrelated to the input, small enough to be granted (no abort)
            push(format!("fsplice:{}:1:ffff7f", off), "inflate-varint-2m", &mut out);
            if thorough || off % 64 == 0 {
                push(format!("fsplice:{}:1:ffffffff07", off), "inflate-varint-i32max", &mut out);
            }
            if thorough || off % 4 == 0 {
                push(format!("fsplice:{}:1:ffffffffffffffff7f", off), "inflate-varint-i64", &mut out);
                push(format!("fsplice:{}:1:ffffffffffffffffffffff01", off), "inflate-varint-overlong", &mut out);
            }
        }
        // 32-bit length fields: footer length, and every aligned word in the first pages (quick: strided)
        for v in [-1i64, 0, 1, 0x7fffffff, 0x7ffffff0, n as i64, n as i64 - 8, n as i64 - 7] {
            push(format!("le32:{}:{}", n - 8, v), "footer-len", &mut out);
        }
        // page headers in the data region are thrift too: inflate varints there
        let dstride = if thorough { 1 } else if light { 17 } else { 5 };
        for off in (4..fstart).step_by(dstride) {
            push(format!("splice:{}:1:ffff7f", off), "inflate-data-varint", &mut out);
            push(format!("splice:{}:0:ffffffffffffffffffffff", off), "insert-overlong", &mut out);
        }
        // cross-splices with another file
        let ncross = if thorough { 400 } else { 40 };
        for _ in 0..ncross {
            let other = (id + 1 + rng.usize(N_FILES - 1)) % N_FILES;
            let l = 1 + rng.usize(64);
            push(format!("cross:{}:{}:{}:{}", other, rng.usize(n), l, rng.usize(n)), "cross", &mut out);
        }
    }
    out
}

fn sweep_variant(args: &Args, rng: &mut Rng) -> Vec<(String, String, usize)> {
    let mut out = vec![];
    let thorough = args.tier == "thorough";
    for id in 0..N_VARIANTS {
        let (m, v) = base_variant(id);
        for (which, buf) in [("m", &m), ("v", &v)] {
            let n = buf.len();
            let total = m.len() + v.len();
            let mut push = |spec: String, class: &str, out: &mut Vec<(String, String, usize)>| {
                out.push((format!("C08 variant v{} {}:{}", id, which, spec), format!("op:variant file:v{}{} mut:{} nt", id, which, class), total));
            };
            if which == "m" {
                push("xor:0:00".into(), "none", &mut out);
            }
            // large buffers (the 300-field dictionary) are strided in the quick tier
            let stride = if thorough || n <= 400 { 1 } else { 5 };
            for off in (0..n).step_by(stride) {
                let vals: &[&str] = if thorough || off < 16 { &["set:ff", "set:00", "xor:01", "xor:80", "set:7f", "xor:04", "xor:40"] } else { &["set:ff", "set:00", "xor:01", "xor:80"] };
                for x in vals {
                    let (k, y) = x.split_once(':').unwrap();
                    push(format!("{}:{}:{}", k, off, y), "byte", &mut out);
                }
            }
            for len in (0..n).step_by(if thorough || n <= 400 { 1 } else { 7 }) {
                push(format!("trunc:{}", len), "trunc", &mut out);
            }
            // counts / offsets are 1-4 byte little-endian fields: inflate every position
            for off in (0..n.saturating_sub(4)).step_by(if thorough || n <= 400 { 1 } else { 9 }) {
                push(format!("le32:{}:-1", off), "inflate-le32", &mut out);
                push(format!("le32:{}:{}", off, n), "inflate-le32", &mut out);
                push(format!("le32:{}:2147483647", off), "inflate-le32", &mut out);
            }
            for _ in 0..(if thorough { 200 } else { 20 }) {
                let other = (id + 1 + rng.usize(N_VARIANTS - 1)) % N_VARIANTS;
                let l = 1 + rng.usize(32);
                let (a, b) = (rng.usize(200), rng.usize(n.max(1)));
                push(format!("cross:{}:{}:{}:{}", other, a, l, b), "cross", &mut out);
            }
        }
    }
    out
}

fn main() {
    let argv: Vec<String> = std::env::args().collect();
    if argv.get(1).map(|s| s.as_str()) == Some("worker") {
        worker_main();
        return;
    }
    let args = parse_args();
    let mut sink = Sink::new(&args.out);
    let timeout = Duration::from_secs(if args.tier == "thorough" { 20 } else { 6 });
    let mut w = Worker::spawn(timeout);
    if args.mode == "replay" {
        for line in read_cases(args.replay.as_ref().unwrap()) {
            let n = line.split(' ').last().map(|h| h.len() / 2).unwrap_or(0);
            run_and_record(&mut w, &mut sink, line, "replay", n);
        }
    } else {
        let mut rng = Rng::new(args.seed ^ 0xC08);
        for (line, tags, n) in witnesses(args.tier == "thorough") {
            run_and_record(&mut w, &mut sink, line, &tags, n);
        }
        if args.cases.is_none() {
            for (line, tags, n) in dense_units() {
                run_and_record(&mut w, &mut sink, line, &tags, n);
            }
        }
        let n = n_cases(&args, 4000, 60000);
        for _ in 0..n {
            let (line, tags, len) = gen_unit(&mut rng);
            run_and_record(&mut w, &mut sink, line, &tags, len);
        }
        if args.cases.is_none() {
            // C08_SWEEP=pq|variant restricts the sweep (debugging aid)
            let only = std::env::var("C08_SWEEP").unwrap_or_default();
            let mut sw = if only == "variant" { vec![] } else { sweep(&args, &mut rng) };
            if only != "pq" {
                sw.extend(sweep_variant(&args, &mut rng));
            }
            let loud = std::env::var("VERIF_LOUD").is_ok();
            let t0 = std::time::Instant::now();
            for (i, (line, tags, len)) in sw.into_iter().enumerate() {
                if loud && i % 1000 == 0 {
                    eprintln!("sweep {} {:?} {}", i, t0.elapsed(), line);
                }
                run_and_record(&mut w, &mut sink, line, &tags, len);
            }
        }
    }
    drop(w);
    remove_site_cache();
    sink.finish();
}
