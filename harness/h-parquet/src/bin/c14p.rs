//! C14 correspondence harness, Parquet part: `ParquetMetaDataPushDecoder` (footer tail → metadata
//! bytes → optional page-index ranges) gives the same `ParquetMetaData` / outcome for every way the
//! requested byte ranges are delivered, and the same as the one-shot `ParquetMetaDataReader`.
//!
//!   C14 pqmeta <policy 0|1|2> <file-hex> <schedule>
//!
//! schedule = `x` (answer each NeedsData exactly) | `m<l>:<r>` (answer with ranges widened by l/r
//! bytes) | `p<sizes>` (first push the whole file cut into the given consecutive pieces, decoding
//! after each, then answer exactly) | `s<k>` (prefetch the last k bytes, then answer exactly).
//! The harness additionally runs, for every case: exact, whole-file prefetch, every suffix
//! prefetch of 0..=40 bytes and a spread of longer ones, every 2-piece split of the file around
//! the footer/metadata boundaries, widened answers for l,r in 0..3, and all partitions of the last
//! 9 bytes (footer tail) pushed as pieces in both orders.  The Lean driver answers SKIP.
use bytes::Bytes;
use parquet::DecodeResult;
use parquet::arrow::ArrowWriter;
use parquet::file::metadata::{PageIndexPolicy, ParquetMetaData, ParquetMetaDataPushDecoder, ParquetMetaDataReader};
use parquet::file::properties::{EnabledStatistics, WriterProperties};
use std::ops::Range;
use std::sync::Arc;
use vcommon::*;

use arrow_array::{ArrayRef, Int32Array, RecordBatch, StringArray};
use arrow_schema::{DataType, Field, Schema};

/// (column index policy, offset index policy); 3 and 4 set the two policies separately
fn policies(p: &str) -> (PageIndexPolicy, PageIndexPolicy) {
    match p {
        "0" => (PageIndexPolicy::Skip, PageIndexPolicy::Skip),
        "1" => (PageIndexPolicy::Optional, PageIndexPolicy::Optional),
        "3" => (PageIndexPolicy::Required, PageIndexPolicy::Skip),
        "4" => (PageIndexPolicy::Skip, PageIndexPolicy::Required),
        _ => (PageIndexPolicy::Required, PageIndexPolicy::Required),
    }
}

#[derive(Debug, PartialEq)]
enum Out {
    Meta(Box<ParquetMetaData>),
    Err,
    Stuck,
    /// the decoder asked for bytes that do not exist (range end beyond the file length)
    Beyond,
    Panic,
}
impl Out {
    fn short(&self) -> String {
        match self {
            Out::Meta(m) => format!(
                "rg={} rows={} pi={} r=ok",
                m.num_row_groups(),
                m.file_metadata().num_rows(),
                m.page_index().is_some() as u8
            ),
            Out::Err => "r=ERR".into(),
            Out::Stuck => "r=STUCK".into(),
            Out::Beyond => "r=NEEDS-BEYOND-FILE".into(),
            Out::Panic => "r=PANIC".into(),
        }
    }
}

enum Sched {
    Exact,
    Margin(u64, u64),
    Pieces(Vec<usize>, bool),
    Suffix(usize),
}

fn push_run(pol: &str, file: &Bytes, sched: &Sched) -> Out {
    let r = std::panic::catch_unwind(std::panic::AssertUnwindSafe(|| {
        let len = file.len() as u64;
        let mut d = match ParquetMetaDataPushDecoder::try_new(len) {
            Ok(d) => d.with_column_index_policy(policies(pol).0).with_offset_index_policy(policies(pol).1),
            Err(_) => return Out::Err,
        };
        let slice = |r: &Range<u64>| file.slice(r.start as usize..r.end as usize);
        // prefetch phase
        match sched {
            Sched::Pieces(sizes, reverse) => {
                let mut ranges = vec![];
                let mut p = 0u64;
                for &s in sizes {
                    if s > 0 {
                        ranges.push(p..p + s as u64);
                    }
                    p += s as u64;
                }
                if *reverse {
                    ranges.reverse();
                }
                for r in ranges {
                    if d.push_range(r.clone(), slice(&r)).is_err() {
                        return Out::Err;
                    }
                    match d.try_decode() {
                        Ok(DecodeResult::Data(m)) => return Out::Meta(Box::new(m)),
                        Ok(_) => {}
                        Err(_) => return Out::Err,
                    }
                }
            }
            Sched::Suffix(k) => {
                let k = (*k as u64).min(len);
                if k > 0 {
                    let r = len - k..len;
                    if d.push_range(r.clone(), slice(&r)).is_err() {
                        return Out::Err;
                    }
                }
            }
            _ => {}
        }
        let (ml, mr) = if let Sched::Margin(l, r) = sched { (*l, *r) } else { (0, 0) };
        for _ in 0..64 {
            match d.try_decode() {
                Ok(DecodeResult::Data(m)) => return Out::Meta(Box::new(m)),
                Ok(DecodeResult::NeedsData(ranges)) => {
                    for r in ranges {
                        if r.end > len || r.start > r.end {
                            return Out::Beyond;
                        }
                        let w = r.start.saturating_sub(ml)..(r.end + mr).min(len);
                        if w.start >= w.end || w.end > len {
                            return Out::Err;
                        }
                        if d.push_range(w.clone(), slice(&w)).is_err() {
                            return Out::Err;
                        }
                    }
                }
                Ok(DecodeResult::Finished) => return Out::Err,
                Err(_) => return Out::Err,
            }
        }
        Out::Stuck
    }));
    r.unwrap_or(Out::Panic)
}

fn one_shot(pol: &str, file: &Bytes) -> Out {
    let r = std::panic::catch_unwind(std::panic::AssertUnwindSafe(|| {
        match ParquetMetaDataReader::new()
            .with_column_index_policy(policies(pol).0)
            .with_offset_index_policy(policies(pol).1)
            .parse_and_finish(file)
        {
            Ok(m) => Out::Meta(Box::new(m)),
            Err(_) => Out::Err,
        }
    }));
    r.unwrap_or(Out::Panic)
}

/// other entry points and histories of the push decoder, checked on every case
fn push_histories(pol: &str, file: &Bytes, reference: &Out, fails: &mut Vec<(String, String)>) {
    let len = file.len() as u64;
    let slice = |r: &Range<u64>| file.slice(r.start as usize..r.end as usize);
    let exact_loop = |mut d: ParquetMetaDataPushDecoder| -> (Out, Option<ParquetMetaDataPushDecoder>) {
        for _ in 0..64 {
            match d.try_decode() {
                Ok(DecodeResult::Data(m)) => return (Out::Meta(Box::new(m)), Some(d)),
                Ok(DecodeResult::NeedsData(ranges)) => {
                    for r in ranges {
                        if r.end > len || r.start > r.end {
                            return (Out::Beyond, None);
                        }
                        if d.push_range(r.clone(), slice(&r)).is_err() {
                            return (Out::Err, None);
                        }
                    }
                }
                Ok(DecodeResult::Finished) => return (Out::Err, None),
                Err(_) => return (Out::Err, None),
            }
        }
        (Out::Stuck, None)
    };
    let r = std::panic::catch_unwind(std::panic::AssertUnwindSafe(|| {
        let mut local: Vec<(String, String)> = vec![];
        // (1) prefetch everything, clear_all_ranges, then answer exactly
        if let Ok(d) = ParquetMetaDataPushDecoder::try_new(len) {
            let mut d = d.with_column_index_policy(policies(pol).0).with_offset_index_policy(policies(pol).1);
            if len > 0 && d.push_range(0..len, file.clone()).is_ok() {
                d.clear_all_ranges();
                let (o, dd) = exact_loop(d);
                if o != *reference {
                    local.push((format!("clear_all_ranges then exact {} != exact {}", o.short(), reference.short()), "oracle:chunk-dep".into()));
                }
                // (2) after Data: Finished, and pushing is rejected
                if let (Out::Meta(_), Some(mut dd)) = (&o, dd) {
                    if len > 0 && dd.push_range(0..1, file.slice(0..1)).is_ok() {
                        local.push(("push_range accepted after decoding finished".into(), "oracle:protocol".into()));
                    }
                    // Finished is sticky: every later try_decode says Finished, every later push is refused
                    for round in 0..3 {
                        if !matches!(dd.try_decode(), Ok(DecodeResult::Finished)) {
                            local.push((format!("try_decode #{} after Data is not Finished", round + 1), "oracle:protocol".into()));
                            break;
                        }
                        if len > 0 && dd.push_range(0..1, file.slice(0..1)).is_ok() {
                            local.push((format!("push_range accepted after try_decode #{} returned Finished", round + 1), "oracle:protocol".into()));
                            break;
                        }
                    }
                }
            }
        }
        // (3) second entry point: metadata decoded without page index, then a decoder created with
        // try_new_with_metadata loads only the page index
        if let Out::Meta(_) = reference {
            if let Ok(d0) = ParquetMetaDataPushDecoder::try_new(len) {
                if let (Out::Meta(m0), _) = exact_loop(d0.with_page_index_policy(PageIndexPolicy::Skip)) {
                    if let Ok(d1) = ParquetMetaDataPushDecoder::try_new_with_metadata(len, *m0) {
                        let (o, _) = exact_loop(d1.with_column_index_policy(policies(pol).0).with_offset_index_policy(policies(pol).1));
                        if o != *reference {
                            local.push((format!("try_new_with_metadata {} != full decode {}", o.short(), reference.short()), "oracle:two-entry".into()));
                        }
                    }
                }
            }
        }
        local
    }));
    match r {
        Ok(l) => fails.extend(l),
        Err(_) => fails.push(("PANIC in push decoder history".into(), "oracle:panic".into())),
    }
}

fn parse_sched(s: &str) -> Sched {
    let (k, rest) = s.split_at(1);
    match k {
        "m" => {
            let f: Vec<u64> = rest.split(':').map(|x| x.parse().unwrap()).collect();
            Sched::Margin(f[0], f[1])
        }
        "p" => Sched::Pieces(parse_list(rest), false),
        "q" => Sched::Pieces(parse_list(rest), true),
        "s" => Sched::Suffix(rest.parse().unwrap()),
        _ => Sched::Exact,
    }
}

fn run_case(line: &str) -> (String, Vec<(String, String)>) {
    let t: Vec<&str> = line.split(' ').collect();
    let mut fails = vec![];
    if t[1] != "pqmeta" {
        return ("bad-op".into(), fails);
    }
    let pol = t[2];
    let file = Bytes::from(unhex(t[3]));
    let n = file.len();
    let given = push_run(pol, &file, &parse_sched(t[4]));
    let reference = push_run(pol, &file, &Sched::Exact);
    let mut cmp = |name: String, o: &Out| {
        if *o != reference {
            fails.push((format!("{} {} != exact {}", name, o.short(), reference.short()), "oracle:chunk-dep".to_string()));
        }
    };
    cmp("given".into(), &given);
    cmp("prefetch-all".into(), &push_run(pol, &file, &Sched::Pieces(vec![n], false)));
    let mut ks: Vec<usize> = (0..=40).collect();
    ks.extend((41..n).step_by((n / 60).max(1)));
    ks.push(n);
    for k in ks {
        let o = push_run(pol, &file, &Sched::Suffix(k));
        if o != reference {
            cmp(format!("suffix {}", k), &o);
            break;
        }
    }
    // every 2-piece split of the file in the last 200 bytes and a spread elsewhere
    let mut cuts: Vec<usize> = (n.saturating_sub(200)..=n).collect();
    cuts.extend((0..n.saturating_sub(200)).step_by((n / 40).max(1)));
    'c: for c in cuts {
        for rev in [false, true] {
            let o = push_run(pol, &file, &Sched::Pieces(vec![c, n - c], rev));
            if o != reference {
                cmp(format!("pieces {},{} rev={}", c, n - c, rev), &o);
                break 'c;
            }
        }
    }
    for l in 0..3u64 {
        for r in 0..3u64 {
            cmp(format!("margin {}:{}", l, r), &push_run(pol, &file, &Sched::Margin(l, r)));
        }
    }
    // all partitions of the last 9 bytes (the 8 byte footer tail + 1), both push orders
    if n > 9 {
        for mask in 0u32..(1 << 8) {
            let mut sizes = vec![n - 9];
            let mut cur = 1;
            for i in 0..8 {
                if mask >> i & 1 == 1 {
                    sizes.push(cur);
                    cur = 1;
                } else {
                    cur += 1;
                }
            }
            sizes.push(cur);
            let mut bad = false;
            for rev in [false, true] {
                let o = push_run(pol, &file, &Sched::Pieces(sizes.clone(), rev));
                if o != reference {
                    cmp(format!("tail partition {} rev={}", show_list(&sizes), rev), &o);
                    bad = true;
                }
            }
            if bad {
                break;
            }
        }
    }
    if !matches!(reference, Out::Panic) {
        push_histories(pol, &file, &reference, &mut fails);
    }
    let os = one_shot(pol, &file);
    if os != reference {
        // structural classification: the footer's metadata length exceeds what the file can hold.
        // `try_decode` computes `file_len - footer_len - metadata_len` unchecked (underflow), the
        // one-shot reader reports an error.
        let mut tag = "oracle:push-vs-pull".to_string();
        if n >= 8 && (&file[n - 4..] == b"PAR1" || &file[n - 4..] == b"PARE") {
            let ml = u32::from_le_bytes(file[n - 8..n - 4].try_into().unwrap()) as u64;
            if ml + 8 > n as u64 {
                tag.push_str(" finding:pq-push-footer-len-underflow");
            }
        }
        // the push decoder keeps requesting a (page index) range that lies beyond the end of the
        // file instead of reporting the error the one-shot reader reports
        if reference == Out::Beyond && os == Out::Err {
            tag.push_str(" finding:pq-push-range-beyond-file");
        }
        // the page index range recorded in the (corrupted) column chunks reaches into the footer
        // metadata: the one-shot reader rejects that, the push decoder parses whatever bytes are there
        if matches!(reference, Out::Meta(_)) && os == Out::Err && n >= 8 {
            let ml = u32::from_le_bytes(file[n - 8..n - 4].try_into().unwrap()) as u64;
            let md_start = (n as u64).saturating_sub(8 + ml);
            if let Out::Meta(m0) = push_run("0", &file, &Sched::Exact) {
                let (cp, op) = policies(pol);
                let mut end = 0u64;
                for c in m0.row_groups().iter().flat_map(|r| r.columns()) {
                    if cp != PageIndexPolicy::Skip {
                        if let (Some(o), Some(l)) = (c.column_index_offset(), c.column_index_length()) {
                            if o >= 0 && l >= 0 {
                                end = end.max(o as u64 + l as u64);
                            }
                        }
                    }
                    if op != PageIndexPolicy::Skip {
                        if let (Some(o), Some(l)) = (c.offset_index_offset(), c.offset_index_length()) {
                            if o >= 0 && l >= 0 {
                                end = end.max(o as u64 + l as u64);
                            }
                        }
                    }
                }
                if end > md_start && end <= n as u64 {
                    tag.push_str(" finding:pq-push-index-overlaps-metadata");
                }
            }
        }
        fails.push((format!("one-shot {} != push {}", os.short(), reference.short()), tag));
    }
    (given.short(), fails)
}

fn gen_case(rng: &mut Rng) -> (String, String) {
    let schema = Arc::new(Schema::new(vec![Field::new("a", DataType::Int32, true), Field::new("s", DataType::Utf8, true)]));
    let mut tags = vec!["op:pqmeta".to_string()];
    let stats = *rng.pick(&[EnabledStatistics::Page, EnabledStatistics::Chunk, EnabledStatistics::None]);
    tags.push(format!("stats:{:?}", stats));
    let props = WriterProperties::builder()
        .set_statistics_enabled(stats)
        .set_max_row_group_row_count(Some(*rng.pick(&[2usize, 5, 1000])))
        .build();
    let mut buf = vec![];
    {
        let mut w = ArrowWriter::try_new(&mut buf, schema.clone(), Some(props)).unwrap();
        for _ in 0..rng.usize(3) {
            let n = rng.usize(7);
            let a: Vec<Option<i32>> = (0..n).map(|_| if rng.chance(1, 4) { None } else { Some(rng.range(-5, 5) as i32) }).collect();
            let s: Vec<Option<String>> = (0..n).map(|_| if rng.chance(1, 4) { None } else { Some("v".repeat(rng.usize(4))) }).collect();
            let cols: Vec<ArrayRef> = vec![Arc::new(Int32Array::from(a)), Arc::new(StringArray::from(s))];
            w.write(&RecordBatch::try_new(schema.clone(), cols).unwrap()).unwrap();
        }
        w.close().unwrap();
    }
    match rng.below(8) {
        0 => {
            let cut = rng.usize(buf.len());
            buf.truncate(cut);
            tags.push("mut:truncated".into());
        }
        1 => {
            let n = buf.len();
            let i = n - 1 - rng.usize(12.min(n - 1));
            buf[i] ^= 1 << rng.usize(8);
            tags.push("mut:footer".into());
        }
        2 => {
            let i = rng.usize(buf.len());
            buf[i] = rng.next_u64() as u8;
            tags.push("mut:corrupt".into());
        }
        _ => {}
    }
    let n = buf.len();
    let pol = rng.below(5).to_string();
    tags.push(format!("policy:{}", pol));
    let sched = match rng.below(5) {
        0 => "x".to_string(),
        1 => format!("m{}:{}", rng.usize(20), rng.usize(20)),
        2 => format!("s{}", rng.usize(n + 1)),
        k => {
            let mut cuts: Vec<usize> = (0..1 + rng.usize(6)).map(|_| if rng.bool() { n - rng.usize(n.min(64) + 1).min(n) } else { rng.usize(n + 1) }).collect();
            cuts.sort();
            let mut sizes = vec![];
            let mut p = 0;
            for c in cuts {
                sizes.push(c - p);
                p = c;
            }
            sizes.push(n - p);
            format!("{}{}", if k == 3 { "p" } else { "q" }, show_list(&sizes))
        }
    };
    tags.push(format!("sched:{}", &sched[..1]));
    if sched != "x" {
        tags.push("nt".into());
    }
    (format!("C14 pqmeta {} {} {}", pol, hex(&buf), sched), tags.join(" "))
}

fn main() {
    let args = parse_args();
    if std::env::var("VERIF_LOUD").is_err() {
        quiet_panics();
    }
    let mut sink = Sink::new(&args.out);
    let emit = |sink: &mut Sink, line: String, tags: String| {
        let (a, fails) = run_case(&line);
        let mut tags = tags;
        for (what, tag) in fails {
            if !tags.contains(&tag) {
                tags = format!("{} {}", tags, tag);
            }
            sink.oracle_failure(line.clone(), what, &tags);
        }
        sink.case(line, a, &tags);
    };
    if args.mode == "replay" {
        for line in read_cases(args.replay.as_ref().unwrap()) {
            emit(&mut sink, line, "replay".into());
        }
    } else {
        let mut rng = Rng::new(args.seed ^ 0xC14B);
        let n = n_cases(&args, 150, 3000);
        for _ in 0..n {
            let (line, tags) = gen_case(&mut rng);
            emit(&mut sink, line, tags);
        }
    }
    sink.finish();
}
