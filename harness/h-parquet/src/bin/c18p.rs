//! C18 correspondence harness (Parquet part): truncation and I/O faults are reported, never
//! turned into wrong rows.
//!
//! Case lines (`<spec>` = `<schema>:<batches>:<rows>:<seed>:<props>` regenerates the input):
//!   C18 pqf <md|ab|sfr> <spec> <len> <k> <tail-hex>      model: reject | SKIP    impl: reject|accept
//!   C18 pqwfault <aw|awf> <spec> <sched> <trace>         model: accepted=<n> res=ok|err
//!   C18 pqrfault <ab|md> <spec> <E|I|S|A> <k> <n>        model: res=err | res=ok batches=<n> | SKIP
//! `props`: 0 default, 1 plain/uncompressed/no dictionary (+ an embedded complete Parquet file in
//! schema 4), 2 tiny row groups + bloom filters, 3 page-level statistics + small pages.
#[path = "../../../h-core/src/c18_common.rs"]
mod common;
use arrow_array::RecordBatch;
use arrow_schema::SchemaRef;
use bytes::Bytes;
use common::*;
use parquet::arrow::ArrowWriter;
use parquet::arrow::arrow_reader::ParquetRecordBatchReaderBuilder;
use parquet::basic::{Compression, Encoding};
use parquet::errors::{ParquetError, Result as PResult};
use parquet::file::metadata::ParquetMetaDataReader;
use parquet::file::properties::{EnabledStatistics, WriterProperties};
use parquet::file::reader::{ChunkReader, FileReader, Length, SerializedFileReader};
use std::collections::HashMap;
use std::io::Cursor;
use std::sync::{Arc, Mutex, OnceLock};
use vcommon::*;

type Fails = Vec<(String, String)>;

struct Input {
    schema: SchemaRef,
    batches: Vec<RecordBatch>,
}

fn cache() -> &'static Mutex<HashMap<String, Arc<Vec<u8>>>> {
    static C: OnceLock<Mutex<HashMap<String, Arc<Vec<u8>>>>> = OnceLock::new();
    C.get_or_init(|| Mutex::new(HashMap::new()))
}

fn cached(key: String, f: impl FnOnce() -> Vec<u8>) -> Arc<Vec<u8>> {
    if let Some(v) = cache().lock().unwrap().get(&key) {
        return v.clone();
    }
    let v = Arc::new(f());
    let mut c = cache().lock().unwrap();
    if c.len() > 64 {
        c.clear();
    }
    c.insert(key, v.clone());
    v
}

fn spec_props(spec: &str) -> usize {
    spec.split(':').nth(4).map(|x| x.parse().unwrap()).unwrap_or(0)
}
fn spec_schema(spec: &str) -> usize {
    spec.split(':').next().unwrap().parse::<usize>().unwrap() % N_SCHEMAS
}

fn props(id: usize) -> WriterProperties {
    let b = WriterProperties::builder();
    match id {
        1 => b.set_dictionary_enabled(false).set_compression(Compression::UNCOMPRESSED).set_encoding(Encoding::PLAIN),
        2 => b.set_max_row_group_row_count(Some(3)).set_bloom_filter_enabled(true),
        3 => b.set_statistics_enabled(EnabledStatistics::Page).set_data_page_row_count_limit(2).set_write_batch_size(2),
        _ => b,
    }
    .build()
}

fn write_parquet(inp: &Input, p: usize) -> Vec<u8> {
    let mut w = ArrowWriter::try_new(Vec::new(), inp.schema.clone(), Some(props(p))).expect("writer");
    for b in &inp.batches {
        w.write(b).expect("write");
    }
    w.into_inner().expect("close")
}

/// a complete small Parquet file, embedded in binary values of schema 4 (props 1: stored verbatim)
fn inner_file() -> Vec<u8> {
    let (schema, batches) = make_batches("0:1:2:7", None);
    write_parquet(&Input { schema, batches }, 1)
}

fn input(spec: &str) -> Input {
    let e = if spec_schema(spec) == 4 && spec_props(spec) == 1 { Some(inner_file()) } else { None };
    let (schema, batches) = make_batches(spec, e.as_deref());
    Input { schema, batches }
}

fn file_bytes(spec: &str) -> Arc<Vec<u8>> {
    cached(format!("pq {spec}"), || write_parquet(&input(spec), spec_props(spec)))
}

// -------------------------------------------------------------------------------- reading

fn read_ab<R: ChunkReader + 'static>(src: R) -> PResult<Vec<RecordBatch>> {
    let b = ParquetRecordBatchReaderBuilder::try_new(src)?.with_batch_size(4);
    let r = b.build()?;
    let mut out = vec![];
    for x in r {
        out.push(x.map_err(|e| ParquetError::General(e.to_string()))?);
        if out.len() > 100000 {
            return Err(ParquetError::General("too many batches".into()));
        }
    }
    Ok(out)
}

fn read_sfr(src: Bytes) -> PResult<usize> {
    let r = SerializedFileReader::new(src)?;
    let mut n = 0;
    for row in r.get_row_iter(None)? {
        row?;
        n += 1;
    }
    Ok(n)
}

fn same_rows(schema: &SchemaRef, got: &[RecordBatch], want: &[RecordBatch]) -> bool {
    let g = arrow_select::concat::concat_batches(schema, got);
    let w = arrow_select::concat::concat_batches(schema, want);
    match (g, w) {
        (Ok(g), Ok(w)) => g.num_rows() == w.num_rows() && g.columns() == w.columns(),
        _ => false,
    }
}

fn run_pqf(t: &[&str], fails: &mut Fails) -> String {
    let (reader, spec, len, k, tail) = (t[2], t[3], t[4].parse::<usize>().unwrap(), t[5].parse::<usize>().unwrap(), t[6]);
    let bytes = file_bytes(spec);
    if bytes.len() != len || k > len || hex(&bytes[k - k.min(8)..k]) != tail {
        return "bad-case".into();
    }
    let data = Bytes::from(bytes[..k].to_vec());
    let inp = input(spec);
    let ok = match reader {
        "md" => ParquetMetaDataReader::new().parse_and_finish(&data).is_ok(),
        "sfr" => {
            let r = read_sfr(data);
            if k == len && r.as_ref().ok() != Some(&total_rows(&inp.batches)) {
                fails.push(("roundtrip".into(), format!("complete file: row iterator gave {:?}", r.as_ref().ok())));
            }
            r.is_ok()
        }
        _ => {
            let r = read_ab(data);
            if k == len {
                match &r {
                    Ok(b) if same_rows(&inp.schema, b, &inp.batches) => {}
                    Ok(_) => fails.push(("roundtrip".into(), "complete file does not read back as written".into())),
                    Err(e) => fails.push(("roundtrip".into(), format!("complete file rejected: {e}"))),
                }
            }
            r.is_ok()
        }
    };
    if ok { "accept".into() } else { "reject".into() }
}

// ------------------------------------------------------------------------------ writer faults

fn drive_writer(writer: &str, inp: &Input, spec: &str, sink: FaultSink, notes: &mut Vec<String>) -> PResult<()> {
    let mut w = ArrowWriter::try_new(sink.clone(), inp.schema.clone(), Some(props(spec_props(spec))))?;
    let mut res = Ok(());
    for b in &inp.batches {
        res = w.write(b);
        if res.is_ok() && writer == "awf" {
            // flush the row group after every batch
            res = w.flush();
        }
        if res.is_err() {
            break;
        }
    }
    if res.is_ok() {
        res = w.finish().map(|_| ());
    }
    if res.is_err() && sink.failed() && w.finish().is_ok() {
        notes.push("finish-ok-after-error".into());
    }
    sink.mark_done();
    res
}

fn fault_free(writer: &str, spec: &str) -> (Vec<u8>, Vec<String>) {
    let inp = input(spec);
    let sink = FaultSink::new(vec![], false);
    let mut notes = vec![];
    drive_writer(writer, &inp, spec, sink.clone(), &mut notes).expect("fault-free write");
    (sink.data(), sink.trace())
}

fn run_wfault(t: &[&str], fails: &mut Fails) -> String {
    let (writer, spec, sched, trace) = (t[2], t[3], t[4], t[5]);
    let (good, good_trace) = fault_free(writer, spec);
    if show_list(&good_trace) != trace {
        return "bad-case".into();
    }
    let inp = input(spec);
    let sink = FaultSink::new(parse_sched(sched), true);
    let mut notes = vec![];
    let res = drive_writer(writer, &inp, spec, sink.clone(), &mut notes);
    let data = sink.data();
    if !is_prefix(&data, &good) {
        fails.push(("not-a-prefix".into(), format!("sink holds {} bytes that are not a prefix of the fault-free output", data.len())));
    }
    if res.is_ok() && data != good {
        fails.push((
            "ok-but-incomplete".into(),
            format!("writer reported success but the sink holds {} of {} bytes", data.len(), good.len()),
        ));
    }
    for n in notes {
        fails.push((n.clone(), n));
    }
    format!("accepted={} res={}", data.len(), if res.is_ok() { "ok" } else { "err" })
}

// ------------------------------------------------------------------------------ reader faults

/// a `ChunkReader` over bytes whose calls (`get_read`, `get_bytes`, and every `read` of a
/// reader it handed out) go through the fault gate
struct FaultChunk {
    data: Bytes,
    ctl: ReadCtl,
}
impl Length for FaultChunk {
    fn len(&self) -> u64 {
        self.data.len() as u64
    }
}
impl ChunkReader for FaultChunk {
    type T = FaultRead<Cursor<Bytes>>;
    fn get_read(&self, start: u64) -> PResult<Self::T> {
        self.ctl.gate().map_err(|e| ParquetError::External(Box::new(e)))?;
        if start as usize > self.data.len() {
            return Err(ParquetError::EOF("start beyond the end".into()));
        }
        Ok(FaultRead { inner: Cursor::new(self.data.slice(start as usize..)), ctl: self.ctl.clone() })
    }
    fn get_bytes(&self, start: u64, length: usize) -> PResult<Bytes> {
        self.ctl.gate().map_err(|e| ParquetError::External(Box::new(e)))?;
        let s = start as usize;
        if s > self.data.len() || s + length > self.data.len() {
            return Err(ParquetError::EOF("range beyond the end".into()));
        }
        Ok(self.data.slice(s..s + length))
    }
}

fn read_with(reader: &str, data: Arc<Vec<u8>>, ctl: ReadCtl) -> (Vec<RecordBatch>, bool) {
    let src = FaultChunk { data: Bytes::from(data.as_ref().clone()), ctl };
    match reader {
        "md" => (vec![], ParquetMetaDataReader::new().parse_and_finish(&src).is_ok()),
        _ => {
            // collect what was yielded before an error, too
            let b = match ParquetRecordBatchReaderBuilder::try_new(src) {
                Ok(b) => b.with_batch_size(4),
                Err(_) => return (vec![], false),
            };
            let r = match b.build() {
                Ok(r) => r,
                Err(_) => return (vec![], false),
            };
            let mut got = vec![];
            for x in r {
                match x {
                    Ok(b) => got.push(b),
                    Err(_) => return (got, false),
                }
                if got.len() > 100000 {
                    return (got, false);
                }
            }
            (got, true)
        }
    }
}

fn run_rfault(t: &[&str], fails: &mut Fails) -> String {
    let (reader, spec, mode, k, n) = (t[2], t[3], t[4].chars().next().unwrap(), t[5].parse::<usize>().unwrap(), t[6]);
    let data = file_bytes(spec);
    let (good, ok) = read_with(reader, data.clone(), ReadCtl::new('N', 0));
    if !ok || good.len().to_string() != n {
        return "bad-case".into();
    }
    let ctl = ReadCtl::new(mode, k);
    let (got, ok) = read_with(reader, data, ctl.clone());
    if ctl.0.lock().unwrap().budget_exceeded {
        fails.push(("hang".into(), "reader made more than 5M calls on its source".into()));
    }
    if got.len() > good.len() || got.iter().zip(good.iter()).any(|(a, b)| a != b) {
        fails.push(("rows-not-written".into(), "batches under a fault are not a prefix of the fault-free batches".into()));
    }
    if ok && got.len() != good.len() {
        fails.push(("ok-but-short".into(), format!("reader reported a clean end after {} of {} batches", got.len(), good.len())));
    }
    if ok { format!("res=ok batches={}", got.len()) } else { "res=err".into() }
}

// --------------------------------------------------------------------------------------- main

fn run_case_inner(line: &str, fails: &mut Fails) -> String {
    let t: Vec<&str> = line.split(' ').collect();
    assert_eq!(t[0], "C18");
    match t[1] {
        "pqf" => run_pqf(&t, fails),
        "pqwfault" => run_wfault(&t, fails),
        "pqrfault" => run_rfault(&t, fails),
        _ => "bad-op".into(),
    }
}

fn run_case(line: &str) -> (String, Fails) {
    let l = line.to_string();
    let out = Arc::new(Mutex::new(Fails::new()));
    let o2 = out.clone();
    let a = with_timeout(20, move || {
        let mut fails = Fails::new();
        let a = run_case_inner(&l, &mut fails);
        *o2.lock().unwrap() = fails;
        a
    });
    let mut fails = std::mem::take(&mut *out.lock().unwrap());
    if a == "PANIC" || a == "HANG" {
        fails.push((a.to_lowercase(), format!("the real code answered {a}")));
    }
    (a, fails)
}

fn emit(sink: &mut Sink, line: String, tags: &str) {
    let (a, fails) = run_case(&line);
    for (what, detail) in fails {
        sink.oracle_failure(line.clone(), format!("{what}: {detail}"), &format!("{tags} fail:{what}"));
    }
    sink.case(line, a, tags);
}

fn nt(k: usize, len: usize) -> &'static str {
    if k > 0 && k < len { "nt" } else { "" }
}

fn gen_pqf(sink: &mut Sink, rng: &mut Rng) {
    let sid = *rng.pick(&[0usize, 1, 2, 3, 4, 4, 5, 6]);
    let p = if sid == 4 { *rng.pick(&[1usize, 1, 0]) } else { rng.usize(4) };
    let spec = format!("{}:{p}", gen_spec(rng, &[sid]));
    let bytes = file_bytes(&spec);
    let reader = *rng.pick(&["md", "ab", "ab", "sfr"]);
    for k in 0..=bytes.len() {
        let line = format!("C18 pqf {reader} {spec} {} {k} {}", bytes.len(), hex(&bytes[k - k.min(8)..k]));
        let tags = format!("op:pqf reader:{reader} schema:{} props:{p} {}", schema_name(sid), nt(k, bytes.len()));
        emit(sink, line, &tags);
    }
}

fn gen_wfault(sink: &mut Sink, rng: &mut Rng) {
    let writer = *rng.pick(&["aw", "awf"]);
    // every third input is large enough to overflow the writer's internal 8 KiB buffer
    let spec = if rng.chance(1, 4) {
        format!("1:{}:{}:{}:{}", 1 + rng.usize(2), 1100 + rng.usize(400), rng.usize(100000), rng.usize(4))
    } else {
        format!("{}:{}", gen_spec(rng, &[0, 1, 2, 3, 4, 5, 6]), rng.usize(4))
    };
    let (_, trace) = fault_free(writer, &spec);
    for (sched, kind) in schedules_for(&trace) {
        let line = format!("C18 pqwfault {writer} {spec} {sched} {}", show_list(&trace));
        let tags = format!("op:pqwfault writer:{writer} fault:{kind} schema:{} nt", schema_name(spec_schema(&spec)));
        emit(sink, line, &tags);
    }
}

fn gen_rfault(sink: &mut Sink, rng: &mut Rng) {
    let reader = *rng.pick(&["ab", "ab", "md"]);
    let spec = format!("{}:{}", gen_spec(rng, &[0, 1, 2, 3, 4, 5, 6]), rng.usize(4));
    let data = file_bytes(&spec);
    let ctl = ReadCtl::new('N', 0);
    let (good, ok) = read_with(reader, data, ctl.clone());
    assert!(ok, "fault-free read of {reader} {spec}");
    for k in 0..ctl.calls() {
        for mode in ["E", "I", "S"] {
            let line = format!("C18 pqrfault {reader} {spec} {mode} {k} {}", good.len());
            let tags = format!("op:pqrfault reader:{reader} fault:{mode} schema:{} nt", schema_name(spec_schema(&spec)));
            emit(sink, line, &tags);
        }
    }
    let line = format!("C18 pqrfault {reader} {spec} A 0 {}", good.len());
    emit(sink, line, &format!("op:pqrfault reader:{reader} fault:A nt"));
}

fn main() {
    let args = parse_args();
    if std::env::var("VERIF_LOUD").is_err() {
        quiet_panics();
    }
    let mut sink = Sink::new(&args.out);
    if args.mode == "replay" {
        for line in read_cases(args.replay.as_ref().unwrap()) {
            emit(&mut sink, line, "replay");
        }
    } else {
        let mut rng = Rng::new(args.seed ^ 0xC18F);
        let n = n_cases(&args, 6, 60);
        for _ in 0..n {
            gen_pqf(&mut sink, &mut rng);
        }
        for _ in 0..n * 2 {
            gen_wfault(&mut sink, &mut rng);
        }
        for _ in 0..n * 2 {
            gen_rfault(&mut sink, &mut rng);
        }
    }
    sink.finish();
}
