//! C18 correspondence harness (Parquet part): truncation and I/O faults are reported, never
//! turned into wrong rows.
//!
//! Case lines (`<spec>` = `<schema>:<batches>:<rows>:<seed>:<props>` regenerates the input):
//!   C18 pqf <md|ab|sfr> <spec> <len> <k> <tail-hex>      model: reject | SKIP    impl: reject|accept
//!   C18 pqwfault <aw|awf|sfw> <spec> <sched> <trace>         model: accepted=<n> res=ok|err
//!   C18 pqrfault <ab|md> <spec> <E|I|S|A> <k> <n>        model: res=err | res=ok batches=<n> | SKIP
//!   C18 pqasync <spec> <E|T> <k> <n>                     model: res=err (E: fetch k fails) | SKIP (T: fetch k never
//!                                                        completes, the caller drops the future and asks again)
//! `props`: 0 default, 1 plain/uncompressed/no dictionary (+ an embedded complete Parquet file in
//! schema 4), 2 tiny row groups + bloom filters, 3 page-level statistics + small pages, 4/5 bloom
//! filters after each row group / at the end with several row groups, 6 bloom + page index + no
//! dictionary, 7 bloom + dictionary, 8 no statistics + small pages (see `props`).
//! Writer fault ops: after ANY error the harness calls flush/finish/finish/into_inner again and
//! requires that none of them reports Ok unless the sink holds exactly the fault-free file.
#[path = "../../../h-core/src/c18_common.rs"]
mod common;
use arrow_array::RecordBatch;
use arrow_schema::SchemaRef;
use bytes::Bytes;
use common::*;
use parquet::arrow::ArrowWriter;
use parquet::arrow::arrow_reader::ParquetRecordBatchReaderBuilder;
use parquet::basic::{Compression, Encoding};
use parquet::errors::{ParquetError, Result as PResult};
use parquet::file::metadata::ParquetMetaDataReader;
use parquet::file::properties::{EnabledStatistics, WriterProperties};
use parquet::file::reader::{ChunkReader, FileReader, Length, SerializedFileReader};
use std::collections::HashMap;
use std::io::Cursor;
use std::sync::{Arc, Mutex, OnceLock};
use vcommon::*;

type Fails = Vec<(String, String)>;

struct Input {
    schema: SchemaRef,
    batches: Vec<RecordBatch>,
}

fn cache() -> &'static Mutex<HashMap<String, Arc<Vec<u8>>>> {
    static C: OnceLock<Mutex<HashMap<String, Arc<Vec<u8>>>>> = OnceLock::new();
    C.get_or_init(|| Mutex::new(HashMap::new()))
}

fn cached(key: String, f: impl FnOnce() -> Vec<u8>) -> Arc<Vec<u8>> {
    if let Some(v) = cache().lock().unwrap().get(&key) {
        return v.clone();
    }
    let v = Arc::new(f());
    let mut c = cache().lock().unwrap();
    if c.len() > 64 {
        c.clear();
    }
    c.insert(key, v.clone());
    v
}

fn spec_props(spec: &str) -> usize {
    spec.split(':').nth(4).map(|x| x.parse().unwrap()).unwrap_or(0)
}
fn spec_schema(spec: &str) -> usize {
    spec.split(':').next().unwrap().parse::<usize>().unwrap() % N_SCHEMAS
}

/// writer-property grid (the 5th spec field)
const N_PROPS: usize = 9;
fn props(id: usize) -> WriterProperties {
    use parquet::file::properties::BloomFilterPosition;
    let b = WriterProperties::builder();
    match id {
        1 => b.set_dictionary_enabled(false).set_compression(Compression::UNCOMPRESSED).set_encoding(Encoding::PLAIN),
        2 => b.set_max_row_group_row_count(Some(3)).set_bloom_filter_enabled(true),
        3 => b.set_statistics_enabled(EnabledStatistics::Page).set_data_page_row_count_limit(2).set_write_batch_size(2),
        // bloom filters right after each row group (the default position), several row groups
        4 => b
            .set_bloom_filter_enabled(true)
            .set_bloom_filter_position(BloomFilterPosition::AfterRowGroup)
            .set_max_row_group_row_count(Some(700)),
        // bloom filters at the end of the file
        5 => b.set_bloom_filter_enabled(true).set_bloom_filter_position(BloomFilterPosition::End).set_max_row_group_row_count(Some(700)),
        // bloom + page index + no dictionary
        6 => b
            .set_bloom_filter_enabled(true)
            .set_statistics_enabled(EnabledStatistics::Page)
            .set_dictionary_enabled(false)
            .set_compression(Compression::UNCOMPRESSED),
        // bloom + dictionary, one big row group
        7 => b.set_bloom_filter_enabled(true).set_dictionary_enabled(true).set_statistics_enabled(EnabledStatistics::Chunk),
        // no statistics, small pages, several row groups
        8 => b.set_statistics_enabled(EnabledStatistics::None).set_data_page_size_limit(512).set_max_row_group_row_count(Some(500)),
        _ => b,
    }
    .build()
}

fn write_parquet(inp: &Input, p: usize) -> Vec<u8> {
    let mut w = ArrowWriter::try_new(Vec::new(), inp.schema.clone(), Some(props(p))).expect("writer");
    for b in &inp.batches {
        w.write(b).expect("write");
    }
    w.into_inner().expect("close")
}

/// a complete small Parquet file, embedded in binary values of schema 4 (props 1: stored verbatim)
fn inner_file() -> Vec<u8> {
    let (schema, batches) = make_batches("0:1:2:7", None);
    write_parquet(&Input { schema, batches }, 1)
}

fn input(spec: &str) -> Input {
    let e = if spec_schema(spec) == 4 && spec_props(spec) == 1 { Some(inner_file()) } else { None };
    let (schema, batches) = make_batches(spec, e.as_deref());
    Input { schema, batches }
}

fn file_bytes(spec: &str) -> Arc<Vec<u8>> {
    cached(format!("pq {spec}"), || write_parquet(&input(spec), spec_props(spec)))
}

// -------------------------------------------------------------------------------- reading

/// `ab`: default options; `abi`: page index (column + offset index) requested
fn read_ab_opt<R: ChunkReader + 'static>(src: R, page_index: bool) -> PResult<Vec<RecordBatch>> {
    use parquet::arrow::arrow_reader::ArrowReaderOptions;
    use parquet::file::metadata::PageIndexPolicy;
    let o = if page_index { ArrowReaderOptions::new().with_page_index_policy(PageIndexPolicy::Optional) } else { ArrowReaderOptions::new() };
    let b = ParquetRecordBatchReaderBuilder::try_new_with_options(src, o)?.with_batch_size(4);
    let r = b.build()?;
    let mut out = vec![];
    for x in r {
        out.push(x.map_err(|e| ParquetError::General(e.to_string()))?);
        if out.len() > 100000 {
            return Err(ParquetError::General("too many batches".into()));
        }
    }
    Ok(out)
}

/// `sfrp`: low-level page readers of every column chunk of every row group; returns the number of pages
fn read_pages<R: ChunkReader + 'static>(src: R) -> PResult<usize> {
    let r = SerializedFileReader::new(src)?;
    let mut n = 0;
    for g in 0..r.num_row_groups() {
        let rg = r.get_row_group(g)?;
        for c in 0..rg.num_columns() {
            let mut pr = rg.get_column_page_reader(c)?;
            while let Some(_page) = pr.get_next_page()? {
                n += 1;
                if n > 1_000_000 {
                    return Err(ParquetError::General("too many pages".into()));
                }
            }
        }
    }
    Ok(n)
}

/// `mdi`: metadata with the page index required... optional, through the sized entry point
fn read_md_index<R: ChunkReader>(src: &R) -> PResult<()> {
    use parquet::file::metadata::PageIndexPolicy;
    let mut r = ParquetMetaDataReader::new().with_page_index_policy(PageIndexPolicy::Optional);
    r.try_parse_sized(src, src.len())?;
    r.finish().map(|_| ())
}

fn read_ab<R: ChunkReader + 'static>(src: R) -> PResult<Vec<RecordBatch>> {
    let b = ParquetRecordBatchReaderBuilder::try_new(src)?.with_batch_size(4);
    let r = b.build()?;
    let mut out = vec![];
    for x in r {
        out.push(x.map_err(|e| ParquetError::General(e.to_string()))?);
        if out.len() > 100000 {
            return Err(ParquetError::General("too many batches".into()));
        }
    }
    Ok(out)
}

fn read_sfr(src: Bytes) -> PResult<usize> {
    let r = SerializedFileReader::new(src)?;
    let mut n = 0;
    for row in r.get_row_iter(None)? {
        row?;
        n += 1;
    }
    Ok(n)
}

fn same_rows(schema: &SchemaRef, got: &[RecordBatch], want: &[RecordBatch]) -> bool {
    let g = arrow_select::concat::concat_batches(schema, got);
    let w = arrow_select::concat::concat_batches(schema, want);
    match (g, w) {
        (Ok(g), Ok(w)) => g.num_rows() == w.num_rows() && g.columns() == w.columns(),
        _ => false,
    }
}

fn run_pqf(t: &[&str], fails: &mut Fails) -> String {
    let (reader, spec, len, k, tail) = (t[2], t[3], t[4].parse::<usize>().unwrap(), t[5].parse::<usize>().unwrap(), t[6]);
    let bytes = file_bytes(spec);
    if bytes.len() != len || k > len || hex(&bytes[k - k.min(8)..k]) != tail {
        return "bad-case".into();
    }
    let data = Bytes::from(bytes[..k].to_vec());
    let inp = input(spec);
    let ok = match reader {
        "md" => ParquetMetaDataReader::new().parse_and_finish(&data).is_ok(),
        "mdi" => read_md_index(&data).is_ok(),
        "sfrp" => read_pages(data).is_ok(),
        "abi" => {
            let r = read_ab_opt(data, true);
            if k == len {
                match &r {
                    Ok(b) if same_rows(&inp.schema, b, &inp.batches) => {}
                    Ok(_) => fails.push(("roundtrip".into(), "complete file does not read back as written".into())),
                    Err(e) => fails.push(("roundtrip".into(), format!("complete file rejected: {e}"))),
                }
            }
            r.is_ok()
        }
        "sfr" => {
            let r = read_sfr(data);
            if k == len && r.as_ref().ok() != Some(&total_rows(&inp.batches)) {
                fails.push(("roundtrip".into(), format!("complete file: row iterator gave {:?}", r.as_ref().ok())));
            }
            r.is_ok()
        }
        _ => {
            let r = read_ab(data);
            if k == len {
                match &r {
                    Ok(b) if same_rows(&inp.schema, b, &inp.batches) => {}
                    Ok(_) => fails.push(("roundtrip".into(), "complete file does not read back as written".into())),
                    Err(e) => fails.push(("roundtrip".into(), format!("complete file rejected: {e}"))),
                }
            }
            r.is_ok()
        }
    };
    if ok { "accept".into() } else { "reject".into() }
}

// ------------------------------------------------------------------------------ writer faults

/// after an error was returned: the caller tries to finalise anyway (cleanup path / retry);
/// record every later call that reports success
macro_rules! retry_after_error {
    ($res:expr, $sink:expr, $out:expr, $( $name:expr => $call:expr ),+ ) => {
        if $res.is_err() {
            $out.accepted_at_error = Some($sink.data().len());
            $( if $call.is_ok() { $out.later_ok.push($name.to_string()); } )+
        }
    };
}

/// low-level API: `SerializedFileWriter` with one row group per batch (int32 + optional binary)
fn drive_sfw(inp: &Input, spec: &str, sink: FaultSink, out: &mut Outcome) -> PResult<()> {
    use parquet::data_type::{ByteArray, ByteArrayType, Int32Type};
    let schema = Arc::new(parquet::schema::parser::parse_message_type("message m { required int32 a; optional binary b; }")?);
    let mut w = parquet::file::writer::SerializedFileWriter::new(sink.clone(), schema, Arc::new(props(spec_props(spec))))?;
    let mut go = || -> PResult<()> {
        for (bi, b) in inp.batches.iter().enumerate() {
            let n = b.num_rows();
            let a: Vec<i32> = (0..n as i32).map(|i| i.wrapping_mul(2654435) ^ bi as i32).collect();
            let defs: Vec<i16> = (0..n).map(|i| (i % 3 != 0) as i16).collect();
            let bv: Vec<ByteArray> = (0..n).filter(|i| i % 3 != 0).map(|i| ByteArray::from(format!("v{i}PAR1").as_str())).collect();
            let mut rg = w.next_row_group()?;
            let mut c = rg.next_column()?.expect("column a");
            c.typed::<Int32Type>().write_batch(&a, None, None)?;
            c.close()?;
            let mut c = rg.next_column()?.expect("column b");
            c.typed::<ByteArrayType>().write_batch(&bv, Some(&defs), None)?;
            c.close()?;
            rg.close()?;
        }
        Ok(())
    };
    let mut res = go();
    if res.is_ok() {
        res = w.finish().map(|_| ());
    }
    retry_after_error!(res, sink, out, "finish#1" => w.finish(), "finish#2" => w.finish(), "into_inner" => w.into_inner());
    sink.mark_done();
    res
}

/// `AsyncFileWriter` over the fault sink: `write(bytes)` = `write_all`, `complete` = `flush`
struct AsyncSinkW(FaultSink);
impl parquet::arrow::async_writer::AsyncFileWriter for AsyncSinkW {
    fn write(&mut self, bs: Bytes) -> futures::future::BoxFuture<'_, PResult<()>> {
        use futures::FutureExt;
        use std::io::Write;
        let r = self.0.write_all(&bs).map_err(|e| ParquetError::External(Box::new(e)));
        futures::future::ready(r).boxed()
    }
    fn complete(&mut self) -> futures::future::BoxFuture<'_, PResult<()>> {
        use futures::FutureExt;
        use std::io::Write;
        let r = self.0.flush().map_err(|e| ParquetError::External(Box::new(e)));
        futures::future::ready(r).boxed()
    }
}

fn block_on<F: std::future::Future>(f: F) -> F::Output {
    let mut f = Box::pin(f);
    let w = futures::task::noop_waker();
    let mut cx = std::task::Context::from_waker(&w);
    loop {
        if let std::task::Poll::Ready(v) = f.as_mut().poll(&mut cx) {
            return v;
        }
    }
}

/// `AsyncArrowWriter` (write / flush per batch for odd seeds / finish), then the retry family
fn drive_aaw(inp: &Input, spec: &str, sink: FaultSink, out: &mut Outcome) -> PResult<()> {
    let mut w = parquet::arrow::AsyncArrowWriter::try_new(AsyncSinkW(sink.clone()), inp.schema.clone(), Some(props(spec_props(spec))))?;
    let flush_each = spec.split(':').nth(3).unwrap().parse::<usize>().unwrap() % 2 == 1;
    let mut res = Ok(());
    for b in &inp.batches {
        res = block_on(w.write(b));
        if res.is_ok() && flush_each {
            res = block_on(w.flush());
        }
        if res.is_err() {
            break;
        }
    }
    if res.is_ok() {
        res = block_on(w.finish()).map(|_| ());
    }
    retry_after_error!(res, sink, out, "finish#1" => block_on(w.finish()), "finish#2" => block_on(w.finish()), "close" => block_on(w.close()));
    sink.mark_done();
    res
}

/// column-level API: `ArrowWriter::into_serialized_writer`, `ArrowRowGroupWriterFactory`,
/// `compute_leaves`, `ArrowColumnWriter::{write, close}`, `ArrowColumnChunk::append_to_row_group`
fn drive_acw(inp: &Input, spec: &str, sink: FaultSink, out: &mut Outcome) -> PResult<()> {
    use parquet::arrow::arrow_writer::compute_leaves;
    let w = ArrowWriter::try_new(sink.clone(), inp.schema.clone(), Some(props(spec_props(spec))))?;
    let (mut fw, factory) = w.into_serialized_writer()?;
    let mut go = || -> PResult<()> {
        for (i, b) in inp.batches.iter().enumerate() {
            let mut writers = factory.create_column_writers(i)?;
            let mut wi = writers.iter_mut();
            for (field, col) in inp.schema.fields().iter().zip(b.columns()) {
                for leaf in compute_leaves(field, col)? {
                    wi.next().expect("leaf writer").write(&leaf)?;
                }
            }
            let mut rg = fw.next_row_group()?;
            for cw in writers {
                cw.close()?.append_to_row_group(&mut rg)?;
            }
            rg.close()?;
        }
        Ok(())
    };
    let mut res = go();
    if res.is_ok() {
        res = fw.finish().map(|_| ());
    }
    retry_after_error!(res, sink, out, "finish#1" => fw.finish(), "finish#2" => fw.finish(), "into_inner" => fw.into_inner());
    sink.mark_done();
    res
}

fn drive_writer(writer: &str, inp: &Input, spec: &str, sink: FaultSink, out: &mut Outcome) -> PResult<()> {
    if writer == "sfw" {
        return drive_sfw(inp, spec, sink, out);
    }
    if writer == "aaw" {
        return drive_aaw(inp, spec, sink, out);
    }
    if writer == "acw" {
        return drive_acw(inp, spec, sink, out);
    }
    let mut w = ArrowWriter::try_new(sink.clone(), inp.schema.clone(), Some(props(spec_props(spec))))?;
    let mut res = Ok(());
    for b in &inp.batches {
        res = w.write(b);
        if res.is_ok() && writer == "awf" {
            // flush the row group after every batch
            res = w.flush();
        }
        if res.is_err() {
            break;
        }
    }
    if res.is_ok() {
        res = w.finish().map(|_| ());
    }
    retry_after_error!(res, sink, out, "finish#1" => w.finish(), "finish#2" => w.finish(), "into_inner" => w.into_inner());
    sink.mark_done();
    res
}

fn fault_free(writer: &str, spec: &str) -> (Arc<Vec<u8>>, Vec<String>) {
    let key = format!("ff {writer} {spec}");
    let tkey = format!("fft {writer} {spec}");
    let hit = {
        let c = cache().lock().unwrap();
        match (c.get(&key), c.get(&tkey)) {
            (Some(d), Some(t)) => Some((d.clone(), t.clone())),
            _ => None,
        }
    };
    if let Some((d, t)) = hit {
        return (d, String::from_utf8(t.as_ref().clone()).unwrap().split(',').map(|x| x.to_string()).collect());
    }
    let inp = input(spec);
    let sink = FaultSink::new(vec![], false);
    let mut out = Outcome::default();
    drive_writer(writer, &inp, spec, sink.clone(), &mut out).expect("fault-free write");
    let (d, t) = (Arc::new(sink.data()), sink.trace());
    let mut c = cache().lock().unwrap();
    c.insert(key, d.clone());
    c.insert(tkey, Arc::new(t.join(",").into_bytes()));
    (d, t)
}

fn run_wfault(t: &[&str], fails: &mut Fails) -> String {
    let (writer, spec, sched, trace) = (t[2], t[3], t[4], t[5]);
    let (good, good_trace) = fault_free(writer, spec);
    if show_list(&good_trace) != trace {
        return "bad-case".into();
    }
    let inp = input(spec);
    let sink = FaultSink::new(parse_sched(sched), true);
    let mut out = Outcome::default();
    let res = drive_writer(writer, &inp, spec, sink.clone(), &mut out);
    let data = sink.data();
    let accepted = sink.accepted(out.accepted_at_error);
    if !is_prefix(&data[..accepted.min(data.len())], &good) {
        fails.push(("not-a-prefix".into(), format!("sink holds {accepted} bytes that are not a prefix of the fault-free output")));
    }
    if res.is_ok() && data != *good {
        fails.push((
            "ok-but-incomplete".into(),
            format!("writer reported success but the sink holds {} of {} bytes", data.len(), good.len()),
        ));
    }
    // sticky failure: after an error no later finish/close/into_inner may report success unless the
    // sink ended up holding exactly the complete fault-free file
    if !out.later_ok.is_empty() && data != *good {
        fails.push((
            if writer == "aaw" { "kf:parquet-async-ok-after-failed-write".to_string() } else { "ok-after-error".to_string() },
            format!(
                "{} returned Ok after an earlier call had failed, but the sink holds {} bytes that are not the fault-free file ({} bytes)",
                out.later_ok.join("+"),
                data.len(),
                good.len()
            ),
        ));
    }
    if res.is_ok() {
        // the writer said Ok: what the sink holds must read back as the rows written
        let bytes = Bytes::from(data.clone());
        let why = if writer == "sfw" {
            match read_sfr(bytes) {
                Ok(n) if n == total_rows(&inp.batches) => None,
                Ok(n) => Some(format!("reads back as {n} rows, {} written", total_rows(&inp.batches))),
                Err(e) => Some(format!("rejected by the reader: {e}")),
            }
        } else {
            match read_ab(bytes) {
                Ok(b) if same_rows(&inp.schema, &b, &inp.batches) => None,
                Ok(_) => Some("reads back as different rows".into()),
                Err(e) => Some(format!("rejected by the reader: {e}")),
            }
        };
        if let Some(why) = why {
            fails.push(("ok-but-unreadable".into(), format!("output of a successful writer {why}")));
        }
    }
    format!("accepted={accepted} res={}", if res.is_ok() { "ok" } else { "err" })
}

// ------------------------------------------------------------------------------ reader faults

/// a `ChunkReader` over bytes whose calls (`get_read`, `get_bytes`, and every `read` of a
/// reader it handed out) go through the fault gate
struct FaultChunk {
    data: Bytes,
    ctl: ReadCtl,
}
impl Length for FaultChunk {
    fn len(&self) -> u64 {
        self.data.len() as u64
    }
}
impl ChunkReader for FaultChunk {
    type T = FaultRead<Cursor<Bytes>>;
    fn get_read(&self, start: u64) -> PResult<Self::T> {
        self.ctl.gate().map_err(|e| ParquetError::External(Box::new(e)))?;
        if start as usize > self.data.len() {
            return Err(ParquetError::EOF("start beyond the end".into()));
        }
        Ok(FaultRead { inner: Cursor::new(self.data.slice(start as usize..)), ctl: self.ctl.clone() })
    }
    fn get_bytes(&self, start: u64, length: usize) -> PResult<Bytes> {
        self.ctl.gate().map_err(|e| ParquetError::External(Box::new(e)))?;
        let s = start as usize;
        if s > self.data.len() || s + length > self.data.len() {
            return Err(ParquetError::EOF("range beyond the end".into()));
        }
        Ok(self.data.slice(s..s + length))
    }
}

fn read_with(reader: &str, data: Arc<Vec<u8>>, ctl: ReadCtl) -> (Vec<RecordBatch>, bool) {
    let src = FaultChunk { data: Bytes::from(data.as_ref().clone()), ctl };
    match reader {
        "md" => (vec![], ParquetMetaDataReader::new().parse_and_finish(&src).is_ok()),
        "mdi" => (vec![], read_md_index(&src).is_ok()),
        "sfrp" => (vec![], read_pages(src).is_ok()),
        "sfr" => {
            let r = (|| -> PResult<usize> {
                let r = SerializedFileReader::new(src)?;
                let mut n = 0;
                for row in r.get_row_iter(None)? {
                    row?;
                    n += 1;
                }
                Ok(n)
            })();
            (vec![], r.is_ok())
        }
        "abi" => match read_ab_opt(src, true) {
            Ok(b) => (b, true),
            Err(_) => (vec![], false),
        },
        _ => {
            // collect what was yielded before an error, too
            let b = match ParquetRecordBatchReaderBuilder::try_new(src) {
                Ok(b) => b.with_batch_size(4),
                Err(_) => return (vec![], false),
            };
            let r = match b.build() {
                Ok(r) => r,
                Err(_) => return (vec![], false),
            };
            let mut got = vec![];
            for x in r {
                match x {
                    Ok(b) => got.push(b),
                    Err(_) => return (got, false),
                }
                if got.len() > 100000 {
                    return (got, false);
                }
            }
            (got, true)
        }
    }
}

fn run_rfault(t: &[&str], fails: &mut Fails) -> String {
    let (reader, spec, mode, k, n) = (t[2], t[3], t[4].chars().next().unwrap(), t[5].parse::<usize>().unwrap(), t[6]);
    let data = file_bytes(spec);
    let (good, ok) = read_with(reader, data.clone(), ReadCtl::new('N', 0));
    if !ok || good.len().to_string() != n {
        return "bad-case".into();
    }
    let ctl = ReadCtl::new(mode, k);
    let (got, ok) = read_with(reader, data, ctl.clone());
    if ctl.0.lock().unwrap().budget_exceeded {
        fails.push(("hang".into(), "reader made more than 5M calls on its source".into()));
    }
    if got.len() > good.len() || got.iter().zip(good.iter()).any(|(a, b)| a != b) {
        fails.push(("rows-not-written".into(), "batches under a fault are not a prefix of the fault-free batches".into()));
    }
    if ok && got.len() != good.len() {
        fails.push(("ok-but-short".into(), format!("reader reported a clean end after {} of {} batches", got.len(), good.len())));
    }
    if ok { format!("res=ok batches={}", got.len()) } else { "res=err".into() }
}

// ------------------------------------------------------------------------------- async stream

/// `AsyncFileReader` over bytes: `get_bytes` call `k` fails (mode E) or never completes (mode T)
struct AsyncSrc {
    data: Bytes,
    mode: char,
    k: usize,
    calls: Arc<Mutex<usize>>,
}
impl parquet::arrow::async_reader::AsyncFileReader for AsyncSrc {
    fn get_bytes(&mut self, range: std::ops::Range<u64>) -> futures::future::BoxFuture<'_, PResult<Bytes>> {
        use futures::FutureExt;
        let i = {
            let mut c = self.calls.lock().unwrap();
            *c += 1;
            *c - 1
        };
        if i == self.k && self.mode == 'E' {
            return futures::future::ready(Err(ParquetError::External(Box::new(std::io::Error::other("injected: fetch failed"))))).boxed();
        }
        if i == self.k && self.mode == 'T' {
            return futures::future::pending().boxed();
        }
        let b = self.data.slice(range.start as usize..range.end as usize);
        futures::future::ready(Ok(b)).boxed()
    }
    fn get_metadata<'a>(
        &'a mut self,
        _o: Option<&'a parquet::arrow::arrow_reader::ArrowReaderOptions>,
    ) -> futures::future::BoxFuture<'a, PResult<Arc<parquet::file::metadata::ParquetMetaData>>> {
        use futures::FutureExt;
        let r = ParquetMetaDataReader::new().parse_and_finish(&self.data).map(Arc::new);
        futures::future::ready(r).boxed()
    }
}

/// drive `ParquetRecordBatchStream::next_row_group`; a future that is still pending after a few
/// polls is dropped (the caller's timeout) and the call is retried.
/// Returns (batches, saw_error, timeouts, number of get_bytes calls)
fn run_async(data: Bytes, mode: char, k: usize) -> (usize, bool, usize, usize) {
    use std::future::Future;
    use std::task::{Context, Poll};
    let calls = Arc::new(Mutex::new(0usize));
    let src = AsyncSrc { data, mode, k, calls: calls.clone() };
    let w = futures::task::noop_waker();
    let mut cx = Context::from_waker(&w);
    let mut fb = Box::pin(parquet::arrow::ParquetRecordBatchStreamBuilder::new(src));
    let builder = loop {
        if let Poll::Ready(v) = fb.as_mut().poll(&mut cx) {
            break v;
        }
    };
    let mut stream = match builder.and_then(|b| b.with_batch_size(4).build()) {
        Ok(s) => s,
        Err(_) => return (0, true, 0, *calls.lock().unwrap()),
    };
    let (mut batches, mut err, mut timeouts) = (0usize, false, 0usize);
    for _round in 0..10000 {
        let mut fut = Box::pin(stream.next_row_group());
        let mut out = None;
        for _ in 0..4 {
            if let Poll::Ready(v) = fut.as_mut().poll(&mut cx) {
                out = Some(v);
                break;
            }
        }
        drop(fut);
        match out {
            None => {
                // timeout: the pending future was dropped; the caller asks again
                timeouts += 1;
                if timeouts > 3 {
                    break;
                }
            }
            Some(Ok(Some(reader))) => {
                for b in reader {
                    match b {
                        Ok(_) => batches += 1,
                        Err(_) => {
                            err = true;
                            break;
                        }
                    }
                }
            }
            Some(Ok(None)) => break,
            Some(Err(_)) => {
                err = true;
                // documented: all subsequent calls return Ok(None); keep going to observe it
            }
        }
    }
    (batches, err, timeouts, *calls.lock().unwrap())
}

/// C18 pqasync <spec> <E|T> <k> <n>
fn run_pqasync(t: &[&str], fails: &mut Fails) -> String {
    let (spec, mode, k, n) = (t[2], t[3].chars().next().unwrap(), t[4].parse::<usize>().unwrap(), t[5]);
    let data = Bytes::from(file_bytes(spec).as_ref().clone());
    let (good, gerr, _, _) = run_async(data.clone(), 'N', 0);
    if gerr || good.to_string() != n {
        return "bad-case".into();
    }
    let (got, err, timeouts, _) = run_async(data, mode, k);
    if got > good {
        fails.push(("rows-not-written".into(), format!("{got} batches under a fault, {good} without")));
    }
    if err {
        "res=err".into()
    } else if timeouts > 0 {
        // no error was ever reported although a request was abandoned
        format!("res=ok batches={got} timeouts={timeouts}")
    } else {
        format!("res=ok batches={got}")
    }
}

// --------------------------------------------------------------------------------------- main

fn run_case_inner(line: &str, fails: &mut Fails) -> String {
    let t: Vec<&str> = line.split(' ').collect();
    assert_eq!(t[0], "C18");
    match t[1] {
        "pqf" => run_pqf(&t, fails),
        "pqwfault" => run_wfault(&t, fails),
        "pqrfault" => run_rfault(&t, fails),
        "pqasync" => run_pqasync(&t, fails),
        _ => "bad-op".into(),
    }
}

fn run_case(line: &str) -> (String, Fails) {
    let l = line.to_string();
    let out = Arc::new(Mutex::new(Fails::new()));
    let o2 = out.clone();
    let a = with_timeout(20, move || {
        let mut fails = Fails::new();
        let a = run_case_inner(&l, &mut fails);
        *o2.lock().unwrap() = fails;
        a
    });
    let mut fails = std::mem::take(&mut *out.lock().unwrap());
    if a == "PANIC" || a == "HANG" {
        fails.push((a.to_lowercase(), format!("the real code answered {a}")));
    }
    (a, fails)
}

fn emit(sink: &mut Sink, line: String, tags: &str) {
    let (a, fails) = run_case(&line);
    for (what, detail) in fails {
        sink.oracle_failure(line.clone(), format!("{what}: {detail}"), &format!("{tags} fail:{what}"));
    }
    sink.case(line, a, tags);
}

fn nt(k: usize, len: usize) -> &'static str {
    if k > 0 && k < len { "nt" } else { "" }
}

fn gen_pqf(sink: &mut Sink, rng: &mut Rng) {
    let sid = *rng.pick(&[0usize, 1, 2, 3, 4, 4, 5, 6]);
    let p = if sid == 4 { *rng.pick(&[1usize, 1, 0]) } else { rng.usize(N_PROPS) };
    let spec = format!("{}:{p}", gen_spec(rng, &[sid]));
    let bytes = file_bytes(&spec);
    static NEXT: std::sync::atomic::AtomicUsize = std::sync::atomic::AtomicUsize::new(0);
    let reader = ["md", "ab", "sfr", "mdi", "abi", "sfrp"][NEXT.fetch_add(1, std::sync::atomic::Ordering::Relaxed) % 6];
    for k in 0..=bytes.len() {
        let line = format!("C18 pqf {reader} {spec} {} {k} {}", bytes.len(), hex(&bytes[k - k.min(8)..k]));
        let tags = format!("op:pqf reader:{reader} schema:{} props:{p} {}", schema_name(sid), nt(k, bytes.len()));
        emit(sink, line, &tags);
    }
}

const PQ_WRITERS: [&str; 5] = ["aw", "sfw", "awf", "aaw", "acw"];

fn gen_wfault(sink: &mut Sink, rng: &mut Rng, i: usize) {
    let writer = PQ_WRITERS[i % PQ_WRITERS.len()];
    // input classes (every writer meets every class): small (all schemas, whole property grid); row groups > 8 KiB
    // (the writer's internal buffer) with bloom filters in both positions; one file > 64 KiB
    let bloomy = [4usize, 5, 6, 7, 2];
    let (spec, large) = match (i / PQ_WRITERS.len()) % 6 {
        0 => (format!("{}:{}", gen_spec(rng, &[0, 1, 2, 3, 4, 5, 6]), rng.usize(N_PROPS)), false),
        1 => (format!("{}:{}", gen_spec(rng, &[0, 1, 2, 3, 4, 5, 6]), bloomy[rng.usize(5)]), false),
        // row groups > 8 KiB with bloom filters: 1..3 row groups, both positions, dictionary on/off
        2 => (format!("1:{}:{}:{}:{}", 1 + rng.usize(2), 1100 + rng.usize(900), rng.usize(100000), [7usize, 6, 4][i % 3]), true),
        3 => (format!("1:3:{}:{}:{}", 1100 + rng.usize(500), rng.usize(100000), [4usize, 7, 6][i % 3]), true),
        4 => (format!("1:2:{}:{}:{}", 1400 + rng.usize(800), rng.usize(100000), [5usize, 4, 7][i % 3]), true),
        // > 64 KiB
        _ => (format!("1:2:{}:{}:{}", 4200 + rng.usize(600), rng.usize(100000), [4usize, 5, 8, 0][(i / 30 + i) % 4]), true),
    };
    let (_, trace) = fault_free(writer, &spec);
    let scheds = if large { schedules_for_large(&trace) } else { schedules_for(&trace) };
    for (sched, kind) in scheds {
        let line = format!("C18 pqwfault {writer} {spec} {sched} {}", show_list(&trace));
        let tags = format!(
            "op:pqwfault writer:{writer} fault:{kind} schema:{} props:{} {} nt",
            schema_name(spec_schema(&spec)),
            spec_props(&spec),
            if large { "size:large" } else { "size:small" }
        );
        emit(sink, line, &tags);
    }
}

fn gen_rfault(sink: &mut Sink, rng: &mut Rng) {
    static NEXT: std::sync::atomic::AtomicUsize = std::sync::atomic::AtomicUsize::new(0);
    let reader = ["ab", "md", "abi", "sfr", "mdi", "sfrp"][NEXT.fetch_add(1, std::sync::atomic::Ordering::Relaxed) % 6];
    let spec = format!("{}:{}", gen_spec(rng, &[0, 1, 2, 3, 4, 5, 6]), rng.usize(N_PROPS));
    let data = file_bytes(&spec);
    let ctl = ReadCtl::new('N', 0);
    let (good, ok) = read_with(reader, data, ctl.clone());
    assert!(ok, "fault-free read of {reader} {spec}");
    for k in 0..ctl.calls() {
        for mode in ["E", "I", "S"] {
            let line = format!("C18 pqrfault {reader} {spec} {mode} {k} {}", good.len());
            let tags = format!("op:pqrfault reader:{reader} fault:{mode} schema:{} nt", schema_name(spec_schema(&spec)));
            emit(sink, line, &tags);
        }
    }
    let line = format!("C18 pqrfault {reader} {spec} A 0 {}", good.len());
    emit(sink, line, &format!("op:pqrfault reader:{reader} fault:A nt"));
}

fn gen_async(sink: &mut Sink, rng: &mut Rng) {
    let spec = format!("{}:{}", gen_spec(rng, &[0, 1, 2, 3, 4, 5, 6]), rng.usize(4));
    let data = Bytes::from(file_bytes(&spec).as_ref().clone());
    let (good, err, _, calls) = run_async(data, 'N', 0);
    assert!(!err, "fault-free async read of {spec}");
    for k in 0..calls {
        for mode in ["E", "T"] {
            let line = format!("C18 pqasync {spec} {mode} {k} {good}");
            let (a, fails) = run_case(&line);
            // a request abandoned by the caller (timeout) followed by a clean end with rows missing:
            // recorded as a probe (cancellation is outside the property's fault list), never a violation
            let probe = if mode == "T" && a.starts_with("res=ok") && a != format!("res=ok batches={good}") {
                "probe:cancel-then-clean-end-rows-lost"
            } else if mode == "T" {
                "probe:cancel-other"
            } else {
                ""
            };
            let tags = format!("op:pqasync fault:{mode} schema:{} nt {probe}", schema_name(spec_schema(&spec)));
            for (what, detail) in fails {
                sink.oracle_failure(line.clone(), format!("{what}: {detail}"), &format!("{tags} fail:{what}"));
            }
            sink.case(line, a, &tags);
        }
    }
}

fn main() {
    let args = parse_args();
    if std::env::var("VERIF_LOUD").is_err() {
        quiet_panics();
    }
    let mut sink = Sink::new(&args.out);
    if args.mode == "replay" {
        for line in read_cases(args.replay.as_ref().unwrap()) {
            emit(&mut sink, line, "replay");
        }
    } else {
        let mut rng = Rng::new(args.seed ^ 0xC18F);
        let n = n_cases(&args, 6, 60);
        for _ in 0..n {
            gen_pqf(&mut sink, &mut rng);
        }
        for i in 0..n * PQ_WRITERS.len() {
            gen_wfault(&mut sink, &mut rng, i);
        }
        for _ in 0..n {
            gen_async(&mut sink, &mut rng);
        }
        for _ in 0..n * 2 {
            gen_rfault(&mut sink, &mut rng);
        }
    }
    sink.finish();
}
