//! C07 correspondence harness: statistics, page indexes and bloom filters of the parquet
//! writer never exclude present data.
//!
//! Case lines
//!   C07 stats <kind> <stl> <cil> <wbs> <rowlimit> <flags> <batches>
//!       column-writer API, required column, EnabledStatistics::Page, one `write_batch`
//!       per batch; answer = chunk min/max (+exact flags), boundary order and the page
//!       min/max lists of the column index — compared with the Lean model.
//!   C07 file <api> <kind> <stl> <cil> <level> <wbs> <rowlimit> <flags> <bloom> <batches>
//!       api = cw | aw (ArrowWriter); values may be null (`n`); the harness checks the
//!       property directly on the written file (oracle); answer = rows/nulls/nans summary.
//!   C07 bloom <nbytes> <folds> <fppbits> <values> <hashes>
//!       Sbbf::new_with_num_of_bytes + insert + fold_to_target_fpp; answer = bitset.
//! values: batches separated by `;`, items by `,`; `n` = null, `e` = empty byte string,
//! `-` = empty batch, otherwise lower-case hex of the plain-encoded bytes.
use std::cmp::Ordering;
use std::sync::Arc;

use arrow_array::{
    ArrayRef, BinaryArray, BooleanArray, Decimal128Array, FixedSizeBinaryArray, Float16Array, Float32Array,
    Array, Float64Array, Int32Array, Int64Array, ListArray, RecordBatch, StringArray, UInt32Array, UInt64Array,
};
use arrow_buffer::{NullBuffer, OffsetBuffer};
use arrow_schema::{DataType as ArrowType, Field, Schema};
use bytes::Bytes;
use parquet::arrow::ArrowWriter;
use parquet::basic::{BoundaryOrder, ColumnOrder, ConvertedType, LogicalType, Repetition, Type as PhysicalType};
use parquet::bloom_filter::Sbbf;
use parquet::column::page::Page;
use parquet::data_type::{
    AsBytes, BoolType, ByteArray, ByteArrayType, DoubleType, FixedLenByteArray, FixedLenByteArrayType, FloatType,
    Int32Type, Int64Type, Int96, Int96Type,
};
use parquet::file::metadata::{PageIndexPolicy, ParquetMetaData, ParquetMetaDataReader};
use parquet::file::page_index::column_index::ColumnIndexMetaData;
use parquet::file::properties::{EnabledStatistics, ReaderProperties, WriterProperties, WriterVersion};
use parquet::file::reader::{FileReader, SerializedFileReader};
use parquet::file::serialized_reader::ReadOptionsBuilder;
use parquet::file::writer::SerializedFileWriter;
use parquet::schema::types::Type as SchemaType;
use vcommon::*;

// ------------------------------------------------------------------------------- kinds

#[derive(Clone, Copy, PartialEq, Debug)]
enum Kind {
    I32,
    U32,
    I64,
    U64,
    F32,
    F64,
    F16,
    DecBa,
    DecFlba(usize),
    Utf8,
    Bin,
    Flba(usize),
    Bool,
    /// FIXED_LEN_BYTE_ARRAY(12) with converted type INTERVAL: undefined order, no min/max
    Interval,
    /// INT96 (deprecated timestamp): undefined order
    Int96,
}

fn parse_kind(s: &str) -> Kind {
    match s {
        "i32" => Kind::I32,
        "u32" => Kind::U32,
        "i64" => Kind::I64,
        "u64" => Kind::U64,
        "f32" => Kind::F32,
        "f64" => Kind::F64,
        "f16" => Kind::F16,
        "decba" => Kind::DecBa,
        "utf8" => Kind::Utf8,
        "bin" => Kind::Bin,
        "bool" => Kind::Bool,
        "interval" => Kind::Interval,
        "int96" => Kind::Int96,
        _ => {
            if let Some(n) = s.strip_prefix("decflba") {
                Kind::DecFlba(n.parse().unwrap())
            } else if let Some(n) = s.strip_prefix("flba") {
                Kind::Flba(n.parse().unwrap())
            } else {
                panic!("kind")
            }
        }
    }
}
fn kind_name(k: Kind) -> String {
    match k {
        Kind::I32 => "i32".into(),
        Kind::U32 => "u32".into(),
        Kind::I64 => "i64".into(),
        Kind::U64 => "u64".into(),
        Kind::F32 => "f32".into(),
        Kind::F64 => "f64".into(),
        Kind::F16 => "f16".into(),
        Kind::DecBa => "decba".into(),
        Kind::DecFlba(n) => format!("decflba{}", n),
        Kind::Utf8 => "utf8".into(),
        Kind::Bin => "bin".into(),
        Kind::Flba(n) => format!("flba{}", n),
        Kind::Bool => "bool".into(),
        Kind::Interval => "interval".into(),
        Kind::Int96 => "int96".into(),
    }
}

/// sign-extended big-endian two's complement (≤ 16 bytes)
fn dec_value(b: &[u8]) -> i128 {
    if b.is_empty() {
        return 0;
    }
    let mut v: i128 = if b[0] & 0x80 != 0 { -1 } else { 0 };
    for x in b {
        v = (v << 8) | (*x as i128);
    }
    v
}

fn is_nan(k: Kind, b: &[u8]) -> bool {
    match k {
        Kind::F32 => f32::from_le_bytes(b.try_into().unwrap()).is_nan(),
        Kind::F64 => f64::from_le_bytes(b.try_into().unwrap()).is_nan(),
        Kind::F16 => half::f16::from_le_bytes(b.try_into().unwrap()).is_nan(),
        _ => false,
    }
}

/// the column's sort order on plain-encoded values (decimals compared as integers!)
fn cmp_values(k: Kind, total_order: bool, a: &[u8], b: &[u8]) -> Ordering {
    match k {
        Kind::I32 => i32::from_le_bytes(a.try_into().unwrap()).cmp(&i32::from_le_bytes(b.try_into().unwrap())),
        Kind::U32 => u32::from_le_bytes(a.try_into().unwrap()).cmp(&u32::from_le_bytes(b.try_into().unwrap())),
        Kind::I64 => i64::from_le_bytes(a.try_into().unwrap()).cmp(&i64::from_le_bytes(b.try_into().unwrap())),
        Kind::U64 => u64::from_le_bytes(a.try_into().unwrap()).cmp(&u64::from_le_bytes(b.try_into().unwrap())),
        Kind::F32 => {
            let (x, y) = (f32::from_le_bytes(a.try_into().unwrap()), f32::from_le_bytes(b.try_into().unwrap()));
            if total_order || x.is_nan() || y.is_nan() { x.total_cmp(&y) } else { x.partial_cmp(&y).unwrap() }
        }
        Kind::F64 => {
            let (x, y) = (f64::from_le_bytes(a.try_into().unwrap()), f64::from_le_bytes(b.try_into().unwrap()));
            if total_order || x.is_nan() || y.is_nan() { x.total_cmp(&y) } else { x.partial_cmp(&y).unwrap() }
        }
        Kind::F16 => {
            let (x, y) =
                (half::f16::from_le_bytes(a.try_into().unwrap()), half::f16::from_le_bytes(b.try_into().unwrap()));
            if total_order || x.is_nan() || y.is_nan() { x.total_cmp(&y) } else { x.partial_cmp(&y).unwrap() }
        }
        Kind::DecBa | Kind::DecFlba(_) => dec_value(a).cmp(&dec_value(b)),
        Kind::Utf8 | Kind::Bin | Kind::Flba(_) | Kind::Interval | Kind::Int96 => a.cmp(b),
        Kind::Bool => a[0].cmp(&b[0]),
    }
}

// ------------------------------------------------------------------------------ config

#[derive(Clone, Debug)]
struct Cfg {
    stl: usize,      // statistics_truncate_length, 0 = None
    cil: usize,      // column_index_truncate_length, 0 = None
    level: u8,       // 0 None, 1 Chunk, 2 Page
    wbs: usize,      // write_batch_size
    rowlimit: usize, // data_page_row_count_limit
    flags: u32,      // 1 dictionary, 2 v2, 4 nullable, 8 page header statistics, 16 sliced arrays + junk under nulls (aw),
                     // 32 write_batch_with_statistics (cw), 64 bloom filters at the end of the file
    bloom: u8,       // 0 off, else index into BLOOM table
    rg: usize,       // rows per row group (0 = one row group)
}
const BLOOM: [(u64, f64); 6] = [(0, 0.0), (1, 0.5), (4, 0.1), (64, 0.01), (1000, 0.05), (200000, 0.01)];

fn props(cfg: &Cfg) -> WriterProperties {
    let mut b = WriterProperties::builder()
        .set_statistics_truncate_length(if cfg.stl == 0 { None } else { Some(cfg.stl) })
        .set_column_index_truncate_length(if cfg.cil == 0 { None } else { Some(cfg.cil) })
        .set_statistics_enabled(match cfg.level {
            0 => EnabledStatistics::None,
            1 => EnabledStatistics::Chunk,
            _ => EnabledStatistics::Page,
        })
        .set_write_batch_size(cfg.wbs)
        .set_data_page_row_count_limit(cfg.rowlimit)
        .set_dictionary_enabled(cfg.flags & 1 != 0)
        .set_writer_version(if cfg.flags & 2 != 0 { WriterVersion::PARQUET_2_0 } else { WriterVersion::PARQUET_1_0 })
        .set_write_page_header_statistics(cfg.flags & 8 != 0);
    if cfg.rg != 0 {
        b = b.set_max_row_group_row_count(Some(cfg.rg));
    }
    if cfg.flags & 64 != 0 {
        b = b.set_bloom_filter_position(parquet::file::properties::BloomFilterPosition::End);
    }
    if cfg.bloom != 0 {
        let (ndv, fpp) = BLOOM[cfg.bloom as usize];
        b = b.set_bloom_filter_enabled(true).set_bloom_filter_max_ndv(ndv).set_bloom_filter_fpp(fpp);
    }
    b.build()
}

fn schema(kind: Kind, nullable: bool) -> Arc<SchemaType> {
    let (pt, lt, len, prec): (PhysicalType, Option<LogicalType>, i32, i32) = match kind {
        Kind::I32 => (PhysicalType::INT32, None, -1, -1),
        Kind::U32 => (PhysicalType::INT32, Some(LogicalType::integer(32, false)), -1, -1),
        Kind::I64 => (PhysicalType::INT64, None, -1, -1),
        Kind::U64 => (PhysicalType::INT64, Some(LogicalType::integer(64, false)), -1, -1),
        Kind::F32 => (PhysicalType::FLOAT, None, -1, -1),
        Kind::F64 => (PhysicalType::DOUBLE, None, -1, -1),
        Kind::F16 => (PhysicalType::FIXED_LEN_BYTE_ARRAY, Some(LogicalType::Float16), 2, -1),
        Kind::DecBa => (PhysicalType::BYTE_ARRAY, Some(LogicalType::decimal(0, 38)), -1, 38),
        Kind::DecFlba(n) => {
            // largest precision an n-byte two's complement number always holds
            let p = ((8.0 * n as f64 - 1.0) * std::f64::consts::LOG10_2).floor().max(1.0) as i32;
            (PhysicalType::FIXED_LEN_BYTE_ARRAY, Some(LogicalType::decimal(0, p.min(38))), n as i32, p.min(38))
        }
        Kind::Utf8 => (PhysicalType::BYTE_ARRAY, Some(LogicalType::String), -1, -1),
        Kind::Bin => (PhysicalType::BYTE_ARRAY, None, -1, -1),
        Kind::Flba(n) => (PhysicalType::FIXED_LEN_BYTE_ARRAY, None, n as i32, -1),
        Kind::Bool => (PhysicalType::BOOLEAN, None, -1, -1),
        Kind::Interval => (PhysicalType::FIXED_LEN_BYTE_ARRAY, None, 12, -1),
        Kind::Int96 => (PhysicalType::INT96, None, -1, -1),
    };
    let mut b = SchemaType::primitive_type_builder("c", pt)
        .with_repetition(if nullable { Repetition::OPTIONAL } else { Repetition::REQUIRED })
        .with_logical_type(lt);
    if kind == Kind::Interval {
        b = b.with_converted_type(ConvertedType::INTERVAL);
    }
    if len >= 0 {
        b = b.with_length(len);
    }
    if prec >= 0 {
        b = b.with_precision(prec).with_scale(0);
    }
    let col = b.build().expect("column type");
    Arc::new(SchemaType::group_type_builder("schema").with_fields(vec![Arc::new(col)]).build().unwrap())
}

type Batch = Vec<Option<Vec<u8>>>;

fn parse_batches(s: &str) -> Vec<Batch> {
    s.split(';')
        .map(|b| {
            if b == "-" {
                vec![]
            } else {
                b.split(',')
                    .map(|v| match v {
                        "n" => None,
                        "e" => Some(vec![]),
                        h => Some(unhex(h)),
                    })
                    .collect()
            }
        })
        .collect()
}
fn show_batches(bs: &[Batch]) -> String {
    bs.iter()
        .map(|b| {
            if b.is_empty() {
                "-".to_string()
            } else {
                b.iter()
                    .map(|v| match v {
                        None => "n".to_string(),
                        Some(x) if x.is_empty() => "e".to_string(),
                        Some(x) => hex(x),
                    })
                    .collect::<Vec<_>>()
                    .join(",")
            }
        })
        .collect::<Vec<_>>()
        .join(";")
}

// ------------------------------------------------------------------------------ writers

/// true minimum / maximum of the non-null, non-NaN values of a batch under the column order
fn batch_min_max(kind: Kind, b: &Batch) -> Option<(Vec<u8>, Vec<u8>)> {
    let vals: Vec<&Vec<u8>> = b.iter().flatten().filter(|v| !is_nan(kind, v)).collect();
    let mn = vals.iter().min_by(|x, y| cmp_values(kind, true, x, y))?;
    let mx = vals.iter().max_by(|x, y| cmp_values(kind, true, x, y))?;
    Some(((*mn).clone(), (*mx).clone()))
}

fn write_cw(kind: Kind, cfg: &Cfg, batches: &[Batch]) -> Result<Vec<u8>, String> {
    let nullable = cfg.flags & 4 != 0;
    let with_stats = cfg.flags & 32 != 0 && !matches!(kind, Kind::Interval | Kind::Int96);
    // row groups are cut at batch boundaries once `rg` rows have been written
    let mut groups: Vec<Vec<&Batch>> = vec![vec![]];
    let mut rows = 0usize;
    for b in batches {
        if cfg.rg != 0 && rows >= cfg.rg {
            groups.push(vec![]);
            rows = 0;
        }
        groups.last_mut().unwrap().push(b);
        rows += b.len();
    }
    let mut buf: Vec<u8> = vec![];
    {
        let mut w = SerializedFileWriter::new(&mut buf, schema(kind, nullable), Arc::new(props(cfg)))
            .map_err(|e| e.to_string())?;
        for group in &groups {
            let mut rg = w.next_row_group().map_err(|e| e.to_string())?;
            {
                let mut col = rg.next_column().map_err(|e| e.to_string())?.expect("one column");
                for b in group {
                    let defs: Vec<i16> = b.iter().map(|v| v.is_some() as i16).collect();
                    let d = if nullable { Some(&defs[..]) } else { None };
                    let vals: Vec<&Vec<u8>> = b.iter().flatten().collect();
                    let mm = if with_stats { batch_min_max(kind, b) } else { None };
                    macro_rules! put {
                        ($ty:ty, $conv:expr) => {{
                            let v: Vec<_> = vals.iter().map(|x| $conv(&x[..])).collect();
                            match &mm {
                                Some((mn, mx)) => {
                                    let (mn, mx) = ($conv(&mn[..]), $conv(&mx[..]));
                                    col.typed::<$ty>().write_batch_with_statistics(&v, d, None, Some(&mn), Some(&mx), None)
                                }
                                None => col.typed::<$ty>().write_batch(&v, d, None),
                            }
                        }};
                    }
                    let r = match kind {
                        Kind::I32 | Kind::U32 => put!(Int32Type, |x: &[u8]| i32::from_le_bytes(x.try_into().unwrap())),
                        Kind::I64 | Kind::U64 => put!(Int64Type, |x: &[u8]| i64::from_le_bytes(x.try_into().unwrap())),
                        Kind::F32 => put!(FloatType, |x: &[u8]| f32::from_le_bytes(x.try_into().unwrap())),
                        Kind::F64 => put!(DoubleType, |x: &[u8]| f64::from_le_bytes(x.try_into().unwrap())),
                        Kind::Bool => put!(BoolType, |x: &[u8]| x[0] != 0),
                        Kind::DecBa | Kind::Utf8 | Kind::Bin => put!(ByteArrayType, |x: &[u8]| ByteArray::from(x.to_vec())),
                        Kind::F16 | Kind::DecFlba(_) | Kind::Flba(_) | Kind::Interval => {
                            put!(FixedLenByteArrayType, |x: &[u8]| FixedLenByteArray::from(ByteArray::from(x.to_vec())))
                        }
                        Kind::Int96 => put!(Int96Type, |x: &[u8]| {
                            let mut v = Int96::new();
                            v.set_data(
                                u32::from_le_bytes(x[0..4].try_into().unwrap()),
                                u32::from_le_bytes(x[4..8].try_into().unwrap()),
                                u32::from_le_bytes(x[8..12].try_into().unwrap()),
                            );
                            v
                        }),
                    };
                    r.map_err(|e| e.to_string())?;
                }
                col.close().map_err(|e| e.to_string())?;
            }
            rg.close().map_err(|e| e.to_string())?;
        }
        w.close().map_err(|e| e.to_string())?;
    }
    Ok(buf)
}

fn arrow_type(kind: Kind) -> Option<ArrowType> {
    Some(match kind {
        Kind::I32 => ArrowType::Int32,
        Kind::U32 => ArrowType::UInt32,
        Kind::I64 => ArrowType::Int64,
        Kind::U64 => ArrowType::UInt64,
        Kind::F32 => ArrowType::Float32,
        Kind::F64 => ArrowType::Float64,
        Kind::F16 => ArrowType::Float16,
        Kind::DecFlba(16) => ArrowType::Decimal128(38, 0),
        Kind::Utf8 => ArrowType::Utf8,
        Kind::Bin => ArrowType::Binary,
        Kind::Flba(n) => ArrowType::FixedSizeBinary(n as i32),
        Kind::Bool => ArrowType::Boolean,
        _ => return None,
    })
}

fn arrow_array(kind: Kind, b: &Batch) -> ArrayRef {
    match kind {
        Kind::I32 => Arc::new(Int32Array::from_iter(b.iter().map(|v| v.as_ref().map(|x| i32::from_le_bytes(x[..].try_into().unwrap()))))),
        Kind::U32 => Arc::new(UInt32Array::from_iter(b.iter().map(|v| v.as_ref().map(|x| u32::from_le_bytes(x[..].try_into().unwrap()))))),
        Kind::I64 => Arc::new(Int64Array::from_iter(b.iter().map(|v| v.as_ref().map(|x| i64::from_le_bytes(x[..].try_into().unwrap()))))),
        Kind::U64 => Arc::new(UInt64Array::from_iter(b.iter().map(|v| v.as_ref().map(|x| u64::from_le_bytes(x[..].try_into().unwrap()))))),
        Kind::F32 => Arc::new(Float32Array::from_iter(b.iter().map(|v| v.as_ref().map(|x| f32::from_le_bytes(x[..].try_into().unwrap()))))),
        Kind::F64 => Arc::new(Float64Array::from_iter(b.iter().map(|v| v.as_ref().map(|x| f64::from_le_bytes(x[..].try_into().unwrap()))))),
        Kind::F16 => Arc::new(Float16Array::from_iter(b.iter().map(|v| v.as_ref().map(|x| half::f16::from_le_bytes(x[..].try_into().unwrap()))))),
        Kind::DecFlba(_) => Arc::new(
            Decimal128Array::from_iter(b.iter().map(|v| v.as_ref().map(|x| dec_value(x))))
                .with_precision_and_scale(38, 0)
                .unwrap(),
        ),
        Kind::Utf8 => Arc::new(StringArray::from_iter(b.iter().map(|v| v.as_ref().map(|x| String::from_utf8(x.clone()).expect("utf8"))))),
        Kind::Bin => Arc::new(BinaryArray::from_iter(b.iter().map(|v| v.as_ref().map(|x| &x[..])))),
        Kind::Flba(n) => Arc::new(
            FixedSizeBinaryArray::try_from_sparse_iter_with_size(b.iter().map(|v| v.as_ref().map(|x| &x[..])), n as i32).unwrap(),
        ),
        Kind::Bool => Arc::new(BooleanArray::from_iter(b.iter().map(|v| v.as_ref().map(|x| x[0] != 0)))),
        Kind::DecBa | Kind::Interval | Kind::Int96 => unreachable!(),
    }
}

/// extreme junk value of a kind (`hi` = maximal, else minimal): used for the elements sliced
/// away and for the payload under null slots, so that a leak shows up in the statistics
fn junk(kind: Kind, hi: bool) -> Vec<u8> {
    match kind {
        Kind::I32 => (if hi { i32::MAX } else { i32::MIN }).to_le_bytes().to_vec(),
        Kind::U32 => (if hi { u32::MAX } else { 0 }).to_le_bytes().to_vec(),
        Kind::I64 => (if hi { i64::MAX } else { i64::MIN }).to_le_bytes().to_vec(),
        Kind::U64 => (if hi { u64::MAX } else { 0 }).to_le_bytes().to_vec(),
        Kind::F32 => (if hi { f32::INFINITY } else { f32::NEG_INFINITY }).to_le_bytes().to_vec(),
        Kind::F64 => (if hi { f64::INFINITY } else { f64::NEG_INFINITY }).to_le_bytes().to_vec(),
        Kind::F16 => (if hi { 0x7C00u16 } else { 0xFC00u16 }).to_le_bytes().to_vec(),
        Kind::DecFlba(n) => {
            let mut v = vec![if hi { 0xFFu8 } else { 0 }; n];
            v[0] = if hi { 0x7F } else { 0x80 };
            v
        }
        Kind::Flba(n) => vec![if hi { 0xFF } else { 0 }; n],
        Kind::Utf8 => if hi { "\u{10FFFF}\u{10FFFF}\u{10FFFF}".as_bytes().to_vec() } else { vec![] },
        Kind::Bin | Kind::DecBa => if hi { vec![0xFF; 9] } else { vec![] },
        Kind::Bool => vec![hi as u8],
        Kind::Interval | Kind::Int96 => vec![if hi { 0xFF } else { 0 }; 12],
    }
}

/// Arrow array of a batch.  `variant`: 0 plain, 1 large offsets, 2 view arrays, 3 dictionary.
/// `sliced`: the array is a slice (offset 1) of a longer one with extreme junk around it, and
/// null slots of primitive / string / binary arrays carry extreme junk payload.
fn arrow_array_variant(kind: Kind, b: &Batch, variant: u8, sliced: bool) -> ArrayRef {
    let base: ArrayRef = if !sliced {
        arrow_array(kind, b)
    } else {
        let n = b.len();
        let mut ext: Batch = vec![Some(junk(kind, true))];
        ext.extend(b.iter().cloned());
        ext.push(Some(junk(kind, false)));
        let hi = junk(kind, true);
        let nulls = NullBuffer::from(ext.iter().map(|v| v.is_some()).collect::<Vec<bool>>());
        let nulls = if nulls.null_count() == 0 { None } else { Some(nulls) };
        macro_rules! prim {
            ($arr:ty, $conv:expr) => {{
                let vals: Vec<_> = ext.iter().map(|v| $conv(&v.as_ref().unwrap_or(&hi)[..])).collect();
                Arc::new(<$arr>::new(vals.into(), nulls.clone())) as ArrayRef
            }};
        }
        let full: ArrayRef = match kind {
            Kind::I32 => prim!(Int32Array, |x: &[u8]| i32::from_le_bytes(x.try_into().unwrap())),
            Kind::U32 => prim!(UInt32Array, |x: &[u8]| u32::from_le_bytes(x.try_into().unwrap())),
            Kind::I64 => prim!(Int64Array, |x: &[u8]| i64::from_le_bytes(x.try_into().unwrap())),
            Kind::U64 => prim!(UInt64Array, |x: &[u8]| u64::from_le_bytes(x.try_into().unwrap())),
            Kind::F32 => prim!(Float32Array, |x: &[u8]| f32::from_le_bytes(x.try_into().unwrap())),
            Kind::F64 => prim!(Float64Array, |x: &[u8]| f64::from_le_bytes(x.try_into().unwrap())),
            Kind::F16 => prim!(Float16Array, |x: &[u8]| half::f16::from_le_bytes(x.try_into().unwrap())),
            Kind::Utf8 | Kind::Bin => {
                // null slots span junk bytes in the values buffer
                let mut offsets: Vec<i32> = vec![0];
                let mut data: Vec<u8> = vec![];
                for v in &ext {
                    data.extend_from_slice(v.as_ref().unwrap_or(&hi));
                    offsets.push(data.len() as i32);
                }
                let off = OffsetBuffer::new(offsets.into());
                if kind == Kind::Utf8 {
                    Arc::new(StringArray::new(off, data.into(), nulls.clone())) as ArrayRef
                } else {
                    Arc::new(BinaryArray::new(off, data.into(), nulls.clone())) as ArrayRef
                }
            }
            _ => arrow_array(kind, &ext),
        };
        full.slice(1, n)
    };
    let base_type = base.data_type().clone();
    match (variant, kind) {
        (1, Kind::Utf8) => arrow_cast::cast(&base, &ArrowType::LargeUtf8).unwrap(),
        (1, Kind::Bin) => arrow_cast::cast(&base, &ArrowType::LargeBinary).unwrap(),
        (2, Kind::Utf8) => arrow_cast::cast(&base, &ArrowType::Utf8View).unwrap(),
        (2, Kind::Bin) => arrow_cast::cast(&base, &ArrowType::BinaryView).unwrap(),
        (3, Kind::Utf8 | Kind::Bin | Kind::I32 | Kind::U32 | Kind::I64 | Kind::U64 | Kind::F32 | Kind::F64) => {
            arrow_cast::cast(&base, &ArrowType::Dictionary(Box::new(ArrowType::Int32), Box::new(base_type))).unwrap()
        }
        _ => base,
    }
}

fn aw_variant(api: &str) -> u8 {
    match api {
        "awl" => 1,
        "awv" => 2,
        "awd" => 3,
        _ => 0,
    }
}

fn write_aw(kind: Kind, cfg: &Cfg, batches: &[Batch], variant: u8) -> Result<Vec<u8>, String> {
    let nullable = cfg.flags & 4 != 0;
    let sliced = cfg.flags & 16 != 0;
    arrow_type(kind).ok_or("kind not available through ArrowWriter")?;
    let dt = arrow_array_variant(kind, &vec![], variant, false).data_type().clone();
    let sch = Arc::new(Schema::new(vec![Field::new("c", dt, nullable)]));
    let mut buf: Vec<u8> = vec![];
    {
        let mut w = ArrowWriter::try_new(&mut buf, sch.clone(), Some(props(cfg))).map_err(|e| e.to_string())?;
        for b in batches {
            let rb = RecordBatch::try_new(sch.clone(), vec![arrow_array_variant(kind, b, variant, sliced)])
                .map_err(|e| e.to_string())?;
            w.write(&rb).map_err(|e| e.to_string())?;
        }
        w.close().map_err(|e| e.to_string())?;
    }
    Ok(buf)
}

// ---------------------------------------------------------------------------- read back

#[derive(Default, Debug)]
struct ReadBack {
    num_rows: i64,
    n_row_groups: usize,
    total_order: bool,
    has_stats: bool,
    min: Option<Vec<u8>>,
    max: Option<Vec<u8>>,
    min_exact: bool,
    max_exact: bool,
    null_count: Option<u64>,
    nan_count: Option<u64>,
    ci: Option<ColIdx>,
    first_rows: Option<Vec<i64>>,
    /// (num_values, header min, header max) of every data page, in file order
    pages: Vec<(usize, Option<Vec<u8>>, Option<Vec<u8>>)>,
    bloom: Option<Sbbf>,
}
#[derive(Default, Debug)]
struct ColIdx {
    mins: Vec<Option<Vec<u8>>>,
    maxs: Vec<Option<Vec<u8>>>,
    null_pages: Vec<bool>,
    null_counts: Option<Vec<i64>>,
    nan_counts: Option<Vec<i64>>,
    order: u8, // 0 unordered 1 ascending 2 descending
}

fn col_idx(ci: &ColumnIndexMetaData) -> ColIdx {
    let n = ci.num_pages() as usize;
    let mut r = ColIdx::default();
    macro_rules! prim {
        ($ix:expr) => {{
            for i in 0..n {
                r.mins.push($ix.min_value(i).map(|v| v.as_bytes().to_vec()));
                r.maxs.push($ix.max_value(i).map(|v| v.as_bytes().to_vec()));
            }
        }};
    }
    match ci {
        ColumnIndexMetaData::BOOLEAN(ix) => prim!(ix),
        ColumnIndexMetaData::INT32(ix) => prim!(ix),
        ColumnIndexMetaData::INT64(ix) => prim!(ix),
        ColumnIndexMetaData::INT96(ix) => prim!(ix),
        ColumnIndexMetaData::FLOAT(ix) => prim!(ix),
        ColumnIndexMetaData::DOUBLE(ix) => prim!(ix),
        ColumnIndexMetaData::BYTE_ARRAY(ix) | ColumnIndexMetaData::FIXED_LEN_BYTE_ARRAY(ix) => {
            for i in 0..n {
                r.mins.push(ix.min_value(i).map(|v| v.to_vec()));
                r.maxs.push(ix.max_value(i).map(|v| v.to_vec()));
            }
        }
    }
    r.null_pages = (0..n).map(|i| ci.is_null_page(i)).collect();
    r.null_counts = ci.null_counts().cloned();
    r.nan_counts = ci.nan_counts().cloned();
    r.order = match ci.get_boundary_order() {
        Some(BoundaryOrder::ASCENDING) => 1,
        Some(BoundaryOrder::DESCENDING) => 2,
        _ => 0,
    };
    r
}

fn read_back(file: Vec<u8>) -> Result<(Vec<ReadBack>, ParquetMetaData), String> {
    let bytes = Bytes::from(file);
    let md: ParquetMetaData = ParquetMetaDataReader::new()
        .with_page_index_policy(PageIndexPolicy::Optional)
        .parse_and_finish(&bytes)
        .map_err(|e| e.to_string())?;
    let total_order = matches!(md.file_metadata().column_order(0), ColumnOrder::IEEE_754_TOTAL_ORDER);
    let opts = ReadOptionsBuilder::new()
        .with_reader_properties(ReaderProperties::builder().set_read_bloom_filter(true).build())
        .build();
    let fr = SerializedFileReader::new_with_options(bytes, opts).map_err(|e| e.to_string())?;
    let mut out = vec![];
    for g in 0..md.num_row_groups() {
        let mut r = ReadBack::default();
        r.num_rows = md.row_group(g).num_rows();
        r.n_row_groups = md.num_row_groups();
        r.total_order = total_order;
        let cc = md.row_group(g).column(0);
        if let Some(st) = cc.statistics() {
            r.has_stats = true;
            r.min = st.min_bytes_opt().map(|b| b.to_vec());
            r.max = st.max_bytes_opt().map(|b| b.to_vec());
            r.min_exact = st.min_is_exact();
            r.max_exact = st.max_is_exact();
            r.null_count = st.null_count_opt();
            r.nan_count = st.nan_count_opt();
        }
        if let Some(pi) = md.page_index() {
            r.ci = pi.column_index(g, 0).map(col_idx);
            r.first_rows =
                pi.offset_index(g, 0).map(|oi| oi.page_locations().iter().map(|p| p.first_row_index).collect());
        }
        let rg = fr.get_row_group(g).map_err(|e| e.to_string())?;
        r.bloom = rg.get_column_bloom_filter(0).cloned();
        let mut pr = rg.get_column_page_reader(0).map_err(|e| e.to_string())?;
        while let Some(p) = pr.get_next_page().map_err(|e| e.to_string())? {
            if let Page::DictionaryPage { .. } = p {
                continue;
            }
            let (mn, mx) = match p.statistics() {
                Some(s) => (s.min_bytes_opt().map(|b| b.to_vec()), s.max_bytes_opt().map(|b| b.to_vec())),
                None => (None, None),
            };
            r.pages.push((p.num_values() as usize, mn, mx));
        }
        out.push(r);
    }
    Ok((out, md))
}

// ------------------------------------------------------------------------------- oracle

/// the property checked directly on the file; returns the list of failures
fn oracle_rg(kind: Kind, cfg: &Cfg, rows: &[&Option<Vec<u8>>], rb: &ReadBack) -> Vec<String> {
    let mut bad = vec![];
    let n = rows.len();
    let undefined_order = matches!(kind, Kind::Interval | Kind::Int96);
    let lt = |a: &[u8], b: &[u8]| cmp_values(kind, rb.total_order, a, b) == Ordering::Less;
    if rb.num_rows != n as i64 {
        bad.push(format!("num_rows {} != {}", rb.num_rows, n));
    }
    if n == 0 {
        return bad;
    }
    let check_bounds = |what: &str, vals: &[&Option<Vec<u8>>], mn: &Option<Vec<u8>>, mx: &Option<Vec<u8>>, exact: Option<(bool, bool)>, bad: &mut Vec<String>| {
        let real: Vec<&Vec<u8>> = vals.iter().filter_map(|v| v.as_ref()).filter(|v| !is_nan(kind, v)).collect();
        if real.is_empty() || undefined_order {
            return;
        }
        match (mn, mx) {
            (Some(mn), Some(mx)) => {
                for v in &real {
                    if lt(v, mn) {
                        bad.push(format!("{} min {} does not bound value {}", what, hex(mn), hex(v)));
                        break;
                    }
                }
                for v in &real {
                    if lt(mx, v) {
                        bad.push(format!("{} max {} does not bound value {}", what, hex(mx), hex(v)));
                        break;
                    }
                }
                if let Some((emin, emax)) = exact {
                    if emin && !real.iter().any(|v| cmp_values(kind, rb.total_order, v, mn) == Ordering::Equal) {
                        bad.push(format!("{} min {} flagged exact but not attained", what, hex(mn)));
                    }
                    if emax && !real.iter().any(|v| cmp_values(kind, rb.total_order, v, mx) == Ordering::Equal) {
                        bad.push(format!("{} max {} flagged exact but not attained", what, hex(mx)));
                    }
                }
            }
            (None, None) => {}
            _ => bad.push(format!("{} only one of min/max present", what)),
        }
    };
    // chunk statistics
    let nulls = rows.iter().filter(|v| v.is_none()).count();
    let nans = rows.iter().filter(|v| v.as_ref().map_or(false, |x| is_nan(kind, x))).count();
    if cfg.level != 0 {
        if !rb.has_stats {
            bad.push("chunk statistics missing".into());
        } else {
            if rb.null_count != Some(nulls as u64) {
                bad.push(format!("chunk null_count {:?} != {}", rb.null_count, nulls));
            }
            if let Some(nc) = rb.nan_count {
                if nc != nans as u64 {
                    bad.push(format!("chunk nan_count {} != {}", nc, nans));
                }
            }
            let real = rows.iter().filter(|v| v.as_ref().map_or(false, |x| !is_nan(kind, x))).count();
            if real > 0 && !undefined_order && (rb.min.is_none() || rb.max.is_none()) {
                bad.push("chunk min/max missing".into());
            }
            if kind == Kind::Interval && (rb.min.is_some() || rb.max.is_some()) {
                bad.push("INTERVAL column (undefined order) has min/max flagged exact but not attained".into());
            }
            check_bounds("chunk", &rows, &rb.min, &rb.max, Some((rb.min_exact, rb.max_exact)), &mut bad);
        }
    }
    // offset index vs actual pages
    let page_total: usize = rb.pages.iter().map(|p| p.0).sum();
    if page_total != n {
        bad.push(format!("pages hold {} values, {} written", page_total, n));
    }
    let mut starts: Vec<usize> = vec![];
    {
        let mut s = 0;
        for p in &rb.pages {
            starts.push(s);
            s += p.0;
        }
    }
    if let Some(fr) = &rb.first_rows {
        if fr.len() != rb.pages.len() {
            bad.push(format!("offset index has {} pages, file has {}", fr.len(), rb.pages.len()));
        } else {
            for (i, f) in fr.iter().enumerate() {
                if *f != starts[i] as i64 {
                    bad.push(format!("first_row_index[{}] = {} but page starts at row {}", i, f, starts[i]));
                    break;
                }
            }
        }
    } else {
        bad.push("offset index missing".into());
    }
    // page header statistics
    for (i, p) in rb.pages.iter().enumerate() {
        let end = (starts[i] + p.0).min(n);
        if p.1.is_some() || p.2.is_some() {
            check_bounds(&format!("page-header[{}]", i), &rows[starts[i].min(n)..end], &p.1, &p.2, None, &mut bad);
        }
    }
    // column index
    if cfg.level == 2 {
        match &rb.ci {
            None if undefined_order => {}
            None => bad.push("column index missing".into()),
            Some(ci) => {
                if ci.mins.len() != rb.pages.len() {
                    bad.push(format!("column index has {} pages, file has {}", ci.mins.len(), rb.pages.len()));
                } else {
                    for i in 0..ci.mins.len() {
                        let end = (starts[i] + rb.pages[i].0).min(n);
                        let pr = &rows[starts[i].min(n)..end];
                        let pn = pr.iter().filter(|v| v.is_none()).count();
                        let all_null = pn == pr.len();
                        if ci.null_pages[i] != all_null {
                            bad.push(format!("null_pages[{}] = {} but page all-null = {}", i, ci.null_pages[i], all_null));
                        }
                        if let Some(nc) = &ci.null_counts {
                            if nc[i] != pn as i64 {
                                bad.push(format!("null_counts[{}] = {} != {}", i, nc[i], pn));
                            }
                        }
                        if let Some(nc) = &ci.nan_counts {
                            let pnan = pr.iter().filter(|v| v.as_ref().map_or(false, |x| is_nan(kind, x))).count();
                            if nc[i] != pnan as i64 {
                                bad.push(format!("nan_counts[{}] = {} != {}", i, nc[i], pnan));
                            }
                        }
                        if !ci.null_pages[i] {
                            check_bounds(&format!("page[{}]", i), pr, &ci.mins[i], &ci.maxs[i], None, &mut bad);
                        }
                    }
                    // declared boundary order must be true of the emitted lists
                    let nn: Vec<usize> = (0..ci.mins.len())
                        .filter(|i| !ci.null_pages[*i] && ci.mins[*i].is_some() && ci.maxs[*i].is_some())
                        .collect();
                    for w in nn.windows(2) {
                        let (a, b) = (w[0], w[1]);
                        let (amin, amax) = (ci.mins[a].as_ref().unwrap(), ci.maxs[a].as_ref().unwrap());
                        let (bmin, bmax) = (ci.mins[b].as_ref().unwrap(), ci.maxs[b].as_ref().unwrap());
                        let viol = match ci.order {
                            _ if undefined_order => false,
                            1 => lt(bmin, amin) || lt(bmax, amax),
                            2 => lt(amin, bmin) || lt(amax, bmax),
                            _ => false,
                        };
                        if viol {
                            bad.push(format!(
                                "boundary order {} false between pages {} ({}..{}) and {} ({}..{})",
                                ci.order, a, hex(amin), hex(amax), b, hex(bmin), hex(bmax)
                            ));
                            break;
                        }
                    }
                }
            }
        }
    }
    // bloom filter
    if cfg.bloom != 0 {
        match &rb.bloom {
            None => bad.push("bloom filter missing".into()),
            Some(bf) => {
                for v in rows.iter().filter_map(|v| v.as_ref()) {
                    if !bf.check(&v[..]) {
                        bad.push(format!("bloom filter excludes written value {}", hex(v)));
                        break;
                    }
                }
            }
        }
    }
    bad
}

/// whole-file oracle: every row group against its slice of the written rows, plus the
/// statistics as surfaced to Arrow by `StatisticsConverter`
fn oracle(kind: Kind, cfg: &Cfg, batches: &[Batch], rbs: &[ReadBack], md: &ParquetMetaData, convert: bool) -> Vec<String> {
    let rows: Vec<&Option<Vec<u8>>> = batches.iter().flatten().collect();
    let mut bad = vec![];
    if md.file_metadata().num_rows() != rows.len() as i64 {
        bad.push(format!("file num_rows {} != {}", md.file_metadata().num_rows(), rows.len()));
    }
    let total: i64 = rbs.iter().map(|r| r.num_rows).sum();
    if total != rows.len() as i64 {
        bad.push(format!("row groups hold {} rows, {} written (num_rows)", total, rows.len()));
        return bad;
    }
    let mut start = 0usize;
    for (g, rb) in rbs.iter().enumerate() {
        let end = start + rb.num_rows as usize;
        for f in oracle_rg(kind, cfg, &rows[start..end], rb) {
            bad.push(if rbs.len() > 1 { format!("rg[{}] {}", g, f) } else { f });
        }
        start = end;
    }
    if convert && cfg.level != 0 && !rbs.is_empty() {
        bad.extend(oracle_converter(kind, cfg, &rows, rbs, md));
    }
    bad
}

/// one element of an Arrow statistics array as plain-encoded bytes of the kind (None = null)
fn arrow_elem(kind: Kind, a: &ArrayRef, i: usize) -> Result<Option<Vec<u8>>, String> {
    use arrow_array::cast::AsArray;
    use arrow_array::types::*;
    if a.is_null(i) {
        return Ok(None);
    }
    let dt = a.data_type().clone();
    let v = match (&dt, kind) {
        (ArrowType::Int32, _) => a.as_primitive::<arrow_array::types::Int32Type>().value(i).to_le_bytes().to_vec(),
        (ArrowType::UInt32, _) => a.as_primitive::<UInt32Type>().value(i).to_le_bytes().to_vec(),
        (ArrowType::Int64, _) => a.as_primitive::<arrow_array::types::Int64Type>().value(i).to_le_bytes().to_vec(),
        (ArrowType::UInt64, _) => a.as_primitive::<UInt64Type>().value(i).to_le_bytes().to_vec(),
        (ArrowType::Float32, _) => a.as_primitive::<Float32Type>().value(i).to_le_bytes().to_vec(),
        (ArrowType::Float64, _) => a.as_primitive::<Float64Type>().value(i).to_le_bytes().to_vec(),
        (ArrowType::Float16, _) => a.as_primitive::<Float16Type>().value(i).to_le_bytes().to_vec(),
        (ArrowType::Decimal128(_, _), _) => a.as_primitive::<Decimal128Type>().value(i).to_be_bytes().to_vec(),
        (ArrowType::Decimal32(_, _), _) => (a.as_primitive::<Decimal32Type>().value(i) as i128).to_be_bytes().to_vec(),
        (ArrowType::Decimal64(_, _), _) => (a.as_primitive::<Decimal64Type>().value(i) as i128).to_be_bytes().to_vec(),
        (ArrowType::Utf8, _) => a.as_string::<i32>().value(i).as_bytes().to_vec(),
        (ArrowType::LargeUtf8, _) => a.as_string::<i64>().value(i).as_bytes().to_vec(),
        (ArrowType::Utf8View, _) => a.as_string_view().value(i).as_bytes().to_vec(),
        (ArrowType::Binary, _) => a.as_binary::<i32>().value(i).to_vec(),
        (ArrowType::LargeBinary, _) => a.as_binary::<i64>().value(i).to_vec(),
        (ArrowType::BinaryView, _) => a.as_binary_view().value(i).to_vec(),
        (ArrowType::FixedSizeBinary(_), _) => a.as_fixed_size_binary().value(i).to_vec(),
        (ArrowType::Boolean, _) => vec![a.as_boolean().value(i) as u8],
        _ => return Err(format!("unexpected statistics array type {:?}", dt)),
    };
    Ok(Some(v))
}

/// `StatisticsConverter`: row-group and data-page min/max/null counts/row counts as Arrow arrays
fn oracle_converter(kind: Kind, cfg: &Cfg, rows: &[&Option<Vec<u8>>], rbs: &[ReadBack], md: &ParquetMetaData) -> Vec<String> {
    use parquet::arrow::arrow_reader::statistics::StatisticsConverter;
    let mut bad = vec![];
    if matches!(kind, Kind::Interval | Kind::Int96) {
        return bad;
    }
    let total_order = rbs[0].total_order;
    let lt = |a: &[u8], b: &[u8]| cmp_values(kind, total_order, a, b) == Ordering::Less;
    let pschema = md.file_metadata().schema_descr();
    let aschema = match parquet::arrow::parquet_to_arrow_schema(pschema, md.file_metadata().key_value_metadata()) {
        Ok(s) => s,
        Err(_) => return vec!["converter: arrow schema missing".into()],
    };
    let conv = match StatisticsConverter::try_new("c", &aschema, pschema) {
        Ok(c) => c,
        Err(_) => return vec!["converter: try_new missing".into()],
    };
    let real = |vals: &[&Option<Vec<u8>>]| -> Vec<Vec<u8>> {
        vals.iter().filter_map(|v| v.as_ref()).filter(|v| !is_nan(kind, v)).cloned().collect()
    };
    let check = |what: String, vals: &[&Option<Vec<u8>>], mn: Option<Vec<u8>>, mx: Option<Vec<u8>>, bad: &mut Vec<String>| {
        let r = real(vals);
        if let Some(mn) = mn {
            if let Some(v) = r.iter().find(|v| lt(v, &mn)) {
                bad.push(format!("converter {} min {} does not bound value {}", what, hex(&mn), hex(v)));
            }
        }
        if let Some(mx) = mx {
            if let Some(v) = r.iter().find(|v| lt(&mx, v)) {
                bad.push(format!("converter {} max {} does not bound value {}", what, hex(&mx), hex(v)));
            }
        }
    };
    // row groups
    let rgs = md.row_groups();
    let (mins, maxes, nulls, counts) = match (
        conv.row_group_mins(rgs.iter()),
        conv.row_group_maxes(rgs.iter()),
        conv.row_group_null_counts(rgs.iter()),
        conv.row_group_row_counts(rgs.iter()),
    ) {
        (Ok(a), Ok(b), Ok(c), Ok(d)) => (a, b, c, d),
        _ => return vec!["converter: row group statistics missing".into()],
    };
    let mut start = 0usize;
    for (g, rb) in rbs.iter().enumerate() {
        let end = start + rb.num_rows as usize;
        let vals = &rows[start..end];
        match (arrow_elem(kind, &mins, g), arrow_elem(kind, &maxes, g)) {
            (Ok(mn), Ok(mx)) => {
                // a missing (null) converted bound is conservative, never a violation
                check(format!("rg[{}]", g), vals, mn, mx, &mut bad)
            }
            _ => bad.push(format!("converter rg[{}] statistics array type missing", g)),
        }
        let nn = vals.iter().filter(|v| v.is_none()).count() as u64;
        if !nulls.is_null(g) && nulls.value(g) != nn {
            bad.push(format!("converter rg[{}] null_count {} != {}", g, nulls.value(g), nn));
        }
        if let Some(c) = &counts {
            if !c.is_null(g) && c.value(g) != vals.len() as u64 {
                bad.push(format!("converter rg[{}] row count {} != {} (num_rows)", g, c.value(g), vals.len()));
            }
        }
        start = end;
    }
    // data pages
    if cfg.level == 2 {
        if let Some(pi) = md.page_index() {
            if rbs.iter().all(|r| r.ci.is_some() && r.first_rows.is_some()) {
                let idx: Vec<usize> = (0..rbs.len()).collect();
                let res = std::panic::catch_unwind(std::panic::AssertUnwindSafe(|| {
                    (
                        conv.data_page_mins(pi, idx.iter()),
                        conv.data_page_maxes(pi, idx.iter()),
                        conv.data_page_null_counts(pi, idx.iter()),
                        conv.data_page_row_counts(pi, rgs, idx.iter()),
                    )
                }));
                let res = match res {
                    Ok(r) => r,
                    Err(_) => {
                        bad.push("converter data_page_* panicked (StatisticsConverter)".into());
                        return bad;
                    }
                };
                match res {
                    (Ok(pm), Ok(px), Ok(pn), Ok(pc)) => {
                        let mut k = 0usize;
                        let mut start = 0usize;
                        for (g, rb) in rbs.iter().enumerate() {
                            let mut ps = start;
                            for (i, p) in rb.pages.iter().enumerate() {
                                let pe = (ps + p.0).min(rows.len());
                                if k >= pm.len() {
                                    bad.push("converter: fewer data page entries than pages (offset index)".into());
                                    break;
                                }
                                let vals = &rows[ps..pe];
                                if let (Ok(mn), Ok(mx)) = (arrow_elem(kind, &pm, k), arrow_elem(kind, &px, k)) {
                                    check(format!("rg[{}] page[{}]", g, i), vals, mn, mx, &mut bad);
                                }
                                let nn = vals.iter().filter(|v| v.is_none()).count() as u64;
                                if !pn.is_null(k) && pn.value(k) != nn {
                                    bad.push(format!("converter rg[{}] page[{}] null_count {} != {}", g, i, pn.value(k), nn));
                                }
                                if let Some(c) = &pc {
                                    if !c.is_null(k) && c.value(k) != vals.len() as u64 {
                                        bad.push(format!("converter rg[{}] page[{}] row count {} != {} (first_row_index)", g, i, c.value(k), vals.len()));
                                    }
                                }
                                ps = pe;
                                k += 1;
                            }
                            start += rb.num_rows as usize;
                        }
                    }
                    _ => bad.push("converter: data page statistics missing".into()),
                }
            }
        }
    }
    bad
}

// -------------------------------------------------------------------------------- nested

/// a row of a `List<Int32>` column: None = null list, Some(items) with null items
type NRow = Option<Vec<Option<i32>>>;

fn parse_nested(s: &str) -> Vec<NRow> {
    if s == "-" {
        return vec![];
    }
    s.split(';')
        .map(|r| match r {
            "N" => None,
            "E" => Some(vec![]),
            items => Some(items.split(',').map(|x| if x == "n" { None } else { Some(x.parse::<i32>().unwrap()) }).collect()),
        })
        .collect()
}
fn show_nested(rows: &[NRow]) -> String {
    if rows.is_empty() {
        return "-".into();
    }
    rows.iter()
        .map(|r| match r {
            None => "N".to_string(),
            Some(v) if v.is_empty() => "E".to_string(),
            Some(v) => v.iter().map(|x| x.map_or("n".to_string(), |y| y.to_string())).collect::<Vec<_>>().join(","),
        })
        .collect::<Vec<_>>()
        .join(";")
}

fn write_nested(cfg: &Cfg, rows: &[NRow]) -> Result<Vec<u8>, String> {
    let item = Arc::new(Field::new("item", ArrowType::Int32, true));
    let sch = Arc::new(Schema::new(vec![Field::new("c", ArrowType::List(item.clone()), true)]));
    let child = Int32Array::from_iter(rows.iter().flatten().flatten().cloned());
    let offsets = OffsetBuffer::from_lengths(rows.iter().map(|r| r.as_ref().map_or(0, |l| l.len())));
    let nulls = NullBuffer::from(rows.iter().map(|r| r.is_some()).collect::<Vec<bool>>());
    let list = ListArray::new(item, offsets, Arc::new(child), Some(nulls));
    let mut buf: Vec<u8> = vec![];
    {
        let mut w = ArrowWriter::try_new(&mut buf, sch.clone(), Some(props(cfg))).map_err(|e| e.to_string())?;
        // flags bit 16: write in two record batches
        let n = rows.len();
        let cut = if cfg.flags & 16 != 0 { n / 2 } else { n };
        for (a, l) in [(0, cut), (cut, n - cut)] {
            if l == 0 && n != 0 {
                continue;
            }
            let rb = RecordBatch::try_new(sch.clone(), vec![Arc::new(list.slice(a, l)) as ArrayRef]).map_err(|e| e.to_string())?;
            w.write(&rb).map_err(|e| e.to_string())?;
            if n == 0 {
                break;
            }
        }
        w.close().map_err(|e| e.to_string())?;
    }
    Ok(buf)
}

/// pages of a nested column cover whole rows; a page is a null page only when it holds no value
fn oracle_nested(rows: &[NRow], rbs: &[ReadBack], md: &ParquetMetaData) -> Vec<String> {
    let mut bad = vec![];
    if md.file_metadata().num_rows() != rows.len() as i64 {
        bad.push(format!("file num_rows {} != {}", md.file_metadata().num_rows(), rows.len()));
    }
    if rows.is_empty() || rbs.len() != 1 {
        return bad;
    }
    let rb = &rbs[0];
    let le = |v: i32| v.to_le_bytes().to_vec();
    let i32of = |b: &Vec<u8>| i32::from_le_bytes(b[..].try_into().unwrap());
    let leaves = |rs: &[NRow]| -> Vec<i32> { rs.iter().flatten().flatten().flatten().cloned().collect() };
    let all = leaves(rows);
    if !all.is_empty() {
        match (&rb.min, &rb.max) {
            (Some(mn), Some(mx)) => {
                if let Some(v) = all.iter().find(|v| **v < i32of(mn)) {
                    bad.push(format!("chunk min {} does not bound value {}", hex(mn), hex(&le(*v))));
                }
                if let Some(v) = all.iter().find(|v| **v > i32of(mx)) {
                    bad.push(format!("chunk max {} does not bound value {}", hex(mx), hex(&le(*v))));
                }
            }
            _ => bad.push("chunk min/max missing".into()),
        }
    }
    let (ci, fr) = match (&rb.ci, &rb.first_rows) {
        (Some(c), Some(f)) => (c, f),
        // a page of null levels only (but not a "null page" by the row count) has no statistics and
        // invalidates the whole column index: no index = no pruning, which is safe
        _ => return bad,
    };
    if ci.mins.len() != fr.len() {
        bad.push(format!("column index has {} pages, offset index {}", ci.mins.len(), fr.len()));
        return bad;
    }
    for i in 0..fr.len() {
        let a = fr[i] as usize;
        let b = if i + 1 < fr.len() { fr[i + 1] as usize } else { rows.len() };
        if a > b || b > rows.len() || (i == 0 && a != 0) {
            bad.push(format!("first_row_index[{}] = {} inconsistent", i, fr[i]));
            break;
        }
        let vals = leaves(&rows[a..b]);
        if ci.null_pages[i] != vals.is_empty() {
            bad.push(format!(
                "null_pages[{}] = {} but the page (rows {}..{}) holds {} non-null values",
                i, ci.null_pages[i], a, b, vals.len()
            ));
        }
        if !vals.is_empty() {
            match (&ci.mins[i], &ci.maxs[i]) {
                (Some(mn), Some(mx)) if !ci.null_pages[i] => {
                    if let Some(v) = vals.iter().find(|v| **v < i32of(mn)) {
                        bad.push(format!("page[{}] min {} does not bound value {}", i, hex(mn), hex(&le(*v))));
                    }
                    if let Some(v) = vals.iter().find(|v| **v > i32of(mx)) {
                        bad.push(format!("page[{}] max {} does not bound value {}", i, hex(mx), hex(&le(*v))));
                    }
                }
                _ => {}
            }
        }
    }
    bad
}

// ------------------------------------------------------------------------------ run_case

fn opt_hex(v: &Option<Vec<u8>>) -> String {
    match v {
        None => "none".into(),
        Some(b) if b.is_empty() => "e".into(),
        Some(b) => hex(b),
    }
}

fn parse_cfg_stats(t: &[&str]) -> Cfg {
    let us = |s: &str| s.parse::<usize>().unwrap();
    Cfg { stl: us(t[0]), cil: us(t[1]), level: 2, wbs: us(t[2]), rowlimit: us(t[3]), flags: us(t[4]) as u32 & !4, bloom: 0, rg: 0 }
}
fn parse_cfg_file(t: &[&str]) -> Cfg {
    let us = |s: &str| s.parse::<usize>().unwrap();
    Cfg { stl: us(t[0]), cil: us(t[1]), level: us(t[2]) as u8, wbs: us(t[3]), rowlimit: us(t[4]), flags: us(t[5]) as u32, bloom: us(t[6]) as u8, rg: us(t[7]) }
}

fn xxh(b: &[u8]) -> u64 {
    twox_hash::XxHash64::oneshot(0, b)
}

/// returns (answer, oracle failures)
fn run_case_full(line: &str) -> (String, Vec<String>) {
    let t: Vec<&str> = line.split(' ').collect();
    assert_eq!(t[0], "C07");
    match t[1] {
        "stats" => {
            let kind = parse_kind(t[2]);
            let cfg = parse_cfg_stats(&t[3..8]);
            let batches = parse_batches(t[8]);
            let mut fails = vec![];
            let ans = guarded(|| {
                let file = match write_cw(kind, &cfg, &batches) {
                    Ok(f) => f,
                    Err(_) => return "ERR:write".into(),
                };
                let (rbs, md) = match read_back(file) {
                    Ok(r) => r,
                    Err(_) => return "ERR:read".into(),
                };
                fails = oracle(kind, &cfg, &batches, &rbs, &md, true);
                let rb = &rbs[0];
                let pages = match &rb.ci {
                    None => "noindex".to_string(),
                    Some(ci) => {
                        let ps: Vec<String> =
                            (0..ci.mins.len()).map(|i| format!("{}:{}", opt_hex(&ci.mins[i]), opt_hex(&ci.maxs[i]))).collect();
                        format!("{} {}", ci.order, if ps.is_empty() { "-".to_string() } else { ps.join(",") })
                    }
                };
                format!(
                    "{} {} {} {} {}",
                    opt_hex(&rb.min),
                    opt_hex(&rb.max),
                    rb.min_exact as u8,
                    rb.max_exact as u8,
                    pages
                )
            });
            (ans, fails)
        }
        "file" => {
            let api = t[2];
            let kind = parse_kind(t[3]);
            let cfg = parse_cfg_file(&t[4..12]);
            let batches = parse_batches(t[12]);
            let mut fails = vec![];
            let ans = guarded(|| {
                let file = match if api.starts_with("aw") {
                    write_aw(kind, &cfg, &batches, aw_variant(api))
                } else {
                    write_cw(kind, &cfg, &batches)
                } {
                    Ok(f) => f,
                    Err(_) => return "ERR:write".into(),
                };
                let (rbs, md) = match read_back(file) {
                    Ok(r) => r,
                    Err(_) => return "ERR:read".into(),
                };
                let invalid_utf8 = kind == Kind::Utf8 && batches.iter().flatten().flatten().any(|v| std::str::from_utf8(v).is_err());
                fails = oracle(kind, &cfg, &batches, &rbs, &md, !invalid_utf8);
                let num_rows = md.file_metadata().num_rows();
                let nulls = if cfg.level == 0 || num_rows == 0 {
                    "x".to_string()
                } else if rbs.iter().all(|r| r.null_count.is_some()) {
                    rbs.iter().map(|r| r.null_count.unwrap()).sum::<u64>().to_string()
                } else {
                    "none".to_string()
                };
                format!("{} {}", num_rows, nulls)
            });
            (ans, fails)
        }
        "nested" => {
            // C07 nested <rowlimit> <wbs> <flags> <rows>   (List<Int32> through ArrowWriter, Page statistics)
            let us = |s: &str| s.parse::<usize>().unwrap();
            let cfg = Cfg { stl: 0, cil: 0, level: 2, wbs: us(t[3]), rowlimit: us(t[2]), flags: us(t[4]) as u32, bloom: 0, rg: 0 };
            let rows = parse_nested(t[5]);
            let mut fails = vec![];
            let ans = guarded(|| {
                let file = match write_nested(&cfg, &rows) {
                    Ok(f) => f,
                    Err(_) => return "ERR:write".into(),
                };
                let (rbs, md) = match read_back(file) {
                    Ok(r) => r,
                    Err(_) => return "ERR:read".into(),
                };
                fails = oracle_nested(&rows, &rbs, &md);
                let leaves: usize = rows.iter().map(|r| r.as_ref().map_or(0, |l| l.iter().flatten().count())).sum();
                format!("{} {}", md.file_metadata().num_rows(), leaves)
            });
            (ans, fails)
        }
        "bloom" => {
            let nbytes: usize = t[2].parse().unwrap();
            let folds: u32 = t[3].parse().unwrap();
            let fpp = f64::from_bits(t[4].parse::<u64>().unwrap());
            let values: Vec<Vec<u8>> = if t[5] == "-" { vec![] } else { t[5].split(',').map(|h| if h == "e" { vec![] } else { unhex(h) }).collect() };
            let hashes: Vec<u64> = parse_list(t[6]);
            let mut fails = vec![];
            let ans = guarded(|| {
                if hashes.len() != values.len() || values.iter().zip(&hashes).any(|(v, h)| xxh(v) != *h) {
                    return "ERR:hash".into();
                }
                let mut f = Sbbf::new_with_num_of_bytes(nbytes);
                let before = f.num_blocks();
                for v in &values {
                    f.insert(&v[..]);
                }
                f.fold_to_target_fpp(fpp);
                let after = f.num_blocks();
                if after == 0 || before % after != 0 || before / after != (1usize << folds) {
                    return format!("ERR:folds {} {}", before, after);
                }
                for v in &values {
                    if !f.check(&v[..]) {
                        fails.push(format!("bloom filter excludes inserted value {} after {} folds", hex(v), folds));
                        break;
                    }
                }
                let mut bits: Vec<u8> = vec![];
                f.write_bitset(&mut bits).unwrap();
                format!("{} {}", after, hex(&bits))
            });
            (ans, fails)
        }
        _ => ("bad-op".into(), vec![]),
    }
}

fn run_case(line: &str) -> String {
    run_case_full(line).0
}

// ---------------------------------------------------------------------------- generator

/// alphabet with 1–4-byte characters incl. the width maxima and the surrogate gap edges
const CHARS: [u32; 22] = [
    0x00, 0x41, 0x61, 0x62, 0x7E, 0x7F, 0x80, 0xE9, 0x7FF, 0x800, 0x20AC, 0xD7FF, 0xE000, 0xFFFD, 0xFFFF, 0x10000,
    0x1F600, 0x10FFFE, 0x10FFFF, 0x7A, 0x3B1, 0xFFFE,
];

fn gen_string(rng: &mut Rng) -> Vec<u8> {
    let n = if rng.chance(1, 8) { rng.usize(12) } else { rng.usize(5) };
    let mut s = String::new();
    // strings share prefixes often so that truncation matters
    let bias = rng.usize(3);
    for _ in 0..n {
        let c = match bias {
            0 => *rng.pick(&CHARS),
            1 => *rng.pick(&[0x7F, 0x7FF, 0xD7FF, 0xFFFF, 0x10FFFF, 0x61]),
            _ => *rng.pick(&[0x61, 0x62, 0xE9, 0x20AC, 0x1F600]),
        };
        s.push(char::from_u32(c).unwrap());
    }
    s.into_bytes()
}

fn gen_bytes(rng: &mut Rng, n: usize) -> Vec<u8> {
    let mode = rng.usize(4);
    (0..n)
        .map(|_| match mode {
            0 => *rng.pick(&[0x00u8, 0x01, 0x7F, 0x80, 0xFE, 0xFF]),
            1 => 0xFF,
            2 => *rng.pick(&[0xFFu8, 0xFF, 0xFF, 0x00, 0x61]),
            _ => rng.next_u64() as u8,
        })
        .collect()
}

fn gen_decimal(rng: &mut Rng, n: usize) -> Vec<u8> {
    // small magnitudes with redundant sign extension, plus boundary patterns
    let mut v = vec![0u8; n];
    match rng.usize(5) {
        0 => {
            let x = rng.range(-300, 300) as i128;
            let be = x.to_be_bytes();
            for i in 0..n {
                v[n - 1 - i] = be[15 - i];
            }
            if n == 1 {
                v[0] = x as i8 as u8;
            }
        }
        1 => {
            for b in v.iter_mut() {
                *b = *rng.pick(&[0x00u8, 0xFF, 0x7F, 0x80, 0x01]);
            }
        }
        2 => {
            let neg = rng.bool();
            for b in v.iter_mut() {
                *b = if neg { 0xFF } else { 0 };
            }
            let last = n - 1;
            v[last] = rng.next_u64() as u8;
        }
        _ => {
            for b in v.iter_mut() {
                *b = rng.next_u64() as u8;
            }
        }
    }
    v
}

fn gen_value(rng: &mut Rng, kind: Kind) -> Vec<u8> {
    match kind {
        Kind::I32 | Kind::U32 => {
            let x: i32 = match rng.usize(3) {
                0 => *rng.pick(&[0, 1, -1, i32::MIN, i32::MAX, -2, 2, i32::MIN + 1]),
                1 => rng.range(-5, 5) as i32,
                _ => rng.next_u64() as i32,
            };
            x.to_le_bytes().to_vec()
        }
        Kind::I64 | Kind::U64 => {
            let x: i64 = match rng.usize(3) {
                0 => *rng.pick(&[0, 1, -1, i64::MIN, i64::MAX, -2, 2, u32::MAX as i64, i32::MIN as i64]),
                1 => rng.range(-5, 5),
                _ => rng.next_u64() as i64,
            };
            x.to_le_bytes().to_vec()
        }
        Kind::F32 => {
            let x: u32 = match rng.usize(3) {
                0 => *rng.pick(&[
                    0x0000_0000u32, 0x8000_0000, 0x7F80_0000, 0xFF80_0000, 0x7FC0_0000, 0xFFC0_0000, 0x7F80_0001,
                    0xFFFF_FFFF, 0x0000_0001, 0x8000_0001, 0x3F80_0000, 0xBF80_0000, 0x7F7F_FFFF, 0xFF7F_FFFF,
                ]),
                1 => (rng.range(-4, 4) as f32 * 0.5).to_bits(),
                _ => rng.next_u64() as u32,
            };
            x.to_le_bytes().to_vec()
        }
        Kind::F64 => {
            let x: u64 = match rng.usize(3) {
                0 => *rng.pick(&[
                    0u64, 0x8000_0000_0000_0000, 0x7FF0_0000_0000_0000, 0xFFF0_0000_0000_0000, 0x7FF8_0000_0000_0000,
                    0xFFF8_0000_0000_0000, 0x7FF0_0000_0000_0001, u64::MAX, 1, 0x8000_0000_0000_0001,
                    0x3FF0_0000_0000_0000, 0xBFF0_0000_0000_0000,
                ]),
                1 => (rng.range(-4, 4) as f64 * 0.5).to_bits(),
                _ => rng.next_u64(),
            };
            x.to_le_bytes().to_vec()
        }
        Kind::F16 => {
            let x: u16 = match rng.usize(3) {
                0 => *rng.pick(&[0x0000u16, 0x8000, 0x7C00, 0xFC00, 0x7E00, 0xFE00, 0x7C01, 0xFFFF, 0x0001, 0x8001, 0x3C00, 0xBC00, 0x7BFF, 0xFBFF]),
                1 => half::f16::from_f32(rng.range(-4, 4) as f32 * 0.5).to_bits(),
                _ => rng.next_u64() as u16,
            };
            x.to_le_bytes().to_vec()
        }
        Kind::DecBa => {
            let n = 1 + rng.usize(4);
            gen_decimal(rng, n)
        }
        Kind::DecFlba(n) => gen_decimal(rng, n),
        Kind::Utf8 => gen_string(rng),
        Kind::Bin => {
            let n = if rng.chance(1, 8) { rng.usize(12) } else { rng.usize(5) };
            gen_bytes(rng, n)
        }
        Kind::Flba(n) => gen_bytes(rng, n),
        Kind::Bool => vec![rng.bool() as u8],
        Kind::Interval | Kind::Int96 => rng.bytes(12),
    }
}

fn gen_kind(rng: &mut Rng) -> Kind {
    match rng.usize(19) {
        16 | 17 | 18 => Kind::F16,
        0 => Kind::I32,
        1 => Kind::U32,
        2 => Kind::I64,
        3 => Kind::U64,
        4 => Kind::F32,
        5 => Kind::F64,
        6 => Kind::F16,
        7 | 8 => Kind::DecBa,
        9 => Kind::DecFlba(*rng.pick(&[1usize, 2, 3, 5, 16])),
        10 | 11 => Kind::Utf8,
        12 | 13 => Kind::Bin,
        14 => Kind::Flba(*rng.pick(&[1usize, 2, 3, 6])),
        _ => Kind::Bool,
    }
}

/// make some UTF8-column values invalid UTF-8 (only possible through the column writer API)
fn corrupt_utf8(rng: &mut Rng, batches: &mut [Batch]) {
    for b in batches.iter_mut() {
        for v in b.iter_mut().flatten() {
            if rng.chance(1, 3) {
                match rng.usize(3) {
                    0 => v.push(*rng.pick(&[0x80u8, 0xBF, 0xC0, 0xFF, 0xED])),
                    1 => {
                        if !v.is_empty() {
                            let i = rng.usize(v.len());
                            v[i] = *rng.pick(&[0xFFu8, 0x80, 0xC1, 0xF5]);
                        }
                    }
                    _ => {
                        v.truncate(v.len().saturating_sub(1));
                    }
                }
            }
        }
    }
}

fn gen_batches(rng: &mut Rng, kind: Kind, nullable: bool, same_len_dec: bool) -> Vec<Batch> {
    let nb = 1 + rng.usize(4);
    let declen = 1 + rng.usize(4);
    // a small pool so that duplicates / sorted runs occur
    let pool: Vec<Vec<u8>> = (0..1 + rng.usize(6))
        .map(|_| if same_len_dec && kind == Kind::DecBa { gen_decimal(rng, declen) } else { gen_value(rng, kind) })
        .collect();
    // float columns: half of the cases are built around ±inf mixed with finite values
    let inf_mode = matches!(kind, Kind::F16 | Kind::F32 | Kind::F64) && rng.chance(1, 2);
    let (pinf, ninf): (Vec<u8>, Vec<u8>) = match kind {
        Kind::F16 => (0x7C00u16.to_le_bytes().to_vec(), 0xFC00u16.to_le_bytes().to_vec()),
        Kind::F32 => (f32::INFINITY.to_le_bytes().to_vec(), f32::NEG_INFINITY.to_le_bytes().to_vec()),
        _ => (f64::INFINITY.to_le_bytes().to_vec(), f64::NEG_INFINITY.to_le_bytes().to_vec()),
    };
    let mut pool = pool;
    if inf_mode {
        pool.push(pinf.clone());
        pool.push(ninf.clone());
        if rng.bool() {
            pool.push(pinf.clone());
        }
    }
    let sorted = rng.usize(4); // 0: random, 1: ascending, 2: descending, 3: random
    let mut all: Vec<Batch> = vec![];
    for _ in 0..nb {
        let n = if rng.chance(1, 10) { 0 } else { 1 + rng.usize(5) };
        let mut b: Batch = (0..n)
            .map(|_| {
                if nullable && rng.chance(1, 4) {
                    None
                } else if rng.chance(2, 3) {
                    Some(rng.pick(&pool).clone())
                } else if same_len_dec && kind == Kind::DecBa {
                    Some(gen_decimal(rng, declen))
                } else {
                    Some(gen_value(rng, kind))
                }
            })
            .collect();
        if nullable && rng.chance(1, 8) {
            b = b.into_iter().map(|_| None).collect();
        }
        if inf_mode && rng.chance(1, 3) {
            // an inf-only batch (an inf-only page when the row limit is small)
            let which = rng.usize(3);
            b = b
                .into_iter()
                .map(|v| {
                    v.map(|_| match which {
                        0 => pinf.clone(),
                        1 => ninf.clone(),
                        _ => {
                            if rng.bool() {
                                pinf.clone()
                            } else {
                                ninf.clone()
                            }
                        }
                    })
                })
                .collect();
        }
        all.push(b);
    }
    if sorted == 1 || sorted == 2 {
        // sort all non-null values globally by the column order, keep positions of nulls
        let mut vals: Vec<Vec<u8>> = all.iter().flatten().flatten().cloned().collect();
        vals.sort_by(|a, b| cmp_values(kind, true, a, b));
        if sorted == 2 {
            vals.reverse();
        }
        let mut it = vals.into_iter();
        for b in all.iter_mut() {
            for v in b.iter_mut() {
                if v.is_some() {
                    *v = it.next();
                }
            }
        }
    }
    all
}

fn value_tags(kind: Kind, cfg: &Cfg, batches: &[Batch]) -> String {
    let mut tags = String::new();
    let vals: Vec<&Vec<u8>> = batches.iter().flatten().flatten().collect();
    let nulls = batches.iter().flatten().filter(|v| v.is_none()).count();
    if vals.len() >= 2 {
        tags.push_str(" nt");
    }
    if nulls > 0 {
        tags.push_str(" nulls");
    }
    if vals.iter().any(|v| is_nan(kind, v)) {
        tags.push_str(" nan");
    }
    if vals.is_empty() {
        tags.push_str(" novalues");
    }
    if matches!(kind, Kind::F16 | Kind::F32 | Kind::F64) {
        let is_inf = |v: &Vec<u8>| match kind {
            Kind::F16 => half::f16::from_le_bytes(v[..].try_into().unwrap()).is_infinite(),
            Kind::F32 => f32::from_le_bytes(v[..].try_into().unwrap()).is_infinite(),
            _ => f64::from_le_bytes(v[..].try_into().unwrap()).is_infinite(),
        };
        let ninf = vals.iter().filter(|v| is_inf(v)).count();
        if ninf > 0 && ninf < vals.len() {
            tags.push_str(" inf-mixed");
        }
        if ninf > 0 && batches.iter().any(|b| b.iter().flatten().count() > 0 && b.iter().flatten().all(|v| is_inf(v))) {
            tags.push_str(" inf-only-batch");
        }
    }
    let byteish = matches!(kind, Kind::DecBa | Kind::Utf8 | Kind::Bin | Kind::Flba(_));
    if byteish {
        if cfg.stl != 0 && vals.iter().any(|v| v.len() > cfg.stl) {
            tags.push_str(" trunc-stats");
        }
        if cfg.cil != 0 && cfg.level == 2 && vals.iter().any(|v| v.len() > cfg.cil) {
            tags.push_str(" trunc-index");
        }
    }
    if kind == Kind::Utf8 && vals.iter().any(|v| std::str::from_utf8(v).is_err()) {
        tags.push_str(" invalid-utf8");
    }
    if kind == Kind::DecBa {
        let mut lens: Vec<usize> = vals.iter().map(|v| v.len()).collect();
        lens.sort();
        lens.dedup();
        if lens.len() >= 2 {
            tags.push_str(" kf:decimal-bytearray-unequal-len");
        }
        // BYTE_ARRAY decimal whose statistics get byte-truncated
        let st = cfg.level != 0 && cfg.stl != 0 && vals.iter().any(|v| v.len() > cfg.stl);
        let ci = cfg.level == 2 && cfg.cil != 0 && vals.iter().any(|v| v.len() > cfg.cil);
        if st || ci {
            tags.push_str(" kf:decimal-bytearray-truncated");
        }
    }
    if matches!(kind, Kind::Utf8 | Kind::Bin | Kind::Flba(_))
        && cfg.level == 2
        && cfg.cil != 0
        && vals.len() >= 2
        && vals.iter().any(|v| v.len() > cfg.cil)
    {
        tags.push_str(" kf:index-truncation-order");
    }
    tags
}

/// the column-writer path cuts row groups at batch boundaries: is one of them empty?
fn has_empty_rg(api: &str, cfg: &Cfg, batches: &[Batch]) -> bool {
    if api != "cw" {
        return false;
    }
    let mut counts = vec![0usize];
    let mut rows = 0usize;
    for b in batches {
        if cfg.rg != 0 && rows >= cfg.rg {
            counts.push(0);
            rows = 0;
        }
        *counts.last_mut().unwrap() += b.len();
        rows += b.len();
    }
    counts.iter().any(|c| *c == 0)
}

fn mk_stats(kind: Kind, cfg: &Cfg, batches: &[Batch], extra: &str) -> (String, String) {
    let line = format!(
        "C07 stats {} {} {} {} {} {} {}",
        kind_name(kind), cfg.stl, cfg.cil, cfg.wbs, cfg.rowlimit, cfg.flags, show_batches(batches)
    );
    let mut tags = format!("op:stats kind:{}{}{}", t_kind(kind), value_tags(kind, cfg, batches), extra);
    if has_empty_rg("cw", cfg, batches) {
        tags.push_str(" kf:empty-row-group");
    }
    (line, tags)
}

fn file_tags(api: &str, kind: Kind, cfg: &Cfg, batches: &[Batch]) -> String {
    let mut t = format!(
        "op:file api:{} kind:{} level:{} bloom:{}{}",
        api, t_kind(kind), cfg.level, (cfg.bloom != 0) as u8, value_tags(kind, cfg, batches)
    );
    if cfg.rg != 0 {
        t.push_str(" multi-rg");
    }
    if has_empty_rg(api, cfg, batches) {
        t.push_str(" kf:empty-row-group");
    }
    if cfg.flags & 16 != 0 && api.starts_with("aw") {
        t.push_str(" sliced-junk");
    }
    if cfg.flags & 32 != 0 && api == "cw" {
        t.push_str(" with-statistics");
    }
    if cfg.flags & 64 != 0 && cfg.bloom != 0 {
        t.push_str(" bloom-at-end");
    }
    t
}

fn mk_file(api: &str, kind: Kind, cfg: &Cfg, batches: &[Batch], extra: &str) -> (String, String) {
    let line = format!(
        "C07 file {} {} {} {} {} {} {} {} {} {} {}",
        api, kind_name(kind), cfg.stl, cfg.cil, cfg.level, cfg.wbs, cfg.rowlimit, cfg.flags, cfg.bloom, cfg.rg,
        show_batches(batches)
    );
    (line, format!("{}{}", file_tags(api, kind, cfg, batches), extra))
}

fn mk_bloom(nbytes: usize, values: &[Vec<u8>], fpp: f64, extra: &str) -> (String, String) {
    // observe the number of folds the implementation chooses (f64 heuristic = external parameter)
    let mut f = Sbbf::new_with_num_of_bytes(nbytes);
    let before = f.num_blocks();
    for v in values {
        f.insert(&v[..]);
    }
    f.fold_to_target_fpp(fpp);
    let folds = (before / f.num_blocks().max(1)).trailing_zeros();
    let hashes: Vec<u64> = values.iter().map(|v| xxh(v)).collect();
    let vs = if values.is_empty() {
        "-".to_string()
    } else {
        values.iter().map(|v| if v.is_empty() { "e".to_string() } else { hex(v) }).collect::<Vec<_>>().join(",")
    };
    let line = format!("C07 bloom {} {} {} {} {}", nbytes, folds, fpp.to_bits(), vs, show_list(&hashes));
    let tags = format!("op:bloom folds:{} blocks:{}{}{}", folds, before, if values.is_empty() { "" } else { " nt" }, extra);
    (line, tags)
}

fn nested_tags(rows: &[NRow]) -> String {
    let leaves: usize = rows.iter().flatten().flatten().flatten().count();
    let null_levels = rows.iter().filter(|r| r.as_ref().map_or(true, |l| l.is_empty())).count()
        + rows.iter().flatten().flatten().filter(|x| x.is_none()).count();
    let mut t = String::from("op:nested");
    if leaves >= 2 {
        t.push_str(" nt");
    }
    if null_levels > 0 && leaves > 0 {
        // a page can hold as many null levels as rows and still hold values
        t.push_str(" kf:nested-null-levels");
    }
    t
}

fn mk_nested(rowlimit: usize, wbs: usize, flags: u32, rows: &[NRow], extra: &str) -> (String, String) {
    (format!("C07 nested {} {} {} {}", rowlimit, wbs, flags, show_nested(rows)), format!("{}{}", nested_tags(rows), extra))
}

fn gen_nested_rows(rng: &mut Rng) -> Vec<NRow> {
    let n = rng.usize(8);
    (0..n)
        .map(|_| match rng.usize(6) {
            0 => None,
            1 => Some(vec![]),
            _ => Some((0..1 + rng.usize(3)).map(|_| if rng.chance(1, 3) { None } else { Some(rng.range(-3, 3) as i32) }).collect()),
        })
        .collect()
}

fn gen_case(rng: &mut Rng) -> (String, String) {
    let r = rng.usize(21);
    if r < 9 {
        // stats: correspondence with the model
        let kind = gen_kind(rng);
        let stl = *rng.pick(&[0usize, 1, 2, 3, 4, 5, 6, 7, 8, 64]);
        let cil = *rng.pick(&[0usize, 1, 2, 3, 4, 5, 6, 7, 8, 64]);
        let wbs = *rng.pick(&[1usize, 2, 3, 1024]);
        let rowlimit = *rng.pick(&[1usize, 2, 3, 20000]);
        let flags = (rng.usize(4) as u32) | if rng.bool() { 8 } else { 0 } | if rng.chance(1, 4) { 32 } else { 0 };
        let cfg = Cfg { stl, cil, level: 2, wbs, rowlimit, flags, bloom: 0, rg: 0 };
        let same = rng.chance(1, 2);
        let mut batches = gen_batches(rng, kind, false, same);
        if rng.chance(1, 5) {
            // single value: pure truncation case
            batches = vec![vec![Some(gen_value(rng, kind))]];
        }
        if kind == Kind::Utf8 && rng.chance(1, 6) {
            corrupt_utf8(rng, &mut batches);
        }
        mk_stats(kind, &cfg, &batches, "")
    } else if r < 17 {
        let kind = if rng.chance(1, 40) { *rng.pick(&[Kind::Interval, Kind::Int96]) } else { gen_kind(rng) };
        let api = if rng.chance(1, 2) && arrow_type(kind).is_some() {
            *rng.pick(&["aw", "aw", "awl", "awv", "awd"])
        } else {
            "cw"
        };
        let stl = *rng.pick(&[0usize, 1, 2, 3, 4, 5, 6, 7, 8, 64]);
        let cil = *rng.pick(&[0usize, 1, 2, 3, 4, 5, 6, 7, 8, 64]);
        let level = *rng.pick(&[0u8, 1, 2, 2, 2]);
        let wbs = *rng.pick(&[1usize, 2, 3, 1024]);
        let rowlimit = *rng.pick(&[1usize, 2, 3, 20000]);
        let nullable = rng.bool();
        let flags = (rng.usize(4) as u32)
            | if nullable { 4 } else { 0 }
            | if rng.bool() { 8 } else { 0 }
            | if rng.chance(1, 3) { 16 } else { 0 }
            | if rng.chance(1, 4) { 32 } else { 0 }
            | if rng.chance(1, 3) { 64 } else { 0 };
        let bloom = if rng.bool() { 0 } else { 1 + rng.usize(5) as u8 };
        let rg = if rng.chance(1, 3) { 1 + rng.usize(6) } else { 0 };
        let cfg = Cfg { stl, cil, level, wbs, rowlimit, flags, bloom, rg };
        let same = rng.chance(1, 2);
        let mut batches = gen_batches(rng, kind, nullable, same);
        if kind == Kind::Utf8 && api == "cw" && rng.chance(1, 6) {
            corrupt_utf8(rng, &mut batches);
        }
        mk_file(api, kind, &cfg, &batches, "")
    } else if r < 18 {
        let rows = gen_nested_rows(rng);
        let rowlimit = *rng.pick(&[1usize, 2, 3, 20000]);
        let wbs = *rng.pick(&[1usize, 2, 3, 1024]);
        let flags = (rng.usize(4) as u32) | if rng.bool() { 16 } else { 0 };
        mk_nested(rowlimit, wbs, flags, &rows, "")
    } else {
        let nbytes = *rng.pick(&[0usize, 32, 64, 128, 256, 512, 1024]);
        let nvals = match rng.usize(3) {
            0 => rng.usize(3),
            1 => rng.usize(12),
            _ => rng.usize(60),
        };
        let values: Vec<Vec<u8>> = (0..nvals).map(|_| { let n = rng.usize(6); rng.bytes(n) }).collect();
        let fpp = *rng.pick(&[0.0f64, 1e-9, 0.01, 0.05, 0.5, 0.999999, 1.0]);
        mk_bloom(nbytes, &values, fpp, "")
    }
}

/// minimal two's-complement big-endian encoding of `x` with `extra` redundant sign bytes
fn dec_enc(x: i64, extra: usize) -> Vec<u8> {
    let be = (x as i128).to_be_bytes();
    let mut i = 0;
    while i < 15 && ((be[i] == 0 && be[i + 1] & 0x80 == 0) || (be[i] == 0xFF && be[i + 1] & 0x80 != 0)) {
        i += 1;
    }
    let mut v = vec![if x < 0 { 0xFF } else { 0 }; extra];
    v.extend_from_slice(&be[i..]);
    v
}

/// the fixed block of boundary cases that is part of every run (independent of the seed)
fn boundary_block() -> Vec<(String, String)> {
    let mut out = vec![];
    let mut rng = Rng::new(0xB0DA);
    let base = |stl: usize, cil: usize, rowlimit: usize, wbs: usize, flags: u32| Cfg { stl, cil, level: 2, wbs, rowlimit, flags, bloom: 0, rg: 0 };
    let x = " dense";
    // 1. truncation: every limit 1..8, the cut falling before / inside / after chars of width 1..4 and
    //    the chars that cannot be incremented; binary with 0xFF runs; lengths l-1, l, l+1
    for l in 1usize..=8 {
        for back in 0usize..=3 {
            if back > l {
                continue;
            }
            for c in [0x61u32, 0xE9, 0x20AC, 0x1F600, 0x7F, 0x7FF, 0xD7FF, 0xFFFF, 0x10FFFF] {
                for prev in [0x61u32, 0x7F, 0x10FFFF] {
                    let mut st = String::new();
                    for _ in 0..(l - back).saturating_sub(1) {
                        st.push('a');
                    }
                    if l - back >= 1 {
                        st.push(char::from_u32(prev).unwrap());
                    }
                    st.push(char::from_u32(c).unwrap());
                    st.push_str("zz");
                    out.push(mk_stats(Kind::Utf8, &base(l, l, 20000, 1024, 0), &[vec![Some(st.into_bytes())]], x));
                }
            }
        }
        for len in [l.saturating_sub(1), l, l + 1, l + 2] {
            for pat in 0..4 {
                let v: Vec<u8> = (0..len)
                    .map(|i| match pat {
                        0 => 0xFF,
                        1 => if i == 0 { 0x01 } else { 0xFF },
                        2 => if i + 1 == l { 0xFE } else { 0xFF },
                        _ => if i < l { 0x00 } else { 0xFF },
                    })
                    .collect();
                out.push(mk_stats(Kind::Bin, &base(l, l, 20000, 1024, 0), &[vec![Some(v.clone())]], x));
                if len >= 1 {
                    out.push(mk_stats(Kind::Flba(len), &base(l, l, 20000, 1024, 0), &[vec![Some(v)]], x));
                }
            }
        }
    }
    // 2. decimals on the two's-complement length boundaries, minimal and redundantly sign-extended
    let dv: [i64; 17] = [0, 1, -1, 127, 128, -128, -129, 255, 256, -256, -257, 32767, 32768, -32768, -32769, 8388607, -8388608];
    for (i, a) in dv.iter().enumerate() {
        for (j, b) in dv.iter().enumerate() {
            let (ea, eb) = (dec_enc(*a, (i + j) % 3), dec_enc(*b, (i + 2 * j) % 3));
            let one_page = (i + j) % 2 == 0;
            let batches = vec![vec![Some(ea.clone())], vec![Some(eb.clone())]];
            out.push(mk_stats(Kind::DecBa, &base(64, 64, if one_page { 20000 } else { 1 }, 1024, 0), &batches, x));
            if i < 7 && j < 7 {
                // the same values at fixed widths
                for n in [2usize, 3, 16] {
                    let fx = |v: i64| (v as i128).to_be_bytes()[16 - n..].to_vec();
                    out.push(mk_stats(Kind::DecFlba(n), &base(1, 1, 1, 1024, 0), &[vec![Some(fx(*a))], vec![Some(fx(*b))]], x));
                }
            }
        }
    }
    // 3. floats: every ordered pair of the special values, in one page and in two pages
    for kind in [Kind::F16, Kind::F32, Kind::F64] {
        let sp: Vec<Vec<u8>> = match kind {
            Kind::F16 => [0x0000u16, 0x8000, 0x7C00, 0xFC00, 0x7E00, 0xFE00, 0x3C00, 0xBC00, 0x0001, 0x7BFF, 0xFBFF, 0x7C01]
                .iter().map(|b| b.to_le_bytes().to_vec()).collect(),
            Kind::F32 => [0u32, 0x8000_0000, 0x7F80_0000, 0xFF80_0000, 0x7FC0_0000, 0xFFC0_0000, 0x3F80_0000, 0xBF80_0000, 1, 0x7F7F_FFFF, 0xFF7F_FFFF, 0x7F80_0001]
                .iter().map(|b| b.to_le_bytes().to_vec()).collect(),
            _ => [0u64, 1 << 63, 0x7FF0 << 48, 0xFFF0 << 48, 0x7FF8 << 48, 0xFFF8 << 48, 0x3FF0 << 48, 0xBFF0 << 48, 1, 0x7FEF_FFFF_FFFF_FFFF, 0xFFEF_FFFF_FFFF_FFFF, (0x7FF0 << 48) | 1]
                .iter().map(|b| b.to_le_bytes().to_vec()).collect(),
        };
        for (i, a) in sp.iter().enumerate() {
            for (j, b) in sp.iter().enumerate() {
                let fin = sp[6].clone();
                let batches = vec![vec![Some(a.clone()), Some(b.clone())], vec![Some(fin)]];
                let rowlimit = [20000usize, 1, 2][(i + j) % 3];
                if (i + j) % 2 == 0 {
                    out.push(mk_stats(kind, &base(0, 0, rowlimit, 1, 8), &batches, x));
                } else {
                    let cfg = Cfg { stl: 0, cil: 0, level: 2, wbs: 1024, rowlimit, flags: 4 | 8, bloom: 2, rg: 0 };
                    let mut nb = batches.clone();
                    nb[1].push(None);
                    out.push(mk_file(if arrow_type(kind).is_some() && j % 2 == 0 { "aw" } else { "cw" }, kind, &cfg, &nb, x));
                }
            }
        }
    }
    // 4. sizes that cross the 1024-value mini-batch / page row limits
    for kind in [Kind::I32, Kind::Utf8, Kind::F16, Kind::DecBa, Kind::Bin, Kind::U64] {
        for n in [1023usize, 1024, 1025, 2049] {
            let pool: Vec<Vec<u8>> = (0..40).map(|_| gen_value(&mut rng, kind)).collect();
            let b: Batch = (0..n).map(|_| Some(rng.pick(&pool).clone())).collect();
            for (wbs, rowlimit) in [(1024usize, 20000usize), (1024, 1000), (500, 1024)] {
                out.push(mk_stats(kind, &base(3, 3, rowlimit, wbs, 1), &[b.clone()], " dense big"));
            }
            if arrow_type(kind).is_some() {
                let cfg = Cfg { stl: 3, cil: 3, level: 2, wbs: 1024, rowlimit: 1000, flags: 1 | 4, bloom: 5, rg: 1000 };
                let nb: Batch = b.iter().enumerate().map(|(i, v)| if i % 97 == 0 { None } else { v.clone() }).collect();
                out.push(mk_file("aw", kind, &cfg, &[nb], " dense big"));
            }
        }
    }
    // 5. bloom filters: block counts 1..512 (folds across 16 blocks), 0/1/8/9/many values
    for nbytes in [32usize, 64, 512, 1024, 2048, 4096, 16384] {
        for nvals in [0usize, 1, 7, 8, 9, 100, 1000] {
            for fpp in [0.0f64, 0.01, 1.0] {
                let values: Vec<Vec<u8>> = (0..nvals).map(|i| (i as u32).to_le_bytes().to_vec()).collect();
                out.push(mk_bloom(nbytes, &values, fpp, x));
            }
        }
    }
    // 6. layouts and entry points: large / view / dictionary arrays, slices with junk around them and
    //    junk under null slots; write_batch_with_statistics; several row groups; undefined orders
    for kind in [Kind::Utf8, Kind::Bin, Kind::I32, Kind::U64, Kind::F64, Kind::F16, Kind::Flba(3), Kind::DecFlba(16), Kind::Bool] {
        for api in ["aw", "awl", "awv", "awd"] {
            for sliced in [0u32, 16] {
                for nullable in [0u32, 4] {
                    for rg in [0usize, 2] {
                        let batches = gen_batches(&mut rng, kind, nullable != 0, false);
                        let cfg = Cfg { stl: 2, cil: 2, level: 2, wbs: 2, rowlimit: 2, flags: sliced | nullable | 8 | 1 | if rg != 0 { 64 } else { 0 }, bloom: 3, rg };
                        out.push(mk_file(api, kind, &cfg, &batches, x));
                    }
                }
            }
        }
    }
    for kind in [Kind::I32, Kind::U32, Kind::I64, Kind::U64, Kind::F32, Kind::F64, Kind::F16, Kind::DecBa, Kind::DecFlba(3), Kind::Utf8, Kind::Bin, Kind::Flba(2), Kind::Bool, Kind::Interval, Kind::Int96] {
        for level in [1u8, 2] {
            for rg in [0usize, 1, 3] {
                for ws in [0u32, 32] {
                    let batches = gen_batches(&mut rng, kind, true, true);
                    let cfg = Cfg { stl: 64, cil: 64, level, wbs: 3, rowlimit: 2, flags: 4 | 8 | ws, bloom: 4, rg };
                    out.push(mk_file("cw", kind, &cfg, &batches, x));
                }
            }
        }
    }
    // 7. nested columns: null / empty lists and null items next to values, 1..3 rows per page
    let nrows: Vec<Vec<NRow>> = vec![
        vec![Some(vec![None, None]), Some(vec![Some(1)])],
        vec![Some(vec![Some(1)]), Some(vec![None, None])],
        vec![None, Some(vec![Some(5), None])],
        vec![Some(vec![]), Some(vec![Some(-2), Some(7)]), None],
        vec![Some(vec![None]), Some(vec![None]), Some(vec![Some(3), Some(4), Some(5)])],
        vec![Some(vec![Some(1), Some(2)]), Some(vec![Some(3)])],
        vec![None, None],
        vec![Some(vec![None, None, Some(9)])],
    ];
    for rows in &nrows {
        for rowlimit in [1usize, 2, 3, 20000] {
            for flags in [0u32, 16, 1, 2] {
                out.push(mk_nested(rowlimit, 1024, flags, rows, x));
            }
        }
    }
    out
}

/// class of an oracle failure message (appended to the tags as `fail:<class>`)
fn fail_class(msg: &str) -> &'static str {
    if msg.contains("does not bound") || msg.contains("flagged exact") || msg.contains("only one of min/max") {
        "bound"
    } else if msg.contains("panicked") {
        "convpanic"
    } else if msg.contains("null_pages[") {
        "nullpage"
    } else if msg.contains("boundary order") {
        "order"
    } else if msg.contains("bloom") {
        "bloom"
    } else if msg.contains("missing") {
        "missing"
    } else if msg.contains("first_row_index") || msg.contains("offset index") || msg.contains("pages hold") || msg.contains("column index has") {
        "offset"
    } else {
        "count"
    }
}

/// record a case: the case tags carry every failure class seen on it, each oracle failure only its own
fn record(sink: &mut Sink, line: String, ans: String, fails: Vec<String>, tags: &str) {
    let mut classes: Vec<&str> = fails.iter().map(|f| fail_class(f)).collect();
    classes.sort();
    classes.dedup();
    let mut case_tags = tags.to_string();
    for c in &classes {
        case_tags.push_str(&format!(" fail:{}", c));
    }
    for f in fails {
        let t = format!("{} fail:{}", tags, fail_class(&f));
        sink.oracle_failure(line.clone(), f, &t);
    }
    sink.case(line, ans, &case_tags);
}

fn t_kind(k: Kind) -> &'static str {
    match k {
        Kind::I32 => "i32",
        Kind::U32 => "u32",
        Kind::I64 => "i64",
        Kind::U64 => "u64",
        Kind::F32 => "f32",
        Kind::F64 => "f64",
        Kind::F16 => "f16",
        Kind::DecBa => "decba",
        Kind::DecFlba(_) => "decflba",
        Kind::Utf8 => "utf8",
        Kind::Bin => "bin",
        Kind::Flba(_) => "flba",
        Kind::Bool => "bool",
        Kind::Interval => "interval",
        Kind::Int96 => "int96",
    }
}

fn main() {
    let args = parse_args();
    if std::env::var("C07_DEBUG").is_err() {
        quiet_panics();
    }
    let mut sink = Sink::new(&args.out);
    if args.mode == "replay" {
        for line in read_cases(args.replay.as_ref().unwrap()) {
            let (ans, fails) = run_case_full(&line);
            // recompute value tags so that known-finding keys also apply on replay
            let tags = replay_tags(&line);
            record(&mut sink, line, ans, fails, &tags);
        }
    } else {
        let mut rng = Rng::new(args.seed ^ 0xC07C07);
        let n = n_cases(&args, 20000, 400000);
        for (line, tags) in boundary_block() {
            let (ans, fails) = run_case_full(&line);
            record(&mut sink, line, ans, fails, &tags);
        }
        for _ in 0..n {
            let (line, tags) = gen_case(&mut rng);
            let (ans, fails) = run_case_full(&line);
            debug_assert_eq!(ans, run_case(&line));
            record(&mut sink, line, ans, fails, &tags);
        }
    }
    sink.finish();
}

fn replay_tags(line: &str) -> String {
    let t: Vec<&str> = line.split(' ').collect();
    let r = std::panic::catch_unwind(|| match t.get(1).copied() {
        Some("stats") => {
            let kind = parse_kind(t[2]);
            let cfg = parse_cfg_stats(&t[3..8]);
            mk_stats(kind, &cfg, &parse_batches(t[8]), "").1
        }
        Some("file") => {
            let kind = parse_kind(t[3]);
            let cfg = parse_cfg_file(&t[4..12]);
            file_tags(t[2], kind, &cfg, &parse_batches(t[12]))
        }
        Some("nested") => nested_tags(&parse_nested(t[5])),
        Some("bloom") => "op:bloom nt".to_string(),
        _ => "replay".to_string(),
    });
    r.unwrap_or_else(|_| "replay".to_string())
}
