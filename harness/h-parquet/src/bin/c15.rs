//! C15 correspondence harness: Parquet sync reader vs push decoder vs async stream under
//! adversarial I/O schedules, plus `PushBuffers` unit operations.
//!
//! Case lines
//!   C15 pb <file_len> <ops;…>                                        PushBuffers unit ops
//!   C15 rd <file> <opts> <mode d|n> <file_len> <phases> <schedule>   push decoder under an explicit schedule
//!   C15 as <file> <opts> <mode d|n> <vectored 0|1> <meta 0|1> <pend,…> <file_len> <phases>   async stream
//! `<phases>` (per-phase requested ranges and batch counts, observed from an exact-ranges run)
//! is what the Lean state-machine model is instantiated with; the harness itself ignores it.
use std::collections::{HashMap, VecDeque};
use std::io::Read;
use std::ops::Range;
use std::sync::atomic::{AtomicBool, Ordering};
use std::sync::{Arc, Mutex};
use std::task::{Context, Poll};

use arrow_array::builder::{Int32Builder, ListBuilder, StringBuilder};
use arrow_array::{Array, ArrayRef, BooleanArray, Int32Array, Int64Array, RecordBatch, StringArray};
use arrow_schema::{DataType, Field, Schema};
use bytes::Bytes;
use futures::future::BoxFuture;
use futures::{FutureExt, StreamExt};
use parquet::DecodeResult;
use parquet::arrow::arrow_reader::{
    ArrowPredicate, ArrowPredicateFn, ArrowReaderBuilder, ArrowReaderMetadata, ArrowReaderOptions,
    ParquetRecordBatchReaderBuilder, RowFilter, RowSelection, RowSelectionPolicy, RowSelector,
};
use parquet::arrow::async_reader::{AsyncFileReader, ParquetRecordBatchStreamBuilder};
use parquet::arrow::push_decoder::{ParquetPushDecoder, ParquetPushDecoderBuilder};
use parquet::arrow::{ArrowWriter, ProjectionMask};
use parquet::file::metadata::{PageIndexPolicy, ParquetMetaData, ParquetMetaDataPushDecoder, ParquetMetaDataReader};
use parquet::file::properties::{EnabledStatistics, WriterProperties};
use parquet::file::reader::{ChunkReader, Length};
use parquet::schema::types::SchemaDescriptor;
use parquet::util::push_buffers::PushBuffers;
use vcommon::*;

// ------------------------------------------------------------------------------------ files

struct FileInfo {
    bytes: Bytes,
    nrows: usize,
    rg_rows: Vec<usize>,
    meta_idx: Arc<ParquetMetaData>,
    meta_noidx: Arc<ParquetMetaData>,
    bloom: bool,
}

/// `<seed>.<nrows>.<rows per row group>.<rows per page>.<dictionary 0|1>`
fn build_file(spec: &str) -> FileInfo {
    let f: Vec<usize> = spec.split('.').map(|x| x.parse().unwrap()).collect();
    let (seed, nrows, rg, page, dict) = (f[0] as u64, f[1], f[2].max(1), f[3].max(1), f[4] != 0);
    let bloom = f.get(5).copied().unwrap_or(0);
    let mut rng = Rng::new(seed ^ 0xF11E);
    let schema = Arc::new(Schema::new(vec![
        Field::new("a", DataType::Int32, true),
        Field::new("b", DataType::Utf8, true),
        Field::new("c", DataType::List(Arc::new(Field::new("item", DataType::Int32, true))), true),
        Field::new("d", DataType::Int64, false),
    ]));
    let a: Int32Array = (0..nrows).map(|_| if rng.chance(1, 8) { None } else { Some(rng.range(-50, 50) as i32) }).collect();
    let mut bb = StringBuilder::new();
    for _ in 0..nrows {
        if rng.chance(1, 10) {
            bb.append_null();
        } else {
            let n = rng.usize(7);
            let s: String = (0..n).map(|_| (b'a' + rng.usize(5) as u8) as char).collect();
            bb.append_value(s);
        }
    }
    let mut cb = ListBuilder::new(Int32Builder::new());
    for _ in 0..nrows {
        if rng.chance(1, 8) {
            cb.append(false);
        } else {
            for _ in 0..rng.usize(4) {
                if rng.chance(1, 6) { cb.values().append_null() } else { cb.values().append_value(rng.range(0, 99) as i32) }
            }
            cb.append(true);
        }
    }
    let d: Int64Array = (0..nrows as i64).map(Some).collect();
    let batch = RecordBatch::try_new(
        schema.clone(),
        vec![Arc::new(a) as ArrayRef, Arc::new(bb.finish()), Arc::new(cb.finish()), Arc::new(d)],
    )
    .unwrap();
    let props = WriterProperties::builder()
        .set_max_row_group_row_count(Some(rg))
        .set_data_page_row_count_limit(page)
        .set_write_batch_size(page)
        .set_dictionary_enabled(dict)
        .set_statistics_enabled(EnabledStatistics::Page)
        .set_bloom_filter_enabled(bloom != 0)
        .set_bloom_filter_position(if bloom == 2 { parquet::file::properties::BloomFilterPosition::End } else { parquet::file::properties::BloomFilterPosition::AfterRowGroup })
        .build();
    let mut buf = vec![];
    let mut w = ArrowWriter::try_new(&mut buf, schema, Some(props)).unwrap();
    // several write calls of uneven size
    let mut at = 0;
    while at < nrows {
        let n = (1 + rng.usize(2 * rg)).min(nrows - at);
        w.write(&batch.slice(at, n)).unwrap();
        at += n;
    }
    w.close().unwrap();
    let bytes = Bytes::from(buf);
    let meta_idx =
        Arc::new(ParquetMetaDataReader::new().with_page_index_policy(PageIndexPolicy::Required).parse_and_finish(&bytes).unwrap());
    let meta_noidx =
        Arc::new(ParquetMetaDataReader::new().with_page_index_policy(PageIndexPolicy::Skip).parse_and_finish(&bytes).unwrap());
    let rg_rows = meta_idx.row_groups().iter().map(|r| r.num_rows() as usize).collect();
    FileInfo { bytes, nrows, rg_rows, meta_idx, meta_noidx, bloom: bloom != 0 }
}

static FILES: Mutex<Option<HashMap<String, Arc<FileInfo>>>> = Mutex::new(None);
fn file(spec: &str) -> Arc<FileInfo> {
    let mut g = FILES.lock().unwrap();
    let m = g.get_or_insert_with(HashMap::new);
    if let Some(f) = m.get(spec) {
        return f.clone();
    }
    let f = Arc::new(build_file(spec));
    m.insert(spec.to_string(), f.clone());
    f
}

// ---------------------------------------------------------------------------------- options

#[derive(Clone, Debug, Default)]
struct Opts {
    proj: Option<String>,          // root columns by letter; "0" = none
    rgs: Option<Vec<usize>>,
    sel: Option<Vec<(bool, usize)>>, // (select?, n)
    filt: Vec<(char, i64, i64)>,   // column, modulus, remainder
    off: Option<usize>,
    lim: Option<usize>,
    bs: usize,
    pidx: bool,
    pol: char, // a auto, m mask, s selectors
    cache: Option<usize>, // max_predicate_cache_size; None = default
    empty_filter: bool,   // a RowFilter with no predicates (`f=-`)
}

fn show_opts(o: &Opts) -> String {
    let mut v = vec![];
    v.push(format!("p={}", o.proj.clone().unwrap_or("*".into())));
    v.push(format!("g={}", o.rgs.as_ref().map(|r| if r.is_empty() { "-".into() } else { r.iter().map(|x| x.to_string()).collect::<Vec<_>>().join(".") }).unwrap_or("*".into())));
    v.push(format!(
        "s={}",
        o.sel.as_ref().map(|s| if s.is_empty() { "-".into() } else { s.iter().map(|(k, n)| format!("{}{}", if *k { 'k' } else { 's' }, n)).collect::<Vec<_>>().join(".") }).unwrap_or("*".into())
    ));
    v.push(format!("f={}", if o.filt.is_empty() { if o.empty_filter { "-".to_string() } else { "*".into() } } else { o.filt.iter().map(|(c, m, r)| format!("{}{}.{}", c, m, r)).collect::<Vec<_>>().join("+") }));
    v.push(format!("o={}", o.off.map(|x| x.to_string()).unwrap_or("*".into())));
    v.push(format!("l={}", o.lim.map(|x| x.to_string()).unwrap_or("*".into())));
    v.push(format!("b={}", o.bs));
    v.push(format!("x={}", o.pidx as u8));
    v.push(format!("y={}", o.pol));
    v.push(format!("c={}", o.cache.map(|x| x.to_string()).unwrap_or("d".into())));
    v.join(";")
}

fn parse_opts(s: &str) -> Opts {
    let mut o = Opts { bs: 1024, pol: 'a', ..Default::default() };
    for kv in s.split(';') {
        let (k, v) = kv.split_once('=').unwrap();
        match k {
            "p" => o.proj = if v == "*" { None } else { Some(v.to_string()) },
            "g" => o.rgs = if v == "*" { None } else if v == "-" { Some(vec![]) } else { Some(v.split('.').map(|x| x.parse().unwrap()).collect()) },
            "s" => {
                o.sel = if v == "*" {
                    None
                } else if v == "-" {
                    Some(vec![])
                } else {
                    Some(v.split('.').map(|t| (t.starts_with('k'), t[1..].parse().unwrap())).collect())
                }
            }
            "f" => {
                o.empty_filter = v == "-";
                o.filt = if v == "*" || v == "-" {
                    vec![]
                } else {
                    v.split('+')
                        .map(|t| {
                            let c = t.chars().next().unwrap();
                            let (m, r) = t[1..].split_once('.').unwrap();
                            (c, m.parse().unwrap(), r.parse().unwrap())
                        })
                        .collect()
                }
            }
            "o" => o.off = if v == "*" { None } else { Some(v.parse().unwrap()) },
            "l" => o.lim = if v == "*" { None } else { Some(v.parse().unwrap()) },
            "b" => o.bs = v.parse().unwrap(),
            "x" => o.pidx = v == "1",
            "y" => o.pol = v.chars().next().unwrap(),
            "c" => o.cache = if v == "d" { None } else { Some(v.parse().unwrap()) },
            _ => panic!("opt"),
        }
    }
    o
}

fn col_idx(c: char) -> usize {
    (c as u8 - b'a') as usize
}

fn predicate(sd: &SchemaDescriptor, c: char, m: i64, r: i64) -> Box<dyn ArrowPredicate> {
    let m = m.max(1);
    Box::new(ArrowPredicateFn::new(ProjectionMask::roots(sd, [col_idx(c)]), move |b: RecordBatch| {
        let col = b.column(0);
        let out: BooleanArray = match col.data_type() {
            DataType::Int32 => {
                let a = col.as_any().downcast_ref::<Int32Array>().unwrap();
                a.iter().map(|v| v.map(|v| (v as i64).rem_euclid(m) == r)).collect()
            }
            DataType::Int64 => {
                let a = col.as_any().downcast_ref::<Int64Array>().unwrap();
                a.iter().map(|v| v.map(|v| v.rem_euclid(m) == r)).collect()
            }
            DataType::Utf8 => {
                let a = col.as_any().downcast_ref::<StringArray>().unwrap();
                a.iter().map(|v| v.map(|v| (v.len() as i64).rem_euclid(m) == r)).collect()
            }
            _ => {
                // list column: keep rows whose list length satisfies the test
                let a = col.as_any().downcast_ref::<arrow_array::ListArray>().unwrap();
                (0..a.len()).map(|i| if a.is_null(i) { None } else { Some((a.value_length(i) as i64).rem_euclid(m) == r) }).collect()
            }
        };
        Ok(out)
    }))
}

fn apply<T>(mut b: ArrowReaderBuilder<T>, o: &Opts) -> ArrowReaderBuilder<T> {
    let sd = b.parquet_schema().clone();
    b = b.with_batch_size(o.bs);
    if let Some(p) = &o.proj {
        let roots: Vec<usize> = if p == "0" { vec![] } else { p.chars().map(col_idx).collect() };
        b = b.with_projection(ProjectionMask::roots(&sd, roots));
    }
    if let Some(g) = &o.rgs {
        b = b.with_row_groups(g.clone());
    }
    if let Some(s) = &o.sel {
        let v: Vec<RowSelector> = s.iter().map(|(k, n)| if *k { RowSelector::select(*n) } else { RowSelector::skip(*n) }).collect();
        b = b.with_row_selection(RowSelection::from(v));
    }
    if !o.filt.is_empty() {
        let preds = o.filt.iter().map(|(c, m, r)| predicate(&sd, *c, *m, *r)).collect();
        b = b.with_row_filter(RowFilter::new(preds));
    } else if o.empty_filter {
        b = b.with_row_filter(RowFilter::new(vec![]));
    }
    if let Some(x) = o.off {
        b = b.with_offset(x);
    }
    if let Some(x) = o.lim {
        b = b.with_limit(x);
    }
    b = b.with_row_selection_policy(match o.pol {
        'm' => RowSelectionPolicy::Mask,
        's' => RowSelectionPolicy::Selectors,
        _ => RowSelectionPolicy::default(),
    });
    if let Some(c) = o.cache {
        b = b.with_max_predicate_cache_size(c);
    }
    b
}

fn reader_options(o: &Opts) -> ArrowReaderOptions {
    ArrowReaderOptions::new().with_page_index_policy(if o.pidx { PageIndexPolicy::Required } else { PageIndexPolicy::Skip })
}

/// logical content of a sequence of batches: (rows, one concatenated array per column)
fn rows_of(batches: &[RecordBatch]) -> (usize, Vec<ArrayRef>) {
    let n: usize = batches.iter().map(|b| b.num_rows()).sum();
    if batches.is_empty() {
        return (0, vec![]);
    }
    let ncol = batches[0].num_columns();
    let cols = (0..ncol)
        .map(|i| {
            let arrs: Vec<&dyn Array> = batches.iter().map(|b| b.column(i).as_ref()).collect();
            arrow_select::concat::concat(&arrs).unwrap()
        })
        .collect();
    (n, cols)
}

fn same_rows(a: &[RecordBatch], b: &[RecordBatch]) -> bool {
    let (na, ca) = rows_of(a);
    let (nb, cb) = rows_of(b);
    if na != nb {
        return false;
    }
    if na == 0 {
        return true;
    }
    ca.len() == cb.len() && ca.iter().zip(cb.iter()).all(|(x, y)| x.to_data() == y.to_data())
}

fn run_sync(f: &FileInfo, o: &Opts) -> Result<Vec<RecordBatch>, String> {
    let b = ParquetRecordBatchReaderBuilder::try_new_with_options(f.bytes.clone(), reader_options(o)).map_err(|e| e.to_string())?;
    let r = apply(b, o).build().map_err(|e| e.to_string())?;
    r.collect::<Result<Vec<_>, _>>().map_err(|e| e.to_string())
}

// -------------------------------------------------------------------------------- push side

fn show_ranges(rs: &[Range<u64>]) -> String {
    if rs.is_empty() { "-".into() } else { rs.iter().map(|r| format!("{}-{}", r.start, r.end)).collect::<Vec<_>>().join("+") }
}
fn parse_ranges(s: &str) -> Vec<Range<u64>> {
    if s == "-" {
        return vec![];
    }
    s.split('+')
        .map(|t| {
            let (a, b) = t.split_once('-').unwrap();
            a.parse().unwrap()..b.parse().unwrap()
        })
        .collect()
}

fn bytes_for(f: &FileInfo, r: &Range<u64>) -> Bytes {
    // two physical layouts: a zero-copy slice of the file buffer, or a fresh allocation
    let sl = f.bytes.slice(r.start as usize..r.end as usize);
    if r.start % 2 == 1 { Bytes::copy_from_slice(&sl) } else { sl }
}

fn new_decoder(f: &FileInfo, o: &Opts, init: Option<&[Range<u64>]>) -> Result<ParquetPushDecoder, String> {
    let meta = if o.pidx { f.meta_idx.clone() } else { f.meta_noidx.clone() };
    // two entry points: try_new_decoder_with_options / new_with_metadata
    let mut b = if o.bs % 2 == 0 {
        ParquetPushDecoderBuilder::try_new_decoder_with_options(meta, reader_options(o)).map_err(|e| e.to_string())?
    } else {
        ParquetPushDecoderBuilder::new_with_metadata(ArrowReaderMetadata::try_new(meta, reader_options(o)).map_err(|e| e.to_string())?)
    };
    if let Some(rs) = init {
        // bytes fetched before the decoder exists, handed over through `with_buffers`
        let mut pb = if o.bs % 3 == 0 { PushBuffers::default() } else { PushBuffers::new(f.bytes.len() as u64) };
        pb.push_ranges(rs.to_vec(), rs.iter().map(|r| bytes_for(f, r)).collect()).map_err(|e| e.to_string())?;
        b = b.with_buffers(pb);
    }
    apply(b, o).build().map_err(|e| e.to_string())
}

#[derive(Clone, Debug)]
enum Act {
    Push(Vec<Range<u64>>),
    Poll,
    Clear,
    Rebuild,
    /// call the OTHER front-end once (try_next_reader in a try_decode run and vice versa)
    PollOther,
    /// push a buffer one byte shorter than its range (rejected; leaves the decoder Finished)
    Short(Range<u64>),
    /// first action only: build the decoder `with_buffers` holding these ranges
    WithBuf(Vec<Range<u64>>),
    /// into_builder + changed batch size / selection policy / cache size / re-installed filter + build
    Change(usize, char, Option<usize>),
}
fn show_sched(a: &[Act]) -> String {
    if a.is_empty() {
        return "-".into();
    }
    a.iter()
        .map(|x| match x {
            Act::Push(r) => format!("P{}", show_ranges(r)),
            Act::Poll => "T".into(),
            Act::Clear => "C".into(),
            Act::Rebuild => "B".into(),
            Act::PollOther => "U".into(),
            Act::Short(r) => format!("X{}", show_ranges(&[r.clone()])),
            Act::WithBuf(r) => format!("W{}", show_ranges(r)),
            Act::Change(b, p, c) => format!("K{}:{}:{}", b, p, c.map(|x| x.to_string()).unwrap_or("d".into())),
        })
        .collect::<Vec<_>>()
        .join(",")
}
fn parse_sched(s: &str) -> Vec<Act> {
    if s == "-" {
        return vec![];
    }
    s.split(',')
        .map(|t| match &t[..1] {
            "P" => Act::Push(parse_ranges(&t[1..])),
            "T" => Act::Poll,
            "C" => Act::Clear,
            "U" => Act::PollOther,
            "X" => Act::Short(parse_ranges(&t[1..])[0].clone()),
            "W" => Act::WithBuf(parse_ranges(&t[1..])),
            "K" => {
                let f: Vec<&str> = t[1..].split(':').collect();
                Act::Change(f[0].parse().unwrap(), f[1].chars().next().unwrap(), if f[2] == "d" { None } else { Some(f[2].parse().unwrap()) })
            }
            _ => Act::Rebuild,
        })
        .collect()
}

enum Ev {
    Needs(Vec<Range<u64>>),
    Batch(RecordBatch),
    Reader(Vec<RecordBatch>),
    Finished,
    Error(String),
}

/// a push decoder plus the bookkeeping for the requested-range oracles
struct PushRun<'a> {
    f: &'a FileInfo,
    mode: char,
    dec: Option<ParquetPushDecoder>,
    out: Vec<RecordBatch>,
    events: Vec<String>,
    finished: bool,
    errored: bool,
    /// last NeedsData and, per range, whether a single pushed range has covered it since
    last_need: Option<(Vec<Range<u64>>, Vec<bool>)>,
    problems: Vec<String>,
    n_needs: usize,
    opts: Opts,
    /// a deliberately bad push happened: the decoder is dead, only the prefix oracle applies
    sabotaged: bool,
    /// `peek_next_row_group()` taken at the last row-group boundary before a call
    peeked: Option<Option<usize>>,
    last_remaining: usize,
}

impl<'a> PushRun<'a> {
    fn new(f: &'a FileInfo, o: &Opts, mode: char) -> Result<Self, String> {
        Self::new_with(f, o, mode, None)
    }
    fn new_with(f: &'a FileInfo, o: &Opts, mode: char, init: Option<&[Range<u64>]>) -> Result<Self, String> {
        Ok(PushRun {
            f, mode, dec: Some(new_decoder(f, o, init)?), out: vec![], events: vec![], finished: false, errored: false,
            last_need: None, problems: vec![], n_needs: 0, opts: o.clone(), sabotaged: false, peeked: None, last_remaining: usize::MAX,
        })
    }
    /// row group a global row index (column `d`) belongs to
    fn rg_of_row(&self, row: usize) -> usize {
        let mut acc = 0;
        for (i, n) in self.f.rg_rows.iter().enumerate() {
            acc += n;
            if row < acc {
                return i;
            }
        }
        usize::MAX
    }
    fn poll(&mut self) -> Ev {
        self.poll_mode(self.mode)
    }
    fn poll_mode(&mut self, mode: char) -> Ev {
        let dec = self.dec.as_mut().unwrap();
        // accessors that must not disturb anything: peek / remaining at a boundary
        if dec.is_at_row_group_boundary() {
            match dec.peek_next_row_group() {
                Ok(p) => {
                    if dec.peek_next_row_group().ok() != Some(p) {
                        self.problems.push("peek-not-idempotent".into());
                    }
                    self.peeked = Some(p);
                }
                Err(_) => self.problems.push("peek-error".into()),
            }
        }
        let rem = dec.row_groups_remaining();
        if rem > self.last_remaining {
            self.problems.push("row-groups-remaining-grew".into());
        }
        self.last_remaining = rem;
        let ev = if mode == 'd' {
            match dec.try_decode() {
                Ok(DecodeResult::NeedsData(r)) => Ev::Needs(r),
                Ok(DecodeResult::Data(b)) => Ev::Batch(b),
                Ok(DecodeResult::Finished) => Ev::Finished,
                Err(e) => Ev::Error(e.to_string()),
            }
        } else {
            match dec.try_next_reader() {
                Ok(DecodeResult::NeedsData(r)) => Ev::Needs(r),
                Ok(DecodeResult::Data(rd)) => match rd.collect::<Result<Vec<_>, _>>() {
                    Ok(v) => Ev::Reader(v),
                    Err(e) => Ev::Error(e.to_string()),
                },
                Ok(DecodeResult::Finished) => Ev::Finished,
                Err(e) => Ev::Error(e.to_string()),
            }
        };
        let flen = self.f.bytes.len() as u64;
        match &ev {
            Ev::Needs(rs) => {
                self.n_needs += 1;
                if rs.is_empty() {
                    self.problems.push("empty-NeedsData".into());
                }
                for r in rs {
                    if !(r.start < r.end && r.end <= flen) {
                        self.problems.push(format!("range-outside-file:{}-{}", r.start, r.end));
                    }
                }
                if let Some((prev, cov)) = &self.last_need {
                    if cov.iter().all(|c| *c) && prev == rs {
                        self.problems.push(format!("no-progress:{}", show_ranges(rs)));
                    }
                    // a range that was supplied (covered by one pushed range) must not be asked for again
                    // while the same request is outstanding
                    if prev.iter().zip(cov).any(|(p, c)| *c && rs.contains(p)) && rs.iter().all(|r| prev.contains(r)) {
                        self.problems.push(format!("re-requested-supplied-range:{}", show_ranges(rs)));
                    }
                }
                let n = rs.len();
                self.last_need = Some((rs.clone(), vec![false; n]));
                self.events.push(format!("N{}", show_ranges(rs)));
            }
            Ev::Batch(b) => {
                self.last_need = None;
                if let Some(p) = self.peeked.take() {
                    if b.num_rows() > 0 && self.opts.proj.is_none() {
                        let d = b.column(3).as_any().downcast_ref::<Int64Array>().unwrap().value(0) as usize;
                        let rg = self.rg_of_row(d);
                        match p {
                            None => self.problems.push("peek-none-but-batch".into()),
                            Some(i) if self.opts.filt.is_empty() && i != rg => self.problems.push(format!("peek-{}-but-batch-of-rg-{}", i, rg)),
                            _ => {}
                        }
                    }
                }
                self.out.push(b.clone());
                self.events.push("D".into());
            }
            Ev::Reader(v) => {
                self.last_need = None;
                // the reader handed out is the one `peek_next_row_group` announced (exactly, when no
                // predicate can rule a row group out; never an earlier one otherwise)
                if let Some(p) = self.peeked.take() {
                    let first = v.iter().find(|b| b.num_rows() > 0);
                    if let (Some(b), true) = (first, self.opts.proj.is_none()) {
                        let d = b.column(3).as_any().downcast_ref::<Int64Array>().unwrap().value(0) as usize;
                        let rg = self.rg_of_row(d);
                        match p {
                            None => self.problems.push("peek-none-but-reader".into()),
                            Some(i) if self.opts.filt.is_empty() && i != rg => self.problems.push(format!("peek-{}-but-reader-of-rg-{}", i, rg)),
                            _ => {}
                        }
                    }
                }
                self.out.extend(v.iter().cloned());
                self.events.push(format!("R{}", v.len()));
            }
            Ev::Finished => {
                self.last_need = None;
                if let Some(Some(i)) = self.peeked.take() {
                    if self.opts.filt.is_empty() && !self.sabotaged {
                        self.problems.push(format!("peek-{}-but-finished", i));
                    }
                }
                self.finished = true;
                self.events.push("F".into());
            }
            Ev::Error(_) => {
                self.finished = true;
                self.errored = true;
                self.events.push("E".into());
            }
        }
        ev
    }
    fn push_short(&mut self, r: &Range<u64>) {
        let b = bytes_for(self.f, r);
        let b = b.slice(..b.len().saturating_sub(1));
        match self.dec.as_mut().unwrap().push_range(r.clone(), b) {
            Err(_) => self.events.push("x0".into()),
            Ok(()) => self.events.push("x1".into()),
        }
        self.sabotaged = true;
        self.peeked = None;
    }
    fn push(&mut self, rs: &[Range<u64>]) {
        let data: Vec<Bytes> = rs.iter().map(|r| bytes_for(self.f, r)).collect();
        // two entry points: push_range for a single range, push_ranges otherwise
        let dec = self.dec.as_mut().unwrap();
        let r = if rs.len() == 1 { dec.push_range(rs[0].clone(), data[0].clone()) } else { dec.push_ranges(rs.to_vec(), data) };
        if r.is_err() {
            self.events.push("p0".into());
        }
        if let Some((need, cov)) = &mut self.last_need {
            for (i, n) in need.iter().enumerate() {
                if rs.iter().any(|r| r.start <= n.start && r.end >= n.end) {
                    cov[i] = true;
                }
            }
        }
    }
    fn clear(&mut self) {
        self.dec.as_mut().unwrap().clear_all_ranges();
        if let Some((_, cov)) = &mut self.last_need {
            cov.iter_mut().for_each(|c| *c = false);
        }
    }
    fn rebuild(&mut self, change: Option<(usize, char, Option<usize>)>) {
        let d = self.dec.take().unwrap();
        if d.is_at_row_group_boundary() {
            let (pk, rem, bb) = (d.peek_next_row_group().ok(), d.row_groups_remaining(), d.buffered_bytes());
            let built = d.into_builder().and_then(|mut b| {
                if let Some((bs, pol, cache)) = change {
                    // options that must not change which rows come out
                    let sd = b.parquet_schema().clone();
                    b = b.with_batch_size(bs).with_row_selection_policy(match pol {
                        'm' => RowSelectionPolicy::Mask,
                        's' => RowSelectionPolicy::Selectors,
                        _ => RowSelectionPolicy::default(),
                    });
                    if let Some(c) = cache {
                        b = b.with_max_predicate_cache_size(c);
                    }
                    if !self.opts.filt.is_empty() {
                        let preds = self.opts.filt.iter().map(|(c, m, r)| predicate(&sd, *c, *m, *r)).collect();
                        b = b.with_row_filter(RowFilter::new(preds));
                    }
                }
                b.build()
            });
            match built {
                Ok(nd) => {
                    // the rebuilt decoder resumes exactly where the old one was
                    if nd.peek_next_row_group().ok() != pk || nd.row_groups_remaining() != rem || nd.buffered_bytes() != bb || !nd.is_at_row_group_boundary() {
                        self.problems.push("rebuild-changed-position".into());
                    }
                    self.dec = Some(nd);
                    self.events.push("b1".into());
                }
                Err(_) => {
                    self.events.push("bE".into());
                    self.finished = true;
                    self.errored = true;
                }
            }
        } else {
            self.dec = Some(d);
            self.events.push("b0".into());
        }
    }
    fn act(&mut self, a: &Act) {
        match a {
            Act::Push(r) => self.push(r),
            Act::Poll => {
                self.poll();
            }
            Act::Clear => self.clear(),
            Act::Rebuild => self.rebuild(None),
            Act::PollOther => {
                let other = if self.mode == 'd' { 'n' } else { 'd' };
                self.poll_mode(other);
            }
            Act::Short(r) => self.push_short(r),
            Act::WithBuf(_) => {} // consumed at construction
            Act::Change(b, p, c) => self.rebuild(Some((*b, *p, *c))),
        }
    }
}

/// phases as the Lean table program wants them: `ranges/k` (k batches) or `ranges/x`
fn discover_phases(f: &FileInfo, o: &Opts) -> Result<String, String> {
    let mut run = PushRun::new(f, o, 'n')?;
    let mut phases: Vec<(Vec<Range<u64>>, Option<usize>)> = vec![];
    let mut open = false; // last phase has no reader attached yet
    for _ in 0..10000 {
        match run.poll() {
            Ev::Needs(rs) => {
                phases.push((rs.clone(), None));
                open = true;
                run.push(&rs);
            }
            Ev::Reader(v) => {
                if open {
                    phases.last_mut().unwrap().1 = Some(v.len());
                } else {
                    phases.push((vec![], Some(v.len())));
                }
                open = false;
            }
            Ev::Finished => break,
            Ev::Batch(_) => unreachable!(),
            Ev::Error(e) => return Err(e),
        }
    }
    Ok(if phases.is_empty() {
        "-".into()
    } else {
        phases.iter().map(|(r, k)| format!("{}/{}", show_ranges(r), k.map(|k| k.to_string()).unwrap_or("x".into()))).collect::<Vec<_>>().join(";")
    })
}

// ------------------------------------------------------------------------------- async side

struct YieldThen<T> {
    left: usize,
    val: Option<T>,
}
impl<T: Unpin> std::future::Future for YieldThen<T> {
    type Output = T;
    fn poll(mut self: std::pin::Pin<&mut Self>, cx: &mut Context<'_>) -> Poll<T> {
        if self.left > 0 {
            self.left -= 1;
            cx.waker().wake_by_ref();
            Poll::Pending
        } else {
            Poll::Ready(self.val.take().unwrap())
        }
    }
}

#[derive(Clone)]
struct Io {
    data: Bytes,
    pend: Arc<Mutex<VecDeque<usize>>>,
    log: Arc<Mutex<Vec<Range<u64>>>>,
    bad: Arc<Mutex<Vec<String>>>,
    in_meta: Arc<AtomicBool>,
    pidx: bool,
}
impl Io {
    fn next_pend(&self) -> usize {
        if self.in_meta.load(Ordering::SeqCst) { 1 } else { self.pend.lock().unwrap().pop_front().unwrap_or(0) }
    }
    fn fetch(&self, r: &Range<u64>) -> Bytes {
        if !(r.start <= r.end && r.end <= self.data.len() as u64) {
            self.bad.lock().unwrap().push(format!("range-outside-file:{}-{}", r.start, r.end));
            return Bytes::new();
        }
        if !self.in_meta.load(Ordering::SeqCst) {
            self.log.lock().unwrap().push(r.clone());
        }
        self.data.slice(r.start as usize..r.end as usize)
    }
    fn metadata<'a, R: AsyncFileReader>(&'a self, rd: &'a mut R) -> BoxFuture<'a, parquet::errors::Result<Arc<ParquetMetaData>>> {
        let len = self.data.len() as u64;
        let pol = if self.pidx { PageIndexPolicy::Required } else { PageIndexPolicy::Skip };
        let flag = self.in_meta.clone();
        async move {
            flag.store(true, Ordering::SeqCst);
            let r = ParquetMetaDataReader::new().with_page_index_policy(pol).load_and_finish(rd, len).await;
            flag.store(false, Ordering::SeqCst);
            Ok(Arc::new(r?))
        }
        .boxed()
    }
}

/// per-range reader: only `get_bytes`; `get_byte_ranges` is the trait's default (sequential)
struct SeqReader(Io);
impl AsyncFileReader for SeqReader {
    fn get_bytes(&mut self, range: Range<u64>) -> BoxFuture<'_, parquet::errors::Result<Bytes>> {
        let k = self.0.next_pend();
        let b = self.0.fetch(&range);
        YieldThen { left: k, val: Some(Ok(b)) }.boxed()
    }
    fn get_metadata<'a>(&'a mut self, _o: Option<&'a ArrowReaderOptions>) -> BoxFuture<'a, parquet::errors::Result<Arc<ParquetMetaData>>> {
        let io = self.0.clone();
        async move { io.metadata(self).await }.boxed()
    }
}
/// vectored reader: one future per `get_byte_ranges`
struct VecReader(Io);
impl AsyncFileReader for VecReader {
    fn get_bytes(&mut self, range: Range<u64>) -> BoxFuture<'_, parquet::errors::Result<Bytes>> {
        let k = self.0.next_pend();
        let b = self.0.fetch(&range);
        YieldThen { left: k, val: Some(Ok(b)) }.boxed()
    }
    fn get_byte_ranges(&mut self, ranges: Vec<Range<u64>>) -> BoxFuture<'_, parquet::errors::Result<Vec<Bytes>>> {
        let k = self.0.next_pend();
        let v: Vec<Bytes> = ranges.iter().map(|r| self.0.fetch(r)).collect();
        YieldThen { left: k, val: Some(Ok(v)) }.boxed()
    }
    fn get_metadata<'a>(&'a mut self, _o: Option<&'a ArrowReaderOptions>) -> BoxFuture<'a, parquet::errors::Result<Arc<ParquetMetaData>>> {
        let io = self.0.clone();
        async move { io.metadata(self).await }.boxed()
    }
}

fn block_on<F: std::future::Future>(f: F) -> F::Output {
    let mut f = Box::pin(f);
    let w = futures::task::noop_waker();
    let mut cx = Context::from_waker(&w);
    loop {
        if let Poll::Ready(v) = f.as_mut().poll(&mut cx) {
            return v;
        }
    }
}

/// returns (poll trace, fetch log, rows, problems)
fn run_async<R: AsyncFileReader + Unpin + Send + 'static>(
    rd: R,
    io: &Io,
    f: &FileInfo,
    o: &Opts,
    mode: char,
    fetch_meta: bool,
) -> Result<(String, Vec<RecordBatch>), String> {
    let b = if fetch_meta {
        block_on(ParquetRecordBatchStreamBuilder::new_with_options(rd, reader_options(o))).map_err(|e| e.to_string())?
    } else {
        let meta = if o.pidx { f.meta_idx.clone() } else { f.meta_noidx.clone() };
        let arm = ArrowReaderMetadata::try_new(meta, reader_options(o)).map_err(|e| e.to_string())?;
        ParquetRecordBatchStreamBuilder::new_with_metadata(rd, arm)
    };
    let mut b = b;
    let mut bloom_problem = None;
    if f.bloom {
        // bloom filters fetched through the async reader (pending futures, no effect on the fetch log)
        // answer membership queries exactly like the ones the synchronous builder reads
        io.in_meta.store(true, Ordering::SeqCst);
        let sb = ParquetRecordBatchReaderBuilder::try_new_with_options(f.bytes.clone(), reader_options(o)).map_err(|e| e.to_string())?;
        for rg in 0..f.rg_rows.len().min(3) {
            for col in [0usize, 1, 3] {
                let a = block_on(b.get_row_group_column_bloom_filter(rg, col));
                let s = sb.get_row_group_column_bloom_filter(rg, col);
                match (a, s) {
                    (Ok(Some(a)), Ok(Some(s))) => {
                        let same = if col == 0 {
                            (-60i32..60).all(|v| a.check(&v) == s.check(&v))
                        } else if col == 3 {
                            (0i64..200).all(|v| a.check(&v) == s.check(&v))
                        } else {
                            ["", "a", "ab", "abc", "e", "zz", "abcde"].iter().all(|v| a.check(*v) == s.check(*v))
                        };
                        if !same {
                            bloom_problem = Some(format!("bloom-differs rg={} col={}", rg, col));
                        }
                    }
                    (Ok(None), Ok(None)) => {}
                    (Err(_), Err(_)) => {}
                    _ => bloom_problem = Some(format!("bloom-presence-differs rg={} col={}", rg, col)),
                }
            }
        }
        io.in_meta.store(false, Ordering::SeqCst);
    }
    if let Some(p) = bloom_problem {
        io.bad.lock().unwrap().push(p);
    }
    let mut stream = apply(b, o).build().map_err(|e| e.to_string())?;
    let w = futures::task::noop_waker();
    let mut cx = Context::from_waker(&w);
    let mut trace = String::new();
    let mut out = vec![];
    if mode == 'd' {
        for _ in 0..50_000 {
            match stream.poll_next_unpin(&mut cx) {
                Poll::Pending => trace.push('P'),
                Poll::Ready(Some(Ok(b))) => {
                    trace.push('D');
                    out.push(b);
                }
                Poll::Ready(Some(Err(_))) => {
                    trace.push('E');
                    break;
                }
                Poll::Ready(None) => {
                    trace.push('F');
                    break;
                }
            }
        }
    } else {
        'outer: for _ in 0..5_000 {
            let mut fut = Box::pin(stream.next_row_group());
            let mut spins = 0;
            loop {
                spins += 1;
                if spins > 50_000 {
                    trace.push('E');
                    break 'outer;
                }
                match fut.as_mut().poll(&mut cx) {
                    Poll::Pending => trace.push('P'),
                    Poll::Ready(Ok(Some(r))) => match r.collect::<Result<Vec<_>, _>>() {
                        Ok(v) => {
                            trace.push_str(&format!("R{}", v.len()));
                            out.extend(v);
                            break;
                        }
                        Err(_) => {
                            trace.push('E');
                            break 'outer;
                        }
                    },
                    Poll::Ready(Ok(None)) => {
                        trace.push('F');
                        break 'outer;
                    }
                    Poll::Ready(Err(_)) => {
                        trace.push('E');
                        break 'outer;
                    }
                }
            }
        }
    }
    Ok((trace, out))
}

// --------------------------------------------------------------------------------- run_case

const PB_MUL: usize = 31;
fn pattern(i: usize) -> u8 {
    ((i * PB_MUL + 7) % 251) as u8
}

fn run_pb(flen: u64, ops: &str) -> String {
    let mut pb = PushBuffers::new(flen);
    let mut out: Vec<String> = vec![];
    let slice = |r: &Range<u64>| -> Bytes { Bytes::from((r.start as usize..r.end as usize).map(pattern).collect::<Vec<u8>>()) };
    for op in ops.split(';') {
        if op == "-" || op.is_empty() {
            continue;
        }
        let (k, rest) = op.split_at(1);
        match k {
            "p" => {
                let rs = parse_ranges(rest);
                let ok = if rs.len() == 1 { pb.push_range(rs[0].clone(), slice(&rs[0])).is_ok() } else { pb.push_ranges(rs.clone(), rs.iter().map(&slice).collect()).is_ok() };
                out.push(if ok { "ok".into() } else { "err".into() });
            }
            "q" => {
                // one range with a buffer of the wrong length
                let (r, n) = rest.split_once(':').unwrap();
                let r = parse_ranges(r)[0].clone();
                let n: usize = n.parse().unwrap();
                let ok = pb.push_range(r.clone(), Bytes::from((0..n).map(|i| pattern(r.start as usize + i)).collect::<Vec<u8>>())).is_ok();
                out.push(if ok { "ok".into() } else { "err".into() });
            }
            "Q" => {
                // push_ranges where the k-th buffer (0-based) is one byte short / or a count mismatch (k = 99)
                let (r, n) = rest.split_once(':').unwrap();
                let rs = parse_ranges(r);
                let k: usize = n.parse().unwrap();
                let mut bufs: Vec<Bytes> = rs.iter().map(&slice).collect();
                if k == 99 {
                    bufs.pop();
                } else if k < bufs.len() {
                    let b = bufs[k].clone();
                    bufs[k] = if b.is_empty() { Bytes::from(vec![0u8]) } else { b.slice(..b.len() - 1) };
                }
                let ok = pb.push_ranges(rs, bufs).is_ok();
                out.push(if ok { "ok".into() } else { "err".into() });
            }
            "g" => {
                let (s, n) = rest.split_once(':').unwrap();
                let (s, n): (u64, usize) = (s.parse().unwrap(), n.parse().unwrap());
                out.push(match pb.get_bytes(s, n) {
                    Ok(b) => format!("ok:{}", hex(&b)),
                    Err(parquet::errors::ParquetError::NeedMoreDataRange(r)) => format!("need:{}-{}", r.start, r.end),
                    Err(_) => "ERR:other".into(),
                });
            }
            "r" => {
                // get_read(start) then successive reads
                let f: Vec<u64> = rest.split(':').map(|x| x.parse().unwrap()).collect();
                match pb.get_read(f[0]) {
                    Ok(mut rd) => {
                        let mut v = vec![];
                        for n in &f[1..] {
                            let mut buf = vec![0u8; *n as usize];
                            v.push(match rd.read(&mut buf) {
                                Ok(k) if k == buf.len() => hex(&buf),
                                Ok(_) => "short".into(),
                                Err(_) => "eof".into(),
                            });
                        }
                        out.push(format!("rd:{}", v.join("/")));
                    }
                    Err(_) => out.push("ERR:other".into()),
                }
            }
            "l" => out.push(format!("len:{}", pb.len())),
            _ => out.push("bad-op".into()),
        }
    }
    if out.is_empty() { "-".into() } else { out.join(",") }
}

struct CaseOut {
    answer: String,
    problems: Vec<String>,
    info: String,
}

fn run_rd(t: &[&str]) -> CaseOut {
    // C15 rd <file> <opts> <mode> <flen> <phases> <schedule>
    let f = file(t[2]);
    let o = parse_opts(t[3]);
    let mode = t[4].chars().next().unwrap();
    let sched = parse_sched(t[7]);
    let mut problems = vec![];
    let sync = run_sync(&f, &o);
    let init: Option<Vec<Range<u64>>> = match sched.first() {
        Some(Act::WithBuf(r)) => Some(r.clone()),
        _ => None,
    };
    let mut run = match PushRun::new_with(&f, &o, mode, init.as_deref()) {
        Ok(r) => r,
        Err(_) => {
            if sync.is_ok() {
                problems.push("push-build-failed-but-sync-ok".into());
            }
            return CaseOut { answer: "ERR:build".into(), problems, info: String::new() };
        }
    };
    let mut bad_push = false;
    for a in &sched {
        if run.errored {
            break;
        }
        let fin = run.finished;
        let n = run.events.len();
        run.act(a);
        if !fin && run.events[n..].iter().any(|e| e == "p0") {
            bad_push = true;
        }
    }
    problems.extend(run.problems.iter().cloned());
    if bad_push || run.events.iter().any(|e| e == "E" || e == "bE") {
        if sync.is_ok() {
            problems.push("push-error-but-sync-ok".into());
        }
    } else if run.events.iter().any(|e| e == "x1") {
        problems.push("short-buffer-accepted".into());
    } else if run.finished && !run.sabotaged {
        match &sync {
            Ok(s) => {
                if !same_rows(s, &run.out) {
                    problems.push(format!("rows-differ sync={} push={}", rows_of(s).0, rows_of(&run.out).0));
                }
            }
            Err(_) => problems.push("sync-error-but-push-ok".into()),
        }
    } else if let Ok(s) = &sync {
        // unfinished schedule: what was produced so far must be a prefix of the sync rows
        let n = rows_of(&run.out).0;
        let (sn, _) = rows_of(s);
        if n > sn || (n > 0 && !same_rows(&[arrow_select::concat::concat_batches(&s[0].schema(), s).unwrap().slice(0, n)], &run.out)) {
            problems.push("rows-not-a-prefix".into());
        }
    }
    let info = format!("needs:{} rows:{}", run.n_needs.min(9), rows_of(&run.out).0.min(1));
    // bytes still buffered at the end of the schedule (`clear_ranges` releases exactly the consumed requests)
    let bb = run.dec.as_ref().map(|d| d.buffered_bytes()).unwrap_or(0);
    CaseOut { answer: format!("{} bb={}", if run.events.is_empty() { "-".into() } else { run.events.join(",") }, bb), problems, info }
}

fn run_as(t: &[&str]) -> CaseOut {
    // C15 as <file> <opts> <mode> <vectored> <meta> <pend> <flen> <phases>
    let f = file(t[2]);
    let o = parse_opts(t[3]);
    let mode = t[4].chars().next().unwrap();
    let vectored = t[5] == "1";
    let fetch_meta = t[6] == "1";
    let pend: Vec<usize> = parse_list(t[7]);
    let io = Io {
        data: f.bytes.clone(),
        pend: Arc::new(Mutex::new(pend.into_iter().collect())),
        log: Arc::new(Mutex::new(vec![])),
        bad: Arc::new(Mutex::new(vec![])),
        in_meta: Arc::new(AtomicBool::new(false)),
        pidx: o.pidx,
    };
    let mut problems = vec![];
    let sync = run_sync(&f, &o);
    let r = if vectored { run_async(VecReader(io.clone()), &io, &f, &o, mode, fetch_meta) } else { run_async(SeqReader(io.clone()), &io, &f, &o, mode, fetch_meta) };
    problems.extend(io.bad.lock().unwrap().iter().cloned());
    match r {
        Err(_) => {
            if sync.is_ok() {
                problems.push("async-build-failed-but-sync-ok".into());
            }
            CaseOut { answer: "ERR:build".into(), problems, info: String::new() }
        }
        Ok((trace, out)) => {
            if trace.ends_with('F') {
                match &sync {
                    Ok(s) => {
                        if !same_rows(s, &out) {
                            problems.push(format!("rows-differ sync={} async={}", rows_of(s).0, rows_of(&out).0));
                        }
                    }
                    Err(_) => problems.push("sync-error-but-async-ok".into()),
                }
            } else if sync.is_ok() {
                problems.push("async-error-but-sync-ok".into());
            }
            let log = io.log.lock().unwrap().clone();
            let info = format!("pending:{} fetches:{}", trace.contains('P') as u8, log.len().min(9));
            CaseOut { answer: format!("{} {}", trace, show_ranges(&log)), problems, info }
        }
    }
}

/// OUT-OF-DOMAIN probe (never a violation; the model answers SKIP): drop the `next_row_group`
/// future while its fetch is pending, then keep reading.  C15 quantifies over futures that are
/// polled to completion; this records what happens when one is cancelled.
fn run_cn(t: &[&str]) -> CaseOut {
    // C15 cn <file> <opts> <drop at row group k>
    let f = file(t[2]);
    let o = parse_opts(t[3]);
    let k: usize = t[4].parse().unwrap();
    let io = Io {
        data: f.bytes.clone(),
        pend: Arc::new(Mutex::new(std::iter::repeat(2usize).take(10_000).collect())),
        log: Arc::new(Mutex::new(vec![])),
        bad: Arc::new(Mutex::new(vec![])),
        in_meta: Arc::new(AtomicBool::new(false)),
        pidx: o.pidx,
    };
    let sync_rows = run_sync(&f, &o).map(|s| rows_of(&s).0 as i64).unwrap_or(-1);
    let meta = if o.pidx { f.meta_idx.clone() } else { f.meta_noidx.clone() };
    let arm = match ArrowReaderMetadata::try_new(meta, reader_options(&o)) {
        Ok(a) => a,
        Err(_) => return CaseOut { answer: "ERR:build".into(), problems: vec![], info: String::new() },
    };
    let mut stream = match apply(ParquetRecordBatchStreamBuilder::new_with_metadata(SeqReader(io.clone()), arm), &o).build() {
        Ok(s) => s,
        Err(_) => return CaseOut { answer: "ERR:build".into(), problems: vec![], info: String::new() },
    };
    let w = futures::task::noop_waker();
    let mut cx = Context::from_waker(&w);
    let mut rows = 0usize;
    let mut dropped = false;
    let mut trace = String::new();
    for i in 0..5_000 {
        let mut fut = Box::pin(stream.next_row_group());
        let mut polls = 0;
        let done = loop {
            polls += 1;
            match fut.as_mut().poll(&mut cx) {
                Poll::Pending => {
                    if i == k && !dropped {
                        dropped = true;
                        trace.push('X'); // cancel: drop the pending future
                        break false;
                    }
                    if polls > 50_000 {
                        break true;
                    }
                }
                Poll::Ready(Ok(Some(r))) => {
                    rows += r.map(|b| b.map(|b| b.num_rows()).unwrap_or(0)).sum::<usize>();
                    trace.push('R');
                    break false;
                }
                Poll::Ready(Ok(None)) => {
                    trace.push('F');
                    break true;
                }
                Poll::Ready(Err(_)) => {
                    trace.push('E');
                    break true;
                }
            }
        };
        if done {
            break;
        }
    }
    let verdict = if !dropped { "not-cancelled" } else if rows as i64 == sync_rows { "complete" } else { "truncated-silently" };
    CaseOut { answer: format!("{} rows={}/{} {}", trace, rows, sync_rows, verdict), problems: vec![], info: format!("probe:{}", verdict) }
}

// ------------------------------------------------------------------ metadata push decoder

fn md_policy(d: ParquetMetaDataPushDecoder, p: usize) -> ParquetMetaDataPushDecoder {
    match p {
        0 => d.with_page_index_policy(PageIndexPolicy::Skip),
        1 => d.with_page_index_policy(PageIndexPolicy::Optional),
        2 => d.with_page_index_policy(PageIndexPolicy::Required),
        3 => d.with_column_index_policy(PageIndexPolicy::Skip).with_offset_index_policy(PageIndexPolicy::Required),
        _ => d.with_column_index_policy(PageIndexPolicy::Optional).with_offset_index_policy(PageIndexPolicy::Skip),
    }
}
fn md_sync(f: &FileInfo, p: usize) -> Result<ParquetMetaData, String> {
    let r = ParquetMetaDataReader::new();
    let r = match p {
        0 => r.with_page_index_policy(PageIndexPolicy::Skip),
        1 => r.with_page_index_policy(PageIndexPolicy::Optional),
        2 => r.with_page_index_policy(PageIndexPolicy::Required),
        3 => r.with_column_index_policy(PageIndexPolicy::Skip).with_offset_index_policy(PageIndexPolicy::Required),
        _ => r.with_column_index_policy(PageIndexPolicy::Optional).with_offset_index_policy(PageIndexPolicy::Skip),
    };
    r.parse_and_finish(&f.bytes).map_err(|e| e.to_string())
}

/// the metadata push decoder under a schedule: events, decoded metadata, problems
struct MetaRun<'a> {
    f: &'a FileInfo,
    dec: ParquetMetaDataPushDecoder,
    events: Vec<String>,
    got: Option<ParquetMetaData>,
    done: bool,
    problems: Vec<String>,
    last_need: Option<(Vec<Range<u64>>, bool)>,
}
impl<'a> MetaRun<'a> {
    fn new(f: &'a FileInfo, p: usize) -> Result<Self, String> {
        let d = ParquetMetaDataPushDecoder::try_new(f.bytes.len() as u64).map_err(|e| e.to_string())?;
        Ok(MetaRun { f, dec: md_policy(d, p), events: vec![], got: None, done: false, problems: vec![], last_need: None })
    }
    fn poll(&mut self) -> Option<Vec<Range<u64>>> {
        let flen = self.f.bytes.len() as u64;
        match self.dec.try_decode() {
            Ok(DecodeResult::NeedsData(rs)) => {
                for r in &rs {
                    if !(r.start < r.end && r.end <= flen) {
                        self.problems.push(format!("range-outside-file:{}-{}", r.start, r.end));
                    }
                }
                if let Some((prev, true)) = &self.last_need {
                    if *prev == rs {
                        self.problems.push(format!("no-progress:{}", show_ranges(&rs)));
                    }
                }
                self.last_need = Some((rs.clone(), false));
                self.events.push(format!("N{}", show_ranges(&rs)));
                Some(rs)
            }
            Ok(DecodeResult::Data(m)) => {
                self.got = Some(m);
                self.events.push("D".into());
                None
            }
            Ok(DecodeResult::Finished) => {
                self.done = true;
                self.events.push("F".into());
                None
            }
            Err(_) => {
                self.done = true;
                self.events.push("E".into());
                None
            }
        }
    }
    fn act(&mut self, a: &Act) {
        match a {
            Act::Push(rs) => {
                let data: Vec<Bytes> = rs.iter().map(|r| bytes_for(self.f, r)).collect();
                let r = if rs.len() == 1 { self.dec.push_range(rs[0].clone(), data[0].clone()) } else { self.dec.push_ranges(rs.clone(), data) };
                if r.is_err() {
                    self.events.push("p0".into());
                }
                if let Some((need, cov)) = &mut self.last_need {
                    if need.iter().all(|n| rs.iter().any(|r| r.start <= n.start && r.end >= n.end)) {
                        *cov = true;
                    }
                }
            }
            Act::Clear => {
                self.dec.clear_all_ranges();
                if let Some((_, cov)) = &mut self.last_need {
                    *cov = false;
                }
            }
            _ => {
                self.poll();
            }
        }
    }
}

fn run_md(t: &[&str]) -> CaseOut {
    // C15 md <file> <policy> <flen> <phases> <schedule>
    let f = file(t[2]);
    let p: usize = t[3].parse().unwrap();
    let sched = parse_sched(t[6]);
    let mut problems = vec![];
    let mut run = match MetaRun::new(&f, p) {
        Ok(r) => r,
        Err(_) => return CaseOut { answer: "ERR:build".into(), problems, info: String::new() },
    };
    let mut after_finished = false;
    for a in &sched {
        if run.done {
            after_finished = true;
        }
        run.act(a);
    }
    problems.extend(run.problems.iter().cloned());
    let sync = md_sync(&f, p);
    if run.events.iter().any(|e| e == "E") {
        if sync.is_ok() {
            problems.push("metadata-push-error-but-sync-ok".into());
        }
    } else if let Some(m) = &run.got {
        match &sync {
            Ok(s) => {
                if s != m {
                    problems.push("metadata-differs".into());
                }
            }
            Err(_) => problems.push("metadata-sync-error-but-push-ok".into()),
        }
    }
    CaseOut { answer: if run.events.is_empty() { "-".into() } else { run.events.join(",") }, problems, info: format!("mdpol:{}{}", p, if after_finished { " kf:md-after-finished" } else { "" }) }
}

/// ORACLE-ONLY op (the model answers SKIP): `into_builder` at row-group boundaries with CHANGED
/// options that must not change the rows (batch size, selection policy, predicate cache size, the
/// same predicates re-installed), under exact delivery; rows must equal the synchronous reader's.
fn run_rb(t: &[&str]) -> CaseOut {
    // C15 rb <file> <opts> <mode> <schedule>
    let f = file(t[2]);
    let o = parse_opts(t[3]);
    let mode = t[4].chars().next().unwrap();
    let sched = parse_sched(t[5]);
    let mut problems = vec![];
    let sync = run_sync(&f, &o);
    let mut run = match PushRun::new(&f, &o, mode) {
        Ok(r) => r,
        Err(_) => return CaseOut { answer: "ERR:build".into(), problems, info: String::new() },
    };
    for a in &sched {
        if run.errored {
            break;
        }
        run.act(a);
    }
    problems.extend(run.problems.iter().cloned());
    if run.errored {
        if sync.is_ok() {
            problems.push("push-error-but-sync-ok".into());
        }
    } else if run.finished {
        match &sync {
            Ok(s) => {
                if !same_rows(s, &run.out) {
                    problems.push(format!("rows-differ-after-reconfigure sync={} push={}", rows_of(s).0, rows_of(&run.out).0));
                }
            }
            Err(_) => problems.push("sync-error-but-push-ok".into()),
        }
    }
    let nb = run.events.iter().filter(|e| *e == "b1").count();
    CaseOut { answer: format!("rows={} rebuilt={}", rows_of(&run.out).0, nb), problems, info: format!("rebuilt:{}", nb.min(5)) }
}

fn run_case_full(line: &str) -> CaseOut {
    let t: Vec<&str> = line.split(' ').collect();
    assert_eq!(t[0], "C15");
    match t[1] {
        "pb" => CaseOut { answer: run_pb(t[2].parse().unwrap(), t[3]), problems: vec![], info: String::new() },
        "rd" => run_rd(&t),
        "as" => run_as(&t),
        "cn" => run_cn(&t),
        "md" => run_md(&t),
        "rb" => run_rb(&t),
        _ => CaseOut { answer: "bad-op".into(), problems: vec![], info: String::new() },
    }
}

fn run_case(line: &str) -> (String, Vec<String>, String) {
    let l = line.to_string();
    let r = std::panic::catch_unwind(std::panic::AssertUnwindSafe(|| run_case_full(&l)));
    match r {
        Ok(c) => (c.answer, c.problems, c.info),
        Err(_) => ("PANIC".into(), vec!["panic".into()], String::new()),
    }
}

// ---------------------------------------------------------------------------------- gen side

fn gen_file_spec(rng: &mut Rng, pool: u64) -> String {
    // a small pool of files per run (building a file is the expensive part)
    let id = rng.below(pool);
    let mut r = Rng::new(id.wrapping_mul(0x9E37) ^ 0xC15F);
    let nrows = *r.pick(&[0usize, 1, 17, 17, 40, 40, 64, 64, 64, 90, 90, 90, 120, 120, 120, 150, 150, 150, 33, 100]);
    let rg = *r.pick(&[5usize, 16, 20, 33, 50, 200]);
    let page = *r.pick(&[1usize, 3, 4, 7, 10, 1000]);
    let dict = r.usize(2);
    let bloom = *r.pick(&[0usize, 0, 1, 2]);
    format!("{}.{}.{}.{}.{}.{}", id, nrows, rg, page, dict, bloom)
}

fn gen_opts(rng: &mut Rng, f: &FileInfo) -> Opts {
    let mut o = Opts { bs: *rng.pick(&[1usize, 2, 3, 5, 8, 16, 50, 1024]), pol: *rng.pick(&['a', 'a', 'm', 's']), ..Default::default() };
    o.pidx = rng.chance(3, 5);
    o.cache = if rng.chance(2, 5) { Some(*rng.pick(&[0usize, 0, 1, 64, 300, 1000, 5000])) } else { None };
    if rng.chance(3, 5) {
        let all = ["a", "b", "c", "d", "ab", "ad", "bc", "cd", "abd", "acd", "abcd", "da", "0"];
        o.proj = Some(rng.pick(&all).to_string());
    }
    let nrg = f.rg_rows.len();
    let mut rows_in_scope: usize = f.nrows;
    if rng.chance(2, 5) {
        let mut g: Vec<usize> = (0..nrg).filter(|_| rng.chance(2, 3)).collect();
        if rng.chance(1, 4) {
            g.reverse();
        }
        rows_in_scope = g.iter().map(|i| f.rg_rows[*i]).sum();
        o.rgs = Some(g);
    }
    if rng.chance(1, 2) {
        // selectors covering at most the rows in scope; runs biased to page / row group sizes
        let mut v = vec![];
        let mut left = rows_in_scope;
        let mut keep = rng.bool();
        while left > 0 && v.len() < 12 {
            let n = match rng.below(4) {
                0 => 1 + rng.usize(3),
                1 => 1 + rng.usize(12),
                2 => 1 + rng.usize(60),
                _ => left,
            }
            .min(left);
            v.push((keep, n));
            left -= n;
            keep = !keep;
            if rng.chance(1, 6) {
                break;
            }
        }
        if !v.iter().any(|(k, n)| *k && *n > 0) && !v.is_empty() && rng.chance(5, 6) {
            v[0].0 = true; // mostly select something
            if v.len() > 1 {
                v[1].0 = false;
            }
        }
        if rng.chance(1, 10) {
            v.push((rng.bool(), 0));
        }
        o.sel = Some(v);
    }
    if rng.chance(1, 2) {
        let n = 1 + rng.usize(3);
        for _ in 0..n {
            let c = *rng.pick(&['a', 'a', 'b', 'c', 'd', 'd']);
            let m = *rng.pick(&[1i64, 2, 2, 3, 5, 7, 1000]);
            let r = rng.below(m.min(4) as u64) as i64;
            o.filt.push((c, m, r));
        }
    }
    if o.filt.is_empty() && rng.chance(1, 8) {
        o.empty_filter = true;
    }
    if rng.chance(1, 3) {
        o.off = Some(*rng.pick(&[0usize, 1, 3, 10, 25, 60, 500]));
    }
    if rng.chance(2, 5) {
        o.lim = Some(*rng.pick(&[0usize, 1, 2, 7, 20, 45, 100, 500]));
    }
    o
}

fn widen(rng: &mut Rng, r: &Range<u64>, flen: u64) -> Range<u64> {
    let lo = r.start - rng.below(r.start.min(40) + 1);
    let hi = (r.end + rng.below(40)).min(flen);
    lo..hi
}
fn random_range(rng: &mut Rng, flen: u64) -> Range<u64> {
    let a = rng.below(flen + 1);
    let b = (a + rng.below(200)).min(flen);
    a..b
}
fn shuffle<T>(rng: &mut Rng, v: &mut Vec<T>) {
    for i in (1..v.len()).rev() {
        v.swap(i, rng.usize(i + 1));
    }
}

/// drive the real decoder adaptively with an adversarial strategy and record what was done
fn gen_schedule(rng: &mut Rng, f: &FileInfo, o: &Opts, mode: char, strat: &str) -> Option<Vec<Act>> {
    let flen = f.bytes.len() as u64;
    let mut acts: Vec<Act> = vec![];
    let mut run = if strat == "withbuf" {
        // bytes handed over through the builder: some whole column chunks, some random ranges, maybe the file
        let mut v: Vec<Range<u64>> = (0..rng.usize(3)).map(|_| random_range(rng, flen)).collect();
        for rg in f.meta_idx.row_groups() {
            for c in rg.columns() {
                if rng.chance(1, 2) {
                    let (s, l) = c.byte_range();
                    v.push(s..s + l);
                }
            }
        }
        if rng.chance(1, 5) {
            v.push(0..flen);
        }
        shuffle(rng, &mut v);
        acts.push(Act::WithBuf(v.clone()));
        PushRun::new_with(f, o, mode, Some(&v)).ok()?
    } else {
        PushRun::new(f, o, mode).ok()?
    };
    let mut clears = 0;
    let short_at = if strat == "short" { 1 + rng.usize(4) } else { usize::MAX };
    fn doit_(acts: &mut Vec<Act>, run: &mut PushRun, a: Act) -> Ev {
        let ev = match &a {
            Act::Poll => run.poll(),
            Act::PollOther => run.poll_mode(if run.mode == 'd' { 'n' } else { 'd' }),
            other => {
                run.act(other);
                Ev::Finished
            }
        };
        acts.push(a);
        ev
    }
    macro_rules! doit {
        ($run:expr, $a:expr) => {
            doit_(&mut acts, $run, $a)
        };
    }
    if strat == "whole" {
        doit!(&mut run, Act::Push(vec![0..flen]));
    }
    if strat == "prefetch" {
        // some random ranges and some whole column chunks before the first call
        let mut v: Vec<Range<u64>> = (0..rng.usize(4)).map(|_| random_range(rng, flen)).collect();
        for rg in f.meta_idx.row_groups() {
            for c in rg.columns() {
                if rng.chance(1, 3) {
                    let (s, l) = c.byte_range();
                    v.push(s..s + l);
                }
            }
        }
        shuffle(rng, &mut v);
        doit!(&mut run, Act::Push(v));
    }
    let cut = if rng.chance(1, 12) { 1 + rng.usize(6) } else { usize::MAX };
    let mut polls = 0;
    while !run.finished && acts.len() < 600 {
        if mode == 'n' && rng.chance(1, 4) || rng.chance(1, 30) {
            doit!(&mut run, Act::Rebuild);
            if run.finished {
                break;
            }
        }
        polls += 1;
        if polls > cut {
            break;
        }
        if polls == short_at {
            // a truncated read: rejected, and the decoder is dead afterwards (answers Finished)
            let r = random_range(rng, flen);
            if r.end > r.start {
                doit!(&mut run, Act::Short(r));
                doit!(&mut run, Act::Poll);
                doit!(&mut run, Act::Push(vec![0..flen]));
                doit!(&mut run, Act::Poll);
                break;
            }
        }
        let ev = if rng.chance(1, 12) { doit!(&mut run, Act::PollOther) } else { doit!(&mut run, Act::Poll) };
        if let Ev::Needs(ms) = ev {
            let s = if strat == "mixed" { *rng.pick(&["exact", "dup", "widen", "extra", "one", "each", "repoll", "clear", "split"]) } else if strat == "withbuf" || strat == "short" { "exact" } else { strat };
            match s {
                "dup" => {
                    let mut v = ms.clone();
                    v.extend(ms.iter().cloned());
                    shuffle(rng, &mut v);
                    doit!(&mut run, Act::Push(v));
                }
                "widen" => {
                    let mut v: Vec<_> = ms.iter().map(|r| widen(rng, r, flen)).collect();
                    shuffle(rng, &mut v);
                    doit!(&mut run, Act::Push(v));
                }
                "extra" => {
                    let mut v = ms.clone();
                    for _ in 0..1 + rng.usize(3) {
                        v.push(random_range(rng, flen));
                    }
                    shuffle(rng, &mut v);
                    doit!(&mut run, Act::Push(v));
                }
                "one" => {
                    // a single one of the requested ranges, then ask again
                    let r = ms[rng.usize(ms.len())].clone();
                    doit!(&mut run, Act::Push(vec![r]));
                }
                "each" => {
                    // every range in its own push call, random order
                    let mut v = ms.clone();
                    shuffle(rng, &mut v);
                    for r in v {
                        doit!(&mut run, Act::Push(vec![r]));
                    }
                }
                "repoll" => {
                    // ask again without supplying anything, then supply
                    doit!(&mut run, Act::Poll);
                    doit!(&mut run, Act::Push(ms.clone()));
                }
                "clear" if clears < 2 => {
                    clears += 1;
                    doit!(&mut run, Act::Push(ms.clone()));
                    doit!(&mut run, Act::Clear);
                }
                "split" => {
                    // the two halves of a requested range together hold all its bytes, but no ONE
                    // buffer contains it: the request must stay open (non-coalescing), also for
                    // off-by-one neighbours
                    let r = ms[rng.usize(ms.len())].clone();
                    if r.end - r.start >= 2 {
                        let mid = r.start + 1 + rng.below(r.end - r.start - 1);
                        doit!(&mut run, Act::Push(vec![r.start..mid, mid..r.end]));
                        doit!(&mut run, Act::Poll);
                        doit!(&mut run, Act::Push(vec![r.start.saturating_sub(1)..r.end - 1, r.start + 1..(r.end + 1).min(flen)]));
                        doit!(&mut run, Act::Poll);
                    }
                    // then widened by exactly one byte on each side
                    let v: Vec<_> = ms.iter().map(|r| r.start.saturating_sub(1)..(r.end + 1).min(flen)).collect();
                    doit!(&mut run, Act::Push(v));
                }
                "sub" => {
                    // a strict sub-range of a requested range does not satisfy it
                    let r = ms[0].clone();
                    if r.end - r.start >= 2 {
                        doit!(&mut run, Act::Push(vec![r.start + 1..r.end]));
                        doit!(&mut run, Act::Push(vec![r.start..r.end - 1]));
                        doit!(&mut run, Act::Poll);
                    }
                    doit!(&mut run, Act::Push(ms.clone()));
                }
                _ => {
                    let mut v = ms.clone();
                    shuffle(rng, &mut v);
                    doit!(&mut run, Act::Push(v));
                }
            }
        } else if mode == 'd' && rng.chance(1, 10) {
            // data arriving while a row group is being decoded
            let v = vec![random_range(rng, flen)];
            doit!(&mut run, Act::Push(v));
        }
    }
    if run.finished && rng.chance(1, 4) {
        // a finished decoder keeps answering Finished, refuses data, is not at a boundary
        for _ in 0..1 + rng.usize(3) {
            acts.push(match rng.below(4) {
                0 => Act::Push(vec![random_range(rng, flen)]),
                1 => Act::Rebuild,
                _ => Act::Poll,
            });
        }
    }
    Some(acts)
}

fn gen_pb(rng: &mut Rng) -> (String, String) {
    let flen = *rng.pick(&[0u64, 1, 8, 40, 100, 300]);
    let mut ops = vec![];
    let mut pushed: Vec<Range<u64>> = vec![];
    let rr = |rng: &mut Rng| -> Range<u64> {
        let a = rng.below(flen + 1);
        let b = (a + rng.below(30)).min(flen);
        a..b
    };
    let n = rng.usize(10);
    let mut has_push = false;
    let mut has_get = false;
    for _ in 0..n {
        match rng.below(10) {
            0 | 1 | 2 => {
                let k = 1 + rng.usize(3);
                let rs: Vec<_> = (0..k).map(|_| rr(rng)).collect();
                pushed.extend(rs.iter().cloned());
                ops.push(format!("p{}", show_ranges(&rs)));
                has_push = true;
            }
            3 => {
                let r = rr(rng);
                let len = (r.end - r.start) as usize;
                let n = if rng.bool() { len + 1 } else { len.saturating_sub(1) };
                if n == len {
                    pushed.push(r.clone());
                }
                ops.push(format!("q{}:{}", show_ranges(&[r]), n));
            }
            4 => {
                let k = 2 + rng.usize(2);
                let rs: Vec<_> = (0..k).map(|_| rr(rng)).collect();
                let bad = if rng.chance(1, 3) { 99 } else { rng.usize(k) };
                ops.push(format!("Q{}:{}", show_ranges(&rs), bad));
            }
            5 | 6 | 7 => {
                // a get related to something pushed: exact, inner, overhanging, spanning two
                has_get = true;
                if !pushed.is_empty() && rng.chance(4, 5) {
                    let p = pushed[rng.usize(pushed.len())].clone();
                    let (s, e) = match rng.below(5) {
                        0 => (p.start, p.end),
                        1 => {
                            let s = p.start + rng.below(p.end - p.start + 1);
                            (s, s + rng.below(p.end - s + 1))
                        }
                        2 => (p.start, p.end + 1),
                        3 => (p.start.saturating_sub(1), p.end),
                        _ => {
                            let q = pushed[rng.usize(pushed.len())].clone();
                            (p.start.min(q.start), p.end.max(q.end))
                        }
                    };
                    ops.push(format!("g{}:{}", s, e.saturating_sub(s)));
                } else {
                    let r = rr(rng);
                    ops.push(format!("g{}:{}", r.start, r.end - r.start));
                }
            }
            8 => {
                has_get = true;
                let start = if !pushed.is_empty() && rng.chance(3, 4) { pushed[rng.usize(pushed.len())].start } else { rng.below(flen + 1) };
                let k = 1 + rng.usize(3);
                let ns: Vec<String> = (0..k).map(|_| rng.below(12).to_string()).collect();
                ops.push(format!("r{}:{}", start, ns.join(":")));
            }
            _ => ops.push("l".into()),
        }
    }
    let line = format!("C15 pb {} {}", flen, if ops.is_empty() { "-".into() } else { ops.join(";") });
    (line, format!("op:pb {}", if has_push && has_get && ops.len() >= 3 { "nt" } else { "" }))
}

fn gen_md(rng: &mut Rng, spec: &str, pol: usize, strat: &str) -> Option<(String, String)> {
    let f = file(spec);
    let flen = f.bytes.len() as u64;
    // phases from an exact-delivery run
    let mut ex = MetaRun::new(&f, pol).ok()?;
    let mut phases: Vec<(Vec<Range<u64>>, Option<usize>)> = vec![];
    for _ in 0..20 {
        match ex.poll() {
            Some(rs) => {
                phases.push((rs.clone(), None));
                ex.act(&Act::Push(rs));
            }
            None => {
                if ex.events.last().map(|e| e == "D").unwrap_or(false) {
                    match phases.last_mut() {
                        Some(p) if p.1.is_none() => p.1 = Some(1),
                        _ => phases.push((vec![], Some(1))),
                    }
                }
                break;
            }
        }
    }
    let ph = if phases.is_empty() { "-".to_string() } else { phases.iter().map(|(r, k)| format!("{}/{}", show_ranges(r), k.map(|k| k.to_string()).unwrap_or("x".into()))).collect::<Vec<_>>().join(";") };
    // adversarial schedule, recorded
    let mut run = MetaRun::new(&f, pol).ok()?;
    let mut acts: Vec<Act> = vec![];
    let mut go = |run: &mut MetaRun, a: Act| -> Option<Vec<Range<u64>>> {
        let r = if let Act::Poll = a { run.poll() } else { run.act(&a); None };
        acts.push(a);
        r
    };
    if strat == "whole" || strat == "afterfin" {
        go(&mut run, Act::Push(vec![0..flen]));
    }
    if strat == "tail" {
        // the usual prefetch: the last k bytes of the file
        let k = *rng.pick(&[8u64, 9, 64, 500, 4000]);
        go(&mut run, Act::Push(vec![flen.saturating_sub(k)..flen]));
    }
    let mut n = 0;
    while !run.done && n < 40 {
        n += 1;
        if let Some(ms) = go(&mut run, Act::Poll) {
            let r = ms[0].clone();
            match if strat == "mixed" { *rng.pick(&["exact", "widen", "split", "repoll", "clear", "dup"]) } else { strat } {
                "widen" => {
                    go(&mut run, Act::Push(vec![widen(rng, &r, flen)]));
                }
                "split" => {
                    if r.end - r.start >= 2 {
                        let mid = r.start + 1 + rng.below(r.end - r.start - 1);
                        go(&mut run, Act::Push(vec![r.start..mid, mid..r.end]));
                        go(&mut run, Act::Poll);
                    }
                    go(&mut run, Act::Push(vec![r.start.saturating_sub(1)..r.end]));
                }
                "repoll" => {
                    go(&mut run, Act::Poll);
                    go(&mut run, Act::Push(vec![r]));
                }
                "clear" => {
                    go(&mut run, Act::Push(vec![r.clone()]));
                    go(&mut run, Act::Clear);
                    go(&mut run, Act::Poll);
                    go(&mut run, Act::Push(vec![r]));
                }
                "dup" => {
                    go(&mut run, Act::Push(vec![r.clone(), random_range(rng, flen), r]));
                }
                _ => {
                    go(&mut run, Act::Push(vec![r]));
                }
            }
        } else if run.got.is_some() && !run.done && rng.chance(1, 3) {
            // after Data the decoder is finished: pushes are refused
            go(&mut run, Act::Push(vec![random_range(rng, flen)]));
        }
    }
    if run.done && strat == "afterfin" {
        // regression witness (fixed in ecea04a): call, push, call, call after the first `Finished`
        go(&mut run, Act::Push(vec![flen / 2..flen / 2 + 28]));
        go(&mut run, Act::Poll);
        go(&mut run, Act::Poll);
    } else if run.done && rng.chance(1, 8) {
        // calls after the first `Finished` (tagged kf:md-after-finished by run_md)
        for _ in 0..1 + rng.usize(3) {
            if rng.bool() { go(&mut run, Act::Poll); } else { go(&mut run, Act::Push(vec![random_range(rng, flen)])); }
        }
    }
    let line = format!("C15 md {} {} {} {} {}", spec, pol, flen, ph, show_sched(&acts));
    Some((line, format!("op:md strat:{} {}", strat, if phases.len() >= 2 && strat != "exact" { "nt" } else { "" })))
}

fn gen_rb(rng: &mut Rng, spec: &str, o: &Opts, mode: char) -> Option<(String, String)> {
    let f = file(spec);
    let mut run = PushRun::new(&f, o, mode).ok()?;
    let mut acts: Vec<Act> = vec![];
    let mut n = 0;
    while !run.finished && n < 400 {
        n += 1;
        if run.dec.as_ref().unwrap().is_at_row_group_boundary() && rng.chance(2, 3) {
            let a = Act::Change(
                *rng.pick(&[1usize, 2, 3, 7, 16, 1024]),
                *rng.pick(&['a', 'm', 's']),
                if rng.bool() { Some(*rng.pick(&[0usize, 1, 64, 1000])) } else { None },
            );
            run.act(&a);
            acts.push(a);
            if run.errored {
                break;
            }
        }
        let ev = run.poll();
        acts.push(Act::Poll);
        if let Ev::Needs(ms) = ev {
            run.push(&ms);
            acts.push(Act::Push(ms));
        }
    }
    let line = format!("C15 rb {} {} {} {}", spec, show_opts(o), mode, show_sched(&acts));
    Some((line, format!("op:rb mode:{} filt:{} oracle-only", mode, o.filt.len())))
}

/// the options of a boundary block: selections / offsets / limits / batch sizes sitting exactly on
/// row-group and page boundaries of the file
fn boundary_opts(f: &FileInfo, page: usize) -> Vec<Opts> {
    let base = Opts { bs: 1024, pol: 'a', ..Default::default() };
    let mut v = vec![base.clone()];
    let n = f.nrows;
    if n == 0 {
        return v;
    }
    let rg = f.rg_rows[0];
    let sel = |s: Vec<(bool, usize)>| Opts { sel: Some(s), ..base.clone() };
    // exactly the first row group skipped / only the second / only the last row / only the first row
    v.push(sel(vec![(false, rg.min(n)), (true, n - rg.min(n))]));
    if n > rg {
        v.push(sel(vec![(false, rg), (true, rg.min(n - rg))]));
        // the two rows straddling the first row-group boundary; the single row before / after it
        v.push(sel(vec![(false, rg - 1), (true, 2)]));
        v.push(sel(vec![(false, rg - 1), (true, 1)]));
        v.push(sel(vec![(false, rg), (true, 1)]));
    }
    v.push(sel(vec![(false, n - 1), (true, 1)]));
    v.push(sel(vec![(true, 1), (false, n - 1)]));
    if page < n {
        // exactly one page, the row before a page boundary, the row after it
        v.push(sel(vec![(false, page), (true, page.min(n - page))]));
        v.push(sel(vec![(false, page - 1), (true, 1), (false, 0), (true, 1)]));
        // one row out of every page
        let mut s = vec![];
        let mut left = n;
        while left > 0 && s.len() < 60 {
            s.push((true, 1));
            let k = (page - 1).min(left - 1);
            if k > 0 {
                s.push((false, k));
            }
            left -= 1 + k;
        }
        v.push(sel(s));
    }
    for (off, lim) in [(rg - 1, 2), (rg, 1), (rg, rg), (rg + 1, rg - 1), (0, rg), (0, rg + 1), (n - 1, 5), (n, 5), (rg.saturating_sub(1), 1), (2 * rg, 1), (0, n)] {
        v.push(Opts { off: Some(off), lim: Some(lim), ..base.clone() });
    }
    for bs in [page, page + 1, rg, rg + 1, rg.saturating_sub(1).max(1)] {
        v.push(Opts { bs, sel: Some(vec![(false, 1), (true, n - 1)]), ..base.clone() });
    }
    v
}

/// a fixed, deterministic block of boundary cases generated in every run
fn dense_block(rng: &mut Rng, thorough: bool) -> Vec<(String, String)> {
    let mut out = vec![];
    let specs = ["201.120.20.7.1.0", "202.64.16.4.0.1", "203.90.33.1000.1.2", "204.150.50.10.0.0", "205.17.20.3.1.1"];
    for spec in specs.iter() {
        let f = file(spec);
        let page: usize = spec.split('.').nth(3).unwrap().parse().unwrap();
        // metadata decoder: every policy x every strategy
        for pol in 0..5 {
            for strat in ["exact", "whole", "tail", "widen", "split", "repoll", "clear", "dup", "mixed", "afterfin"] {
                if let Some((l, t)) = gen_md(rng, spec, pol, strat) {
                    out.push((l, format!("{} dense{}", t, if strat == "afterfin" { " regress:md-after-finished" } else { "" })));
                }
            }
        }
        let flen = f.bytes.len();
        for (i, base) in boundary_opts(&f, page).into_iter().enumerate() {
            for variant in 0..4 {
                let mut o = base.clone();
                o.pidx = variant % 2 == 0;
                if variant >= 2 {
                    o.filt = vec![('a', 2, 1)];
                    o.pol = if i % 2 == 0 { 'm' } else { 's' };
                    o.cache = [None, Some(0), Some(64)][i % 3];
                }
                let Ok(phases) = discover_phases(&f, &o) else { continue };
                let strats: &[&str] = if thorough { &["exact", "split", "one", "withbuf", "widen", "each"] } else { &["split", "one", "withbuf"] };
                let strat = strats[(i + variant) % strats.len()];
                let mode = if (i + variant) % 2 == 0 { 'd' } else { 'n' };
                if let Some(sched) = gen_schedule(rng, &f, &o, mode, strat) {
                    out.push((
                        format!("C15 rd {} {} {} {} {} {}", spec, show_opts(&o), mode, flen, phases, show_sched(&sched)),
                        format!("op:rd dense strat:{} mode:{} bnd:{} nt", strat, mode, i.min(30)),
                    ));
                }
                if variant % 2 == 1 {
                    let pend = [1usize, 0, 2, 1, 0, 3];
                    out.push((
                        format!("C15 as {} {} {} {} {} {} {} {}", spec, show_opts(&o), mode, i % 2, (i / 2) % 2, show_list(&pend), flen, phases),
                        format!("op:as dense mode:{} bnd:{} nt", mode, i.min(30)),
                    ));
                    if let Some(c) = gen_rb(rng, spec, &o, 'n') {
                        out.push((c.0, format!("{} dense", c.1)));
                    }
                }
            }
        }
    }
    out
}

fn gen_case(rng: &mut Rng, pool: u64) -> Option<(String, String)> {
    let k = rng.below(10);
    if k < 2 {
        return Some(gen_pb(rng));
    }
    if rng.chance(1, 12) {
        let spec = gen_file_spec(rng, pool);
        let strat = *rng.pick(&["exact", "whole", "tail", "widen", "split", "repoll", "clear", "dup", "mixed", "mixed"]);
        let pol = rng.usize(5);
        return gen_md(rng, &spec, pol, strat);
    }
    if rng.chance(1, 12) {
        let spec = gen_file_spec(rng, pool);
        let f = file(&spec);
        let o = gen_opts(rng, &f);
        let m = if rng.chance(1, 4) { 'd' } else { 'n' };
        return gen_rb(rng, &spec, &o, m);
    }
    if rng.chance(1, 100) {
        // out-of-domain probe, see `run_cn`
        let spec = gen_file_spec(rng, pool);
        let f = file(&spec);
        let o = gen_opts(rng, &f);
        return Some((format!("C15 cn {} {} {}", spec, show_opts(&o), rng.usize(3)), "op:cn out-of-domain".into()));
    }
    let spec = gen_file_spec(rng, pool);
    let f = file(&spec);
    let o = gen_opts(rng, &f);
    let mode = if rng.bool() { 'd' } else { 'n' };
    let phases = discover_phases(&f, &o).ok()?;
    let nph = if phases == "-" { 0 } else { phases.split(';').count() };
    let flen = f.bytes.len();
    let mut tags = format!(
        "mode:{} phases:{} filt:{} sel:{} pidx:{} rgs:{} offlim:{} pol:{} proj:{}",
        mode,
        nph.min(9),
        o.filt.len(),
        o.sel.is_some() as u8,
        o.pidx as u8,
        o.rgs.is_some() as u8,
        (o.off.is_some() as u8) * 2 + o.lim.is_some() as u8,
        o.pol,
        o.proj.is_some() as u8
    );
    if k < 8 {
        let strat = *rng.pick(&["exact", "dup", "widen", "extra", "whole", "one", "each", "mixed", "mixed", "prefetch", "sub", "repoll", "split", "split", "withbuf", "withbuf", "short"]);
        let sched = gen_schedule(rng, &f, &o, mode, strat)?;
        let line = format!("C15 rd {} {} {} {} {} {}", spec, show_opts(&o), mode, flen, phases, show_sched(&sched));
        tags = format!("op:rd strat:{} {} {}", strat, tags, if nph >= 2 && strat != "exact" { "nt" } else { "" });
        Some((line, tags))
    } else {
        let vectored = rng.bool() as u8;
        let meta = rng.chance(1, 3) as u8;
        let pend: Vec<usize> = (0..rng.usize(8)).map(|_| *rng.pick(&[0usize, 0, 1, 2, 3])).collect();
        let line = format!("C15 as {} {} {} {} {} {} {} {}", spec, show_opts(&o), mode, vectored, meta, show_list(&pend), flen, phases);
        tags = format!("op:as vectored:{} meta:{} {} {}", vectored, meta, tags, if nph >= 2 && pend.iter().any(|p| *p > 0) { "nt" } else { "" });
        Some((line, tags))
    }
}

fn main() {
    let args = parse_args();
    if std::env::var("VERIF_LOUD").is_err() {
        quiet_panics();
    }
    let mut sink = Sink::new(&args.out);
    let emit = |sink: &mut Sink, line: String, tags: String| {
        let (a, problems, info) = run_case(&line);
        let tags = format!("{} {}", tags, info);
        for p in problems {
            sink.oracle_failure(line.clone(), p, &tags);
        }
        sink.case(line, a, &tags);
    };
    if args.mode == "replay" {
        for line in read_cases(args.replay.as_ref().unwrap()) {
            emit(&mut sink, line, "replay".into());
        }
    } else {
        let mut rng = Rng::new(args.seed ^ 0xC15);
        let n = n_cases(&args, 12000, 300000);
        let pool = if args.tier == "thorough" { 400 } else { 40 };
        for (line, tags) in dense_block(&mut rng, args.tier == "thorough") {
            emit(&mut sink, line, tags);
        }
        let mut made = 0;
        let mut tries = 0;
        while made < n && tries < 4 * n {
            tries += 1;
            if let Some((line, tags)) = gen_case(&mut rng, pool) {
                emit(&mut sink, line, tags);
                made += 1;
            } else {
                sink.count("gen:build-error");
            }
        }
    }
    sink.finish();
}
