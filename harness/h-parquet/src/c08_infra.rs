// C08 harness infrastructure, `include!`d by the C08 binaries of several packages
// (h-parquet/src/bin/c08.rs, h-extra/src/bin/c08x.rs, h-core/src/bin/c08c.rs).
//
// * a counting / capping `#[global_allocator]`: records the largest single allocation request of
//   the current case (and, for the first request above the soft limit, the arrow/parquet
//   function it came from); a request above the hard cap gets a null pointer, which a
//   `try_reserve` caller turns into an error and everybody else turns into an abort;
// * every case runs in a *worker process* (the same executable started with `worker`): the
//   parent writes the case line to its stdin and waits for one answer line with a wall-clock
//   timeout.  A timeout is `HANG` (worker killed), a dead worker is `ABORT` (allocation failure
//   or any other abort); the worker is then restarted, so one bad case never loses the run;
// * the panic hook records the panic site (file + first words of the message) for tagging.
//
// The including file provides `fn run_case(line: &str) -> String`.

use std::alloc::{GlobalAlloc, Layout, System};
use std::cell::Cell;
use std::io::{BufRead, BufReader, Write as _};
use std::process::{Child, ChildStdin, Command, Stdio};
use std::sync::atomic::{AtomicUsize, Ordering};
use std::sync::mpsc::{Receiver, RecvTimeoutError, channel};
use std::sync::{Arc, Mutex};
use std::time::Duration;

pub struct CapAlloc;
static MAX_REQ: AtomicUsize = AtomicUsize::new(0);
static SOFT: AtomicUsize = AtomicUsize::new(usize::MAX);
/// a single request above this is refused (null)
const HARD_CAP: usize = 1 << 30;
static SITE: Mutex<String> = Mutex::new(String::new());
static PANIC_SITE: Mutex<String> = Mutex::new(String::new());
thread_local! { static IN_HOOK: Cell<bool> = const { Cell::new(false) }; }

fn interesting_frame(bt: &str) -> String {
    // first frame that belongs to the code under test
    for l in bt.lines() {
        let l = l.trim();
        let name = match l.split_once(": ") {
            Some((_, n)) => n,
            None => continue,
        };
        let ok = ["parquet::", "arrow_", "parquet_variant", "flatbuffers::", "snap::", "zstd", "brotli", "lz4", "flate2", "csv", "serde_json", "prost"]
            .iter()
            .any(|p| name.starts_with(p) || name.starts_with(&format!("<{}", p)));
        if ok && !name.contains("CapAlloc") {
            // drop the hash suffix and generic arguments
            let n = name.split("::h").next().unwrap_or(name);
            let n: String = n.chars().filter(|c| c.is_ascii_alphanumeric() || *c == ':' || *c == '_').collect();
            return n;
        }
    }
    "?".to_string()
}

// Raw return addresses of the current call stack (cheap: unwinding only, no symbol lookup),
// relative to a function of this executable so that they are the same in every worker process.
unsafe extern "C" {
    fn _Unwind_Backtrace(cb: extern "C" fn(*mut u8, *mut u8) -> i32, arg: *mut u8) -> i32;
    fn _Unwind_GetIP(ctx: *mut u8) -> usize;
}
struct Ips {
    n: usize,
    v: [usize; 20],
}
extern "C" fn ip_cb(ctx: *mut u8, arg: *mut u8) -> i32 {
    let s = unsafe { &mut *(arg as *mut Ips) };
    if s.n < s.v.len() {
        s.v[s.n] = unsafe { _Unwind_GetIP(ctx) };
        s.n += 1;
        0
    } else {
        5 // _URC_END_OF_STACK
    }
}
fn stack_key() -> String {
    let mut ips = Ips { n: 0, v: [0; 20] };
    unsafe { _Unwind_Backtrace(ip_cb, &mut ips as *mut Ips as *mut u8) };
    let base = worker_main as usize;
    let mut k = String::new();
    for i in 0..ips.n {
        // frames outside this executable (libc start-up) move with ASLR: not part of the key
        let d = ips.v[i].wrapping_sub(base) as isize;
        if d.unsigned_abs() < (1 << 31) {
            k.push_str(&format!("{:x}.", d));
        }
    }
    k
}

/// the arrow/parquet function a large request comes from.  Symbolising is expensive (seconds on
/// a loaded machine, and it has to be redone in every fresh worker), so results are cached on
/// disk by call stack: each distinct stack is symbolised once per run.
fn alloc_site() -> String {
    let key = stack_key();
    let cache = std::env::var("C08_SITE_CACHE").unwrap_or_default();
    if !cache.is_empty() {
        if let Ok(txt) = std::fs::read_to_string(&cache) {
            for l in txt.lines() {
                if let Some((k, site)) = l.split_once('\t') {
                    if k == key {
                        return site.to_string();
                    }
                }
            }
        }
    }
    eprintln!("C08-ALLOC-PENDING");
    let bt = std::backtrace::Backtrace::force_capture().to_string();
    let site = interesting_frame(&bt);
    if !cache.is_empty() {
        use std::io::Write as _;
        if let Ok(mut f) = std::fs::OpenOptions::new().create(true).append(true).open(&cache) {
            let _ = writeln!(f, "{}\t{}", key, site);
        }
    }
    site
}

fn note(size: usize) {
    let prev = MAX_REQ.fetch_max(size, Ordering::Relaxed);
    if size > SOFT.load(Ordering::Relaxed) && size > prev {
        IN_HOOK.with(|f| {
            if !f.get() {
                f.set(true);
                let site = alloc_site();
                if let Ok(mut s) = SITE.try_lock() {
                    *s = site.clone();
                }
                if size > HARD_CAP {
                    // the process is probably about to abort: leave a trace for the parent
                    eprintln!("C08-ALLOC-REFUSED {} {}", size, site);
                }
                f.set(false);
            }
        });
    }
}

// Allocations of at least BIG bytes are served by anonymous mmap (zero pages mapped lazily) so
// that a large `alloc_zeroed` costs nothing until it is touched: the watchdog then measures
// loops, not the page-fault cost of zeroing on a loaded machine.  The size alone decides which
// path owns a block, so `dealloc`/`realloc` stay consistent.
const BIG: usize = 8 << 20;
unsafe extern "C" {
    fn mmap(addr: *mut u8, len: usize, prot: i32, flags: i32, fd: i32, off: i64) -> *mut u8;
    fn munmap(addr: *mut u8, len: usize) -> i32;
}
unsafe fn big_alloc(size: usize, align: usize) -> *mut u8 {
    if align > 4096 {
        return std::ptr::null_mut();
    }
    // PROT_READ|PROT_WRITE, MAP_PRIVATE|MAP_ANONYMOUS|MAP_NORESERVE (Linux)
    let p = unsafe { mmap(std::ptr::null_mut(), size, 3, 0x22 | 0x4000, -1, 0) };
    if p as isize == -1 { std::ptr::null_mut() } else { p }
}

unsafe impl GlobalAlloc for CapAlloc {
    unsafe fn alloc(&self, l: Layout) -> *mut u8 {
        let hooked = IN_HOOK.with(|f| f.get());
        if !hooked {
            note(l.size());
            if l.size() > HARD_CAP {
                return std::ptr::null_mut();
            }
        }
        if l.size() >= BIG {
            return unsafe { big_alloc(l.size(), l.align()) };
        }
        unsafe { System.alloc(l) }
    }
    unsafe fn alloc_zeroed(&self, l: Layout) -> *mut u8 {
        let hooked = IN_HOOK.with(|f| f.get());
        if !hooked {
            note(l.size());
            if l.size() > HARD_CAP {
                return std::ptr::null_mut();
            }
        }
        if l.size() >= BIG {
            return unsafe { big_alloc(l.size(), l.align()) };
        }
        unsafe { System.alloc_zeroed(l) }
    }
    unsafe fn dealloc(&self, p: *mut u8, l: Layout) {
        if l.size() >= BIG {
            unsafe { munmap(p, l.size()) };
            return;
        }
        unsafe { System.dealloc(p, l) }
    }
    unsafe fn realloc(&self, p: *mut u8, l: Layout, new_size: usize) -> *mut u8 {
        let hooked = IN_HOOK.with(|f| f.get());
        if !hooked {
            note(new_size);
            if new_size > HARD_CAP {
                return std::ptr::null_mut();
            }
        }
        if l.size() >= BIG || new_size >= BIG {
            let nl = match Layout::from_size_align(new_size, l.align()) {
                Ok(x) => x,
                Err(_) => return std::ptr::null_mut(),
            };
            let q = if new_size >= BIG { unsafe { big_alloc(new_size, l.align()) } } else { unsafe { System.alloc(nl) } };
            if q.is_null() {
                return q;
            }
            unsafe { std::ptr::copy_nonoverlapping(p, q, l.size().min(new_size)) };
            if l.size() >= BIG {
                unsafe { munmap(p, l.size()) };
            } else {
                unsafe { System.dealloc(p, l) };
            }
            return q;
        }
        unsafe { System.realloc(p, l, new_size) }
    }
}

/// soft limit for a case whose input has `n` bytes: allocations above it are "unrelated to the
/// size of the input"
pub fn soft_limit(n: usize) -> usize {
    (64usize << 20) + 64 * n
}

fn slug(s: &str) -> String {
    let mut out = String::new();
    let mut words = 0;
    let mut prev_dash = true;
    for c in s.chars() {
        if c.is_ascii_digit() {
            // numbers vary from case to case: not part of a site identifier
            continue;
        }
        if c.is_ascii_alphabetic() {
            out.push(c.to_ascii_lowercase());
            prev_dash = false;
        } else if !prev_dash {
            words += 1;
            if words >= 5 {
                break;
            }
            out.push('-');
            prev_dash = true;
        }
    }
    out.trim_matches('-').to_string()
}

fn install_panic_hook() {
    std::panic::set_hook(Box::new(|info| {
        let loc = info
            .location()
            .map(|l| {
                let parts: Vec<&str> = l.file().rsplit('/').take(2).collect();
                parts.into_iter().rev().collect::<Vec<_>>().join("/")
            })
            .unwrap_or_default();
        let msg = if let Some(s) = info.payload().downcast_ref::<&str>() {
            s.to_string()
        } else if let Some(s) = info.payload().downcast_ref::<String>() {
            s.clone()
        } else {
            String::new()
        };
        if let Ok(mut p) = PANIC_SITE.try_lock() {
            *p = format!("{}-{}", loc, slug(&msg));
        }
        if std::env::var("VERIF_LOUD").is_ok() {
            eprintln!("panic: {}", info);
            if std::env::var("VERIF_BT").is_ok() {
                eprintln!("{}", std::backtrace::Backtrace::force_capture());
            }
        }
    }));
}

/// worker process: one case line in, one `answer \t max-request \t alloc-site \t panic-site` out
pub fn worker_main() {
    install_panic_hook();

    let stdin = std::io::stdin();
    let stdout = std::io::stdout();
    let mut line = String::new();
    loop {
        line.clear();
        if stdin.lock().read_line(&mut line).unwrap_or(0) == 0 {
            break;
        }
        let l = line.trim_end_matches('\n');
        MAX_REQ.store(0, Ordering::Relaxed);
        SITE.lock().unwrap().clear();
        PANIC_SITE.lock().unwrap().clear();
        // the site of the first request above 64 MiB is recorded; the parent decides with the exact input length
        SOFT.store(soft_limit(0), Ordering::Relaxed);
        let t0 = std::time::Instant::now();
        let a = run_case(l);
        let ms = t0.elapsed().as_millis();
        SOFT.store(usize::MAX, Ordering::Relaxed);
        let m = MAX_REQ.load(Ordering::Relaxed);
        let site = SITE.lock().unwrap().clone();
        let psite = PANIC_SITE.lock().unwrap().clone();
        let mut o = stdout.lock();
        writeln!(o, "{}\t{}\t{}\t{}\t{}", a, m, site, psite, ms).unwrap();
        o.flush().unwrap();
    }
}

/// a case on a small input that takes longer than this is reported as work unrelated to input size
// (disabled in practice: wall-clock below the watchdog limit is too noisy on a shared machine;
// only the watchdog itself — `HANG` — reports work unrelated to input size)
pub const SLOW_MS: u128 = 1_000_000;

/// the cache is keyed by this executable (name, size, modification time): call stacks are the
/// same in every run of the same binary, so later runs pay nothing.  It is only a cache: when
/// the file is missing the sites are symbolised again.
fn site_cache_path() -> String {
    let exe = std::env::current_exe().ok();
    let (name, len, mtime) = exe
        .as_ref()
        .and_then(|p| {
            let md = std::fs::metadata(p).ok()?;
            let mt = md.modified().ok()?.duration_since(std::time::UNIX_EPOCH).ok()?.as_secs();
            Some((p.file_name()?.to_string_lossy().to_string(), md.len(), mt))
        })
        .unwrap_or(("unknown".into(), 0, 0));
    format!("{}/c08-sites-{}-{}-{}.txt", std::env::temp_dir().display(), name, len, mtime)
}

pub fn remove_site_cache() {
    // kept on purpose (see site_cache_path); stale caches of older binaries are removed
    let keep = site_cache_path();
    let exe = std::env::current_exe().ok().and_then(|p| p.file_name().map(|n| n.to_string_lossy().to_string())).unwrap_or_default();
    if let Ok(rd) = std::fs::read_dir(std::env::temp_dir()) {
        for e in rd.flatten() {
            let p = e.path().display().to_string();
            if p.contains(&format!("c08-sites-{}-", exe)) && p != keep {
                let _ = std::fs::remove_file(e.path());
            }
        }
    }
}

pub struct Outcome {
    pub ms: u128,
    pub answer: String,
    pub max_req: usize,
    pub alloc_site: String,
    pub panic_site: String,
}

pub struct Worker {
    child: Child,
    stdin: ChildStdin,
    rx: Receiver<String>,
    last_err: Arc<Mutex<String>>,
    pending: Arc<std::sync::atomic::AtomicBool>,
    timeout: Duration,
    hangs: usize,
}

impl Worker {
    pub fn spawn(timeout: Duration) -> Worker {
        let exe = std::env::current_exe().expect("current_exe");
        let mut child = Command::new(exe)
            .arg("worker")
            .env("C08_SITE_CACHE", site_cache_path())
            .stdin(Stdio::piped())
            .stdout(Stdio::piped())
            .stderr(Stdio::piped())
            .spawn()
            .expect("spawn worker");
        let stdin = child.stdin.take().unwrap();
        let stdout = child.stdout.take().unwrap();
        let stderr = child.stderr.take().unwrap();
        let (tx, rx) = channel();
        std::thread::spawn(move || {
            for l in BufReader::new(stdout).lines() {
                match l {
                    Ok(l) => {
                        if tx.send(l).is_err() {
                            break;
                        }
                    }
                    Err(_) => break,
                }
            }
        });
        let last_err = Arc::new(Mutex::new(String::new()));
        let le = last_err.clone();
        let pending = Arc::new(std::sync::atomic::AtomicBool::new(false));
        let pe = pending.clone();
        std::thread::spawn(move || {
            for l in BufReader::new(stderr).lines().map_while(|l| l.ok()) {
                if std::env::var("VERIF_LOUD").is_ok() {
                    eprintln!("[worker] {}", l);
                }
                if l.starts_with("C08-ALLOC-PENDING") {
                    pe.store(true, Ordering::SeqCst);
                    continue;
                }
                if l.starts_with("C08-ALLOC-REFUSED") || l.contains("memory allocation of") || l.contains("capacity overflow") || l.contains("overflow") {
                    // keep the most recent line: the one right before an abort is the cause
                    let mut g = le.lock().unwrap();
                    if l.starts_with("C08-ALLOC-REFUSED") || !g.starts_with("C08-ALLOC-REFUSED") {
                        *g = l;
                    }
                }
            }
        });
        Worker { child, stdin, rx, last_err, pending, timeout, hangs: 0 }
    }

    /// CPU time (user + system, all threads) the worker process has used so far
    fn cpu(&self) -> Duration {
        unsafe extern "C" {
            fn sysconf(name: i32) -> i64;
        }
        let tck = unsafe { sysconf(2) }.max(1) as u64; // _SC_CLK_TCK
        let st = std::fs::read_to_string(format!("/proc/{}/stat", self.child.id())).unwrap_or_default();
        // fields after the command name (which may contain spaces): state is field 3, utime 14, stime 15
        let rest = st.rsplit_once(')').map(|x| x.1).unwrap_or("");
        let f: Vec<&str> = rest.split_whitespace().collect();
        let ticks = f.get(11).and_then(|x| x.parse::<u64>().ok()).unwrap_or(0) + f.get(12).and_then(|x| x.parse::<u64>().ok()).unwrap_or(0);
        Duration::from_millis(ticks * 1000 / tck)
    }

    fn respawn(&mut self) {
        let (t, h) = (self.timeout, self.hangs);
        *self = Worker::spawn(t);
        self.hangs = h;
    }

    /// run one case; restarts the worker after a hang or an abort.
    /// The watchdog counts the **CPU time of the worker process**, not wall-clock time, so the
    /// verdict does not depend on how loaded the machine is; a (generous) wall-clock cap only
    /// catches a worker that is blocked without consuming CPU.
    pub fn run(&mut self, line: &str) -> Outcome {
        let limit = self.timeout;
        self.run_limited(line, limit)
    }

    pub fn run_limited(&mut self, line: &str, cpu_limit: Duration) -> Outcome {
        self.last_err.lock().unwrap().clear();
        self.pending.store(false, Ordering::SeqCst);
        let cpu0 = self.cpu();
        let t0 = std::time::Instant::now();
        let wall_cap = (cpu_limit * 30).max(Duration::from_secs(300));
        let sent = writeln!(self.stdin, "{}", line).and_then(|_| self.stdin.flush());
        let res = if sent.is_err() {
            Err(RecvTimeoutError::Disconnected)
        } else {
            loop {
                match self.rx.recv_timeout(Duration::from_millis(200)) {
                    Err(RecvTimeoutError::Timeout) => {
                        let used = self.cpu().saturating_sub(cpu0);
                        // symbolising a backtrace inside the allocation hook is harness work, not the code under test
                        let allowance = if self.pending.load(Ordering::SeqCst) { cpu_limit + Duration::from_secs(180) } else { cpu_limit };
                        if used >= allowance || t0.elapsed() >= wall_cap {
                            break Err(RecvTimeoutError::Timeout);
                        }
                    }
                    other => break other,
                }
            }
        };
        match res {
            Ok(l) => {
                let f: Vec<&str> = l.split('\t').collect();
                Outcome {
                    answer: f.first().unwrap_or(&"").to_string(),
                    max_req: f.get(1).and_then(|x| x.parse().ok()).unwrap_or(0),
                    alloc_site: f.get(2).unwrap_or(&"").to_string(),
                    panic_site: f.get(3).unwrap_or(&"").to_string(),
                    ms: f.get(4).and_then(|x| x.parse().ok()).unwrap_or(0),
                }
            }
            Err(RecvTimeoutError::Timeout) => {
                let _ = self.child.kill();
                let _ = self.child.wait();
                self.respawn();
                Outcome { ms: cpu_limit.as_millis(), answer: "HANG".into(), max_req: 0, alloc_site: String::new(), panic_site: String::new() }
            }
            Err(RecvTimeoutError::Disconnected) => {
                let _ = self.child.wait();
                // the stderr reader thread may still be draining the pipe: wait for the cause line
                let mut e = String::new();
                for _ in 0..100 {
                    e = self.last_err.lock().unwrap().clone();
                    if !e.is_empty() {
                        break;
                    }
                    std::thread::sleep(Duration::from_millis(20));
                }
                self.respawn();
                // "C08-ALLOC-REFUSED <size> <site>"
                let f: Vec<&str> = e.split(' ').collect();
                if f.first() == Some(&"C08-ALLOC-REFUSED") {
                    Outcome {
                        ms: 0,
                        answer: "ABORT".into(),
                        max_req: f.get(1).and_then(|x| x.parse().ok()).unwrap_or(0),
                        alloc_site: f.get(2).unwrap_or(&"?").to_string(),
                        panic_site: String::new(),
                    }
                } else {
                    Outcome { ms: 0, answer: "ABORT".into(), max_req: 0, alloc_site: slug(&e), panic_site: String::new() }
                }
            }
        }
    }
}

/// hang sites that are confirmed, still unrepaired and listed in known_findings.txt are not re-run
/// with the long limit.  There is none at present (the Avro OCF loop and the thrift list<bool>
/// skip are repaired): every HANG is confirmed by the long re-run before it is reported.
fn known_hang_site(_line: &str, _tags: &str) -> bool {
    false
}

impl Drop for Worker {
    fn drop(&mut self) {
        let _ = self.child.kill();
        let _ = self.child.wait();
    }
}

pub fn log2_bucket(n: usize) -> u32 {
    usize::BITS - n.max(1).leading_zeros() - 1
}

/// run a case in the worker, record it, and report every C08 violation the implementation
/// showed (panic, hang, abort, allocation unrelated to input size) as an oracle failure.
/// `unit_panic_expected`: the model also answers `PANIC` for this op, so the *answer* is compared
/// by the driver; the oracle failure is reported in any case (a panic is a C08 violation).
pub fn run_and_record(w: &mut Worker, sink: &mut vcommon::Sink, line: String, tags: &str, input_len: usize) {
    let t0 = std::time::Instant::now();
    let mut o = w.run(&line);
    if o.answer == "HANG" && !known_hang_site(&line, tags) {
        // not a known hang site: run the case again, alone, with ten times the limit (at least 120 s
        // of worker CPU time); it is a hang only if it still does not finish
        let long = (w.timeout * 10).max(Duration::from_secs(120));
        let o2 = w.run_limited(&line, long);
        if std::env::var("VERIF_LOUD").is_ok() {
            eprintln!("hang-confirmation {} -> {} after {:?}", line, o2.answer, t0.elapsed());
        }
        o = o2;
    }
    if std::env::var("VERIF_LOUD").is_ok() && t0.elapsed().as_millis() > 300 {
        eprintln!("slow-case {:?} {} -> {} ms={} max_req={} site={}", t0.elapsed(), line, o.answer, o.ms, o.max_req, o.alloc_site);
    }
    let mut tags = tags.to_string();
    let mut fails: Vec<String> = vec![];
    match o.answer.as_str() {
        "PANIC" => {
            tags.push_str(&format!(" kf:panic-{}", o.panic_site));
            fails.push(format!("PANIC at {}", o.panic_site));
        }
        "HANG" => {
            let op = line.split(' ').nth(1).unwrap_or("?");
            tags.push_str(&format!(" kf:hang-{}", op));
            // a hang costs a full limit of CPU time: after the first one halve the patience
            // (a case that exceeds the shorter limit at an unknown site is re-run with the long one)
            w.hangs += 1;
            if w.hangs >= 1 && w.timeout > Duration::from_secs(3) {
                w.timeout = Duration::from_secs(3).max(w.timeout / 2);
            }
            fails.push("HANG (worker CPU-time limit exceeded; worker killed)".to_string());
        }
        "ABORT" => {
            if o.alloc_site.contains("thrift") || o.alloc_site.contains("page_index") {
                tags.push_str(" kf:thrift-vec-capacity-from-input");
            }
            tags.push_str(&format!(" kf:abort-{}", o.alloc_site));
            fails.push(format!("ABORT (process aborted; refused allocation request of {} bytes from {})", o.max_req, o.alloc_site));
        }
        a if a.starts_with("INVALID") => {
            // INVALID:col<N>:<slug of the validation error>  ->  kf:invalid-array:<slug>
            let what = a.splitn(3, ':').nth(2).unwrap_or(a.trim_start_matches("INVALID:"));
            tags.push_str(&format!(" kf:invalid-array:{}", what));
            fails.push(format!("accepted input produced an invalid array: {}", a));
        }
        _ => {}
    }
    if o.answer != "ABORT" && o.max_req > soft_limit(input_len) {
        if o.alloc_site.contains("thrift") || o.alloc_site.contains("page_index") {
            tags.push_str(" kf:thrift-vec-capacity-from-input");
        }
        tags.push_str(&format!(" kf:alloc-{} alloc:2^{}", o.alloc_site, log2_bucket(o.max_req)));
        fails.push(format!("ALLOC single request of {} bytes for a {}-byte input, from {}", o.max_req, input_len, o.alloc_site));
    }
    if o.answer != "HANG" && o.ms > SLOW_MS && input_len < (1 << 20) {
        tags.push_str(" kf:slow");
        fails.push(format!("SLOW {} ms of CPU for a {}-byte input", o.ms / 1000 * 1000, input_len));
    }
    for f in fails {
        sink.oracle_failure(line.clone(), f, &tags);
    }
    sink.case(line, o.answer, &tags);
}
