//! C05 e2e: Arrow -> Parquet -> Arrow round trip through `ArrowWriter` / `ParquetRecordBatchReader`.
//!
//! Case line:  `C05 e2e <props> <plan> <rbs> <schema> <data>`      answer: `<schema'> <data'>`
//! (what was read back, all batches concatenated); the expected answer is literally
//! `<schema> <data>` of the case line.
//!
//! ## `<schema>`  fields joined by `;`, each `name:type` with a `?` suffix = nullable field
//! ```text
//! type := bool | i8 i16 i32 i64 | u8 u16 u32 u64 | f16 f32 f64 | date32 | date64
//!       | time32(s|ms) | time64(us|ns) | ts(s|ms|us|ns[,TZ]) | dur(s|ms|us|ns) | interval(ym|dt)
//!       | dec32(p,s) dec64(p,s) dec128(p,s) dec256(p,s)
//!       | utf8 largeutf8 utf8view binary largebinary binaryview | fsb(n)
//!       | dict(keytype,valuetype)
//!       | struct{field,field,...}
//!       | list<elem> | largelist<elem> | listview<elem> | largelistview<elem> | fsl(n)<elem>
//!       | map<elem,elem>            (entries field "entries"; key elem non-nullable)
//!       | ree(i16|i32|i64)<elem>    ("write as run-end-encoded, expect back as the values type")
//! elem := [name:]type[?]            default names: list/fsl `item`, map `key`/`value`, ree `values`
//! ```
//! `ree(..)<..>` is the only "write as X, expect back as Y" marker: the column is built and written as a
//! RunArray; the reader is documented to give back the flat values type (field nullability = that
//! of the ree field itself).  When the type read back equals that expectation the dump prints the
//! original `ree(..)<..>` spelling, otherwise it prints the type that really came back.  Everything
//! else (dictionary, large*, *view, listview, fsl, map, timestamps with tz...) must come back as
//! exactly the type that was written (the reader uses the embedded ARROW:schema hint).
//!
//! ## `<data>`  columns joined by `;`, each `[v,v,...]`
//! `n` null; ints decimal (bool 0/1; temporal/decimal = underlying integer; floats = decimal value
//! of the bit pattern; interval(dt) = `{days,millis}`); bytes/strings `x<hex>` (`x` = empty);
//! list/fsl/map `[..]`; struct `{v,v}`; map entry `{k,v}`.  Dictionary and ree columns by VALUE.
//!
//! ## `<props>`  `k=v` joined by `,` (missing key = library default)
//! `v=1|2` writer version; `enc=-|E|E/E/..` encoding, global or one per parquet leaf column
//! (PLAIN DBP DLBA DBA BSS RLE, `-` unset); `dict=0|1|<one of 0 1 - per leaf>`; `dps=` dictionary
//! page size limit; `pg=` data page size limit; `pr=` data page row count limit; `wb=` write batch
//! size; `rg=` max row group rows (0 = unlimited); `rgb=` max row group bytes (0 = unset);
//! `comp=UNCOMPRESSED|SNAPPY|GZIP|LZ4|LZ4_RAW|ZSTD|BROTLI`; `stats=none|chunk|page`;
//! `bloom=0|<ndv>`; `cdc=0|<min>:<max>:<norm>` content defined chunking (only effective with
//! par=0: the chunker entry point is private to ArrowWriter); `par=0` plain `ArrowWriter::write`,
//! `par=N>0` low level API: `ArrowWriter::into_serialized_writer` + `ArrowRowGroupWriterFactory::
//! create_column_writers` + `compute_leaves`, leaf columns encoded on N threads, joined in an order
//! seeded by `jo=<seed>`, chunks appended in column order.
//!
//! ## `<plan>`  `g<G>s<S>:<item>,<item>,...`
//! items: a number = `write()` of a batch with that many rows (0 allowed), `f` = `flush()`; sizes
//! sum to the number of rows.  `G` = garbage selector: 0 = clean arrays (empty ranges / zero values
//! under null slots); G>0 = seed for non-trivial content under nulls (non-empty child ranges under
//! null list/map slots, non-null/arbitrary children under null struct and fsl slots, non-zero
//! values and non-empty byte ranges under null leaf slots, list offsets not starting at 0,
//! trailing unreferenced child values, list views stored out of order, string views spread over
//! many small buffers).  `S` = slicing: 0 = every batch is built on its own (offset 0); S>0 = all
//! columns are built once with S extra rows in front (and S behind) and every batch is a
//! `RecordBatch::slice` of that with a non-zero offset.  Both are pure functions of the line.
//!
//! Dictionary encoding choices (entry order, unused / duplicate / null entries, null keys vs null
//! values) and run splitting for ree are a deterministic function (FNV hash) of the column content.
use arrow_array::builder::make_view;
use arrow_array::cast::AsArray;
use arrow_array::types::*;
use arrow_array::*;
use arrow_buffer::{BooleanBuffer, Buffer, IntervalDayTime, NullBuffer, OffsetBuffer, ScalarBuffer, i256};
use arrow_data::ArrayData;
use arrow_schema::{DataType, Field, FieldRef, Fields, IntervalUnit, Schema, SchemaRef, TimeUnit};
use parquet::arrow::ArrowSchemaConverter;
use parquet::arrow::arrow_reader::ParquetRecordBatchReaderBuilder;
use parquet::arrow::arrow_writer::{ArrowColumnChunk, ArrowLeafColumn, ArrowWriter, compute_leaves};
use parquet::basic::{BrotliLevel, Compression, Encoding, GzipLevel, ZstdLevel};
use parquet::file::properties::{CdcOptions, EnabledStatistics, WriterProperties, WriterVersion};
use parquet::schema::types::ColumnPath;
use std::collections::HashMap;
use std::fmt::Write as _;
use std::sync::Arc;
use vcommon::*;

type R<T> = Result<T, String>;

// ------------------------------------------------------------------------------------------
// values

#[derive(Clone, Debug, PartialEq)]
enum V {
    N,
    I(i128),
    W(i256),
    B(Vec<u8>),
    L(Vec<V>),
    S(Vec<V>),
}

fn pv(v: &V, o: &mut String) {
    match v {
        V::N => o.push('n'),
        V::I(x) => write!(o, "{}", x).unwrap(),
        V::W(x) => write!(o, "{}", x).unwrap(),
        V::B(b) => {
            o.push('x');
            for c in b {
                write!(o, "{:02x}", c).unwrap();
            }
        }
        V::L(xs) => {
            o.push('[');
            for (i, x) in xs.iter().enumerate() {
                if i > 0 {
                    o.push(',');
                }
                pv(x, o);
            }
            o.push(']');
        }
        V::S(xs) => {
            o.push('{');
            for (i, x) in xs.iter().enumerate() {
                if i > 0 {
                    o.push(',');
                }
                pv(x, o);
            }
            o.push('}');
        }
    }
}

struct Cur<'a> {
    b: &'a [u8],
    i: usize,
}
impl<'a> Cur<'a> {
    fn new(s: &'a str) -> Self {
        Cur { b: s.as_bytes(), i: 0 }
    }
    fn peek(&self) -> u8 {
        *self.b.get(self.i).unwrap_or(&0)
    }
    fn eat(&mut self, c: u8) -> bool {
        if self.peek() == c {
            self.i += 1;
            true
        } else {
            false
        }
    }
    fn need(&mut self, c: u8) -> R<()> {
        if self.eat(c) { Ok(()) } else { Err(format!("expected '{}' at {}", c as char, self.i)) }
    }
    fn word(&mut self) -> &'a str {
        let s = self.i;
        while self.peek().is_ascii_alphanumeric() || self.peek() == b'_' {
            self.i += 1;
        }
        std::str::from_utf8(&self.b[s..self.i]).unwrap()
    }
    fn until(&mut self, stop: &[u8]) -> &'a str {
        let s = self.i;
        while self.i < self.b.len() && !stop.contains(&self.peek()) {
            self.i += 1;
        }
        std::str::from_utf8(&self.b[s..self.i]).unwrap()
    }
    fn num(&mut self) -> R<i64> {
        let s = self.i;
        self.eat(b'-');
        while self.peek().is_ascii_digit() {
            self.i += 1;
        }
        std::str::from_utf8(&self.b[s..self.i]).unwrap().parse().map_err(|_| format!("number at {}", s))
    }
    fn done(&self) -> bool {
        self.i >= self.b.len()
    }
}

fn p_val(c: &mut Cur) -> R<V> {
    match c.peek() {
        b'n' => {
            c.i += 1;
            Ok(V::N)
        }
        b'x' => {
            c.i += 1;
            let s = c.i;
            while c.peek().is_ascii_hexdigit() {
                c.i += 1;
            }
            let h = &c.b[s..c.i];
            if h.len() % 2 != 0 {
                return Err("odd hex".into());
            }
            let hv = |x: u8| (x as char).to_digit(16).unwrap() as u8;
            Ok(V::B(h.chunks(2).map(|p| hv(p[0]) * 16 + hv(p[1])).collect()))
        }
        open @ (b'[' | b'{') => {
            c.i += 1;
            let close = if open == b'[' { b']' } else { b'}' };
            let mut xs = vec![];
            if !c.eat(close) {
                loop {
                    xs.push(p_val(c)?);
                    if c.eat(close) {
                        break;
                    }
                    c.need(b',')?;
                }
            }
            Ok(if open == b'[' { V::L(xs) } else { V::S(xs) })
        }
        _ => {
            let s = c.i;
            c.eat(b'-');
            while c.peek().is_ascii_digit() {
                c.i += 1;
            }
            let t = std::str::from_utf8(&c.b[s..c.i]).unwrap();
            if let Ok(x) = t.parse::<i128>() {
                Ok(V::I(x))
            } else {
                i256::from_string(t).map(V::W).ok_or_else(|| format!("bad value at {}", s))
            }
        }
    }
}

fn p_data(s: &str) -> R<Vec<Vec<V>>> {
    let mut c = Cur::new(s);
    let mut cols = vec![];
    loop {
        match p_val(&mut c)? {
            V::L(xs) => cols.push(xs),
            _ => return Err("column must be a list".into()),
        }
        if c.done() {
            break;
        }
        c.need(b';')?;
    }
    Ok(cols)
}

// ------------------------------------------------------------------------------------------
// schema text

fn p_unit(c: &mut Cur) -> R<TimeUnit> {
    Ok(match c.word() {
        "s" => TimeUnit::Second,
        "ms" => TimeUnit::Millisecond,
        "us" => TimeUnit::Microsecond,
        "ns" => TimeUnit::Nanosecond,
        u => return Err(format!("unit {}", u)),
    })
}
fn s_unit(u: &TimeUnit) -> &'static str {
    match u {
        TimeUnit::Second => "s",
        TimeUnit::Millisecond => "ms",
        TimeUnit::Microsecond => "us",
        TimeUnit::Nanosecond => "ns",
    }
}

fn p_field(c: &mut Cur, default_name: Option<&str>) -> R<Field> {
    let save = c.i;
    let w = c.word();
    let name = if !w.is_empty() && c.peek() == b':' {
        c.i += 1;
        w.to_string()
    } else {
        c.i = save;
        default_name.ok_or("field name expected")?.to_string()
    };
    let dt = p_type(c)?;
    let nullable = c.eat(b'?');
    Ok(Field::new(name, dt, nullable))
}

fn p_type(c: &mut Cur) -> R<DataType> {
    let w = c.word();
    let dec = |c: &mut Cur| -> R<(u8, i8)> {
        c.need(b'(')?;
        let p = c.num()?;
        c.need(b',')?;
        let s = c.num()?;
        c.need(b')')?;
        Ok((p as u8, s as i8))
    };
    let elem = |c: &mut Cur, dn: &str| -> R<FieldRef> {
        c.need(b'<')?;
        let f = p_field(c, Some(dn))?;
        c.need(b'>')?;
        Ok(Arc::new(f))
    };
    Ok(match w {
        "bool" => DataType::Boolean,
        "null" => DataType::Null,
        "i8" => DataType::Int8,
        "i16" => DataType::Int16,
        "i32" => DataType::Int32,
        "i64" => DataType::Int64,
        "u8" => DataType::UInt8,
        "u16" => DataType::UInt16,
        "u32" => DataType::UInt32,
        "u64" => DataType::UInt64,
        "f16" => DataType::Float16,
        "f32" => DataType::Float32,
        "f64" => DataType::Float64,
        "date32" => DataType::Date32,
        "date64" => DataType::Date64,
        "utf8" => DataType::Utf8,
        "largeutf8" => DataType::LargeUtf8,
        "utf8view" => DataType::Utf8View,
        "binary" => DataType::Binary,
        "largebinary" => DataType::LargeBinary,
        "binaryview" => DataType::BinaryView,
        "time32" | "time64" | "dur" => {
            c.need(b'(')?;
            let u = p_unit(c)?;
            c.need(b')')?;
            match w {
                "time32" => DataType::Time32(u),
                "time64" => DataType::Time64(u),
                _ => DataType::Duration(u),
            }
        }
        "ts" => {
            c.need(b'(')?;
            let u = p_unit(c)?;
            let tz = if c.eat(b',') { Some(Arc::<str>::from(c.until(b")"))) } else { None };
            c.need(b')')?;
            DataType::Timestamp(u, tz)
        }
        "interval" => {
            c.need(b'(')?;
            let u = match c.word() {
                "ym" => IntervalUnit::YearMonth,
                "dt" => IntervalUnit::DayTime,
                u => return Err(format!("interval unit {}", u)),
            };
            c.need(b')')?;
            DataType::Interval(u)
        }
        "dec32" => {
            let (p, s) = dec(c)?;
            DataType::Decimal32(p, s)
        }
        "dec64" => {
            let (p, s) = dec(c)?;
            DataType::Decimal64(p, s)
        }
        "dec128" => {
            let (p, s) = dec(c)?;
            DataType::Decimal128(p, s)
        }
        "dec256" => {
            let (p, s) = dec(c)?;
            DataType::Decimal256(p, s)
        }
        "fsb" => {
            c.need(b'(')?;
            let n = c.num()?;
            c.need(b')')?;
            DataType::FixedSizeBinary(n as i32)
        }
        "dict" => {
            c.need(b'(')?;
            let k = p_type(c)?;
            c.need(b',')?;
            let v = p_type(c)?;
            c.need(b')')?;
            DataType::Dictionary(Box::new(k), Box::new(v))
        }
        "struct" => {
            c.need(b'{')?;
            let mut fs = vec![];
            if !c.eat(b'}') {
                loop {
                    fs.push(p_field(c, None)?);
                    if c.eat(b'}') {
                        break;
                    }
                    c.need(b',')?;
                }
            }
            DataType::Struct(Fields::from(fs))
        }
        "list" => DataType::List(elem(c, "item")?),
        "largelist" => DataType::LargeList(elem(c, "item")?),
        "listview" => DataType::ListView(elem(c, "item")?),
        "largelistview" => DataType::LargeListView(elem(c, "item")?),
        "fsl" => {
            c.need(b'(')?;
            let n = c.num()?;
            c.need(b')')?;
            DataType::FixedSizeList(elem(c, "item")?, n as i32)
        }
        "map" => {
            c.need(b'<')?;
            let k = p_field(c, Some("key"))?;
            c.need(b',')?;
            let v = p_field(c, Some("value"))?;
            c.need(b'>')?;
            let entries = Field::new("entries", DataType::Struct(Fields::from(vec![k, v])), false);
            DataType::Map(Arc::new(entries), false)
        }
        "ree" => {
            c.need(b'(')?;
            let r = p_type(c)?;
            c.need(b')')?;
            let v = elem(c, "values")?;
            DataType::RunEndEncoded(Arc::new(Field::new("run_ends", r, false)), v)
        }
        w => return Err(format!("unknown type '{}' at {}", w, c.i)),
    })
}

fn p_schema(s: &str) -> R<Vec<Field>> {
    let mut c = Cur::new(s);
    let mut fs = vec![];
    loop {
        fs.push(p_field(&mut c, None)?);
        if c.done() {
            break;
        }
        c.need(b';')?;
    }
    Ok(fs)
}

fn s_field(f: &Field, default_name: Option<&str>, o: &mut String) {
    if default_name != Some(f.name().as_str()) {
        o.push_str(f.name());
        o.push(':');
    }
    s_type(f.data_type(), o);
    if f.is_nullable() {
        o.push('?');
    }
}

fn s_type(dt: &DataType, o: &mut String) {
    let elem = |o: &mut String, head: &str, f: &Field, dn: &str| {
        o.push_str(head);
        o.push('<');
        s_field(f, Some(dn), o);
        o.push('>');
    };
    match dt {
        DataType::Boolean => o.push_str("bool"),
        DataType::Null => o.push_str("null"),
        DataType::Int8 => o.push_str("i8"),
        DataType::Int16 => o.push_str("i16"),
        DataType::Int32 => o.push_str("i32"),
        DataType::Int64 => o.push_str("i64"),
        DataType::UInt8 => o.push_str("u8"),
        DataType::UInt16 => o.push_str("u16"),
        DataType::UInt32 => o.push_str("u32"),
        DataType::UInt64 => o.push_str("u64"),
        DataType::Float16 => o.push_str("f16"),
        DataType::Float32 => o.push_str("f32"),
        DataType::Float64 => o.push_str("f64"),
        DataType::Date32 => o.push_str("date32"),
        DataType::Date64 => o.push_str("date64"),
        DataType::Utf8 => o.push_str("utf8"),
        DataType::LargeUtf8 => o.push_str("largeutf8"),
        DataType::Utf8View => o.push_str("utf8view"),
        DataType::Binary => o.push_str("binary"),
        DataType::LargeBinary => o.push_str("largebinary"),
        DataType::BinaryView => o.push_str("binaryview"),
        DataType::Time32(u) => write!(o, "time32({})", s_unit(u)).unwrap(),
        DataType::Time64(u) => write!(o, "time64({})", s_unit(u)).unwrap(),
        DataType::Duration(u) => write!(o, "dur({})", s_unit(u)).unwrap(),
        DataType::Timestamp(u, None) => write!(o, "ts({})", s_unit(u)).unwrap(),
        DataType::Timestamp(u, Some(tz)) => write!(o, "ts({},{})", s_unit(u), tz).unwrap(),
        DataType::Interval(IntervalUnit::YearMonth) => o.push_str("interval(ym)"),
        DataType::Interval(IntervalUnit::DayTime) => o.push_str("interval(dt)"),
        DataType::Interval(IntervalUnit::MonthDayNano) => o.push_str("interval(mdn)"),
        DataType::Decimal32(p, s) => write!(o, "dec32({},{})", p, s).unwrap(),
        DataType::Decimal64(p, s) => write!(o, "dec64({},{})", p, s).unwrap(),
        DataType::Decimal128(p, s) => write!(o, "dec128({},{})", p, s).unwrap(),
        DataType::Decimal256(p, s) => write!(o, "dec256({},{})", p, s).unwrap(),
        DataType::FixedSizeBinary(n) => write!(o, "fsb({})", n).unwrap(),
        DataType::Dictionary(k, v) => {
            o.push_str("dict(");
            s_type(k, o);
            o.push(',');
            s_type(v, o);
            o.push(')');
        }
        DataType::Struct(fs) => {
            o.push_str("struct{");
            for (i, f) in fs.iter().enumerate() {
                if i > 0 {
                    o.push(',');
                }
                s_field(f, None, o);
            }
            o.push('}');
        }
        DataType::List(f) => elem(o, "list", f, "item"),
        DataType::LargeList(f) => elem(o, "largelist", f, "item"),
        DataType::ListView(f) => elem(o, "listview", f, "item"),
        DataType::LargeListView(f) => elem(o, "largelistview", f, "item"),
        DataType::FixedSizeList(f, n) => elem(o, &format!("fsl({})", n), f, "item"),
        DataType::Map(e, sorted) => {
            // canonical spelling only for the shape the grammar can express; anything else
            // is printed in a form that can never equal a case line
            match e.data_type() {
                DataType::Struct(kv) if kv.len() == 2 && e.name() == "entries" && !e.is_nullable() && !*sorted => {
                    o.push_str("map<");
                    s_field(&kv[0], Some("key"), o);
                    o.push(',');
                    s_field(&kv[1], Some("value"), o);
                    o.push('>');
                }
                _ => write!(o, "MAP!{:?}!{}", e, sorted).unwrap(),
            }
        }
        DataType::RunEndEncoded(r, v) => {
            o.push_str("ree(");
            s_type(r.data_type(), o);
            if r.name() != "run_ends" || r.is_nullable() {
                o.push('!');
            }
            o.push(')');
            elem(o, "", v, "values");
        }
        other => write!(o, "OTHER!{:?}", other).unwrap(),
    }
}

fn s_field_top(f: &Field) -> String {
    let mut o = String::new();
    s_field(f, None, &mut o);
    o
}

/// the field the reader is expected to give back for a written field (ree -> its values type)
fn back_field(f: &Field) -> Field {
    match f.data_type() {
        DataType::RunEndEncoded(_, v) => Field::new(f.name(), back_type(v.data_type()), f.is_nullable()),
        dt => Field::new(f.name(), back_type(dt), f.is_nullable()),
    }
}
fn back_type(dt: &DataType) -> DataType {
    let bf = |f: &FieldRef| Arc::new(back_field(f));
    match dt {
        DataType::Struct(fs) => DataType::Struct(fs.iter().map(|f| back_field(f)).collect::<Vec<_>>().into()),
        DataType::List(f) => DataType::List(bf(f)),
        DataType::LargeList(f) => DataType::LargeList(bf(f)),
        DataType::ListView(f) => DataType::ListView(bf(f)),
        DataType::LargeListView(f) => DataType::LargeListView(bf(f)),
        DataType::FixedSizeList(f, n) => DataType::FixedSizeList(bf(f), *n),
        DataType::Map(f, s) => DataType::Map(bf(f), *s),
        DataType::RunEndEncoded(_, v) => back_type(v.data_type()),
        d => d.clone(),
    }
}

// ------------------------------------------------------------------------------------------
// native <-> i128

trait Nat: Copy + Default {
    fn fi(x: i128) -> Option<Self>;
    fn ti(self) -> i128;
}
macro_rules! nat_int {
    ($($t:ty),*) => {$(impl Nat for $t {
        fn fi(x: i128) -> Option<Self> { <$t>::try_from(x).ok() }
        fn ti(self) -> i128 { self as i128 }
    })*};
}
nat_int!(i8, i16, i32, i64, i128, u8, u16, u32, u64);
impl Nat for half::f16 {
    fn fi(x: i128) -> Option<Self> {
        u16::try_from(x).ok().map(half::f16::from_bits)
    }
    fn ti(self) -> i128 {
        self.to_bits() as i128
    }
}
impl Nat for f32 {
    fn fi(x: i128) -> Option<Self> {
        u32::try_from(x).ok().map(f32::from_bits)
    }
    fn ti(self) -> i128 {
        self.to_bits() as i128
    }
}
impl Nat for f64 {
    fn fi(x: i128) -> Option<Self> {
        u64::try_from(x).ok().map(f64::from_bits)
    }
    fn ti(self) -> i128 {
        self.to_bits() as i128
    }
}

/// dispatch on the primitive types whose native value maps to one integer
macro_rules! with_prim {
    ($dt:expr, $T:ident => $body:expr, $else:expr) => {
        match $dt {
            DataType::Int8 => { type $T = Int8Type; $body }
            DataType::Int16 => { type $T = Int16Type; $body }
            DataType::Int32 => { type $T = Int32Type; $body }
            DataType::Int64 => { type $T = Int64Type; $body }
            DataType::UInt8 => { type $T = UInt8Type; $body }
            DataType::UInt16 => { type $T = UInt16Type; $body }
            DataType::UInt32 => { type $T = UInt32Type; $body }
            DataType::UInt64 => { type $T = UInt64Type; $body }
            DataType::Float16 => { type $T = Float16Type; $body }
            DataType::Float32 => { type $T = Float32Type; $body }
            DataType::Float64 => { type $T = Float64Type; $body }
            DataType::Date32 => { type $T = Date32Type; $body }
            DataType::Date64 => { type $T = Date64Type; $body }
            DataType::Time32(TimeUnit::Second) => { type $T = Time32SecondType; $body }
            DataType::Time32(TimeUnit::Millisecond) => { type $T = Time32MillisecondType; $body }
            DataType::Time64(TimeUnit::Microsecond) => { type $T = Time64MicrosecondType; $body }
            DataType::Time64(TimeUnit::Nanosecond) => { type $T = Time64NanosecondType; $body }
            DataType::Timestamp(TimeUnit::Second, _) => { type $T = TimestampSecondType; $body }
            DataType::Timestamp(TimeUnit::Millisecond, _) => { type $T = TimestampMillisecondType; $body }
            DataType::Timestamp(TimeUnit::Microsecond, _) => { type $T = TimestampMicrosecondType; $body }
            DataType::Timestamp(TimeUnit::Nanosecond, _) => { type $T = TimestampNanosecondType; $body }
            DataType::Duration(TimeUnit::Second) => { type $T = DurationSecondType; $body }
            DataType::Duration(TimeUnit::Millisecond) => { type $T = DurationMillisecondType; $body }
            DataType::Duration(TimeUnit::Microsecond) => { type $T = DurationMicrosecondType; $body }
            DataType::Duration(TimeUnit::Nanosecond) => { type $T = DurationNanosecondType; $body }
            DataType::Interval(IntervalUnit::YearMonth) => { type $T = IntervalYearMonthType; $body }
            DataType::Decimal32(_, _) => { type $T = Decimal32Type; $body }
            DataType::Decimal64(_, _) => { type $T = Decimal64Type; $body }
            DataType::Decimal128(_, _) => { type $T = Decimal128Type; $body }
            _ => $else,
        }
    };
}
macro_rules! with_int {
    ($dt:expr, $T:ident => $body:expr, $else:expr) => {
        match $dt {
            DataType::Int8 => { type $T = Int8Type; $body }
            DataType::Int16 => { type $T = Int16Type; $body }
            DataType::Int32 => { type $T = Int32Type; $body }
            DataType::Int64 => { type $T = Int64Type; $body }
            DataType::UInt8 => { type $T = UInt8Type; $body }
            DataType::UInt16 => { type $T = UInt16Type; $body }
            DataType::UInt32 => { type $T = UInt32Type; $body }
            DataType::UInt64 => { type $T = UInt64Type; $body }
            _ => $else,
        }
    };
}

// ------------------------------------------------------------------------------------------
// text -> arrays

struct Cx {
    g: u64,
    rng: Rng,
}
impl Cx {
    fn new(g: u64, s: u64) -> Cx {
        Cx { g, rng: Rng::new(g.wrapping_mul(0x9E37_79B9).wrapping_add(s) ^ 0xC05E_2E) }
    }
    /// garbage decision (always false in clean mode)
    fn dirty(&mut self, num: u64, den: u64) -> bool {
        self.g > 0 && self.rng.chance(num, den)
    }
}

fn fnv(vals: &[V]) -> u64 {
    let mut s = String::new();
    let mut h = 0xcbf29ce484222325u64;
    for v in vals {
        s.clear();
        pv(v, &mut s);
        for b in s.bytes().chain(std::iter::once(b',')) {
            h = (h ^ b as u64).wrapping_mul(0x100000001b3);
        }
    }
    h ^ (h >> 29)
}

fn mk_nulls(valid: &[bool], cx: &Cx) -> Option<NullBuffer> {
    if valid.iter().all(|b| *b) {
        if cx.g & 2 != 0 && !valid.is_empty() { Some(NullBuffer::new(BooleanBuffer::from(valid.to_vec()))) } else { None }
    } else {
        Some(NullBuffer::new(BooleanBuffer::from(valid.to_vec())))
    }
}

fn es<E: std::fmt::Display>(e: E) -> String {
    e.to_string()
}

/// a "zero" value of a type (content of clean arrays under null parents)
fn zero(dt: &DataType) -> V {
    if matches!(dt, DataType::Null) {
        return V::N;
    }
    match dt {
        DataType::Utf8 | DataType::LargeUtf8 | DataType::Utf8View | DataType::Binary | DataType::LargeBinary | DataType::BinaryView => V::B(vec![]),
        DataType::FixedSizeBinary(n) => V::B(vec![0; *n as usize]),
        DataType::Interval(IntervalUnit::DayTime) => V::S(vec![V::I(0), V::I(0)]),
        DataType::Struct(fs) => V::S(fs.iter().map(|f| zero(f.data_type())).collect()),
        DataType::List(_) | DataType::LargeList(_) | DataType::ListView(_) | DataType::LargeListView(_) | DataType::Map(_, _) => V::L(vec![]),
        DataType::FixedSizeList(f, n) => V::L((0..*n).map(|_| if f.is_nullable() { V::N } else { zero(f.data_type()) }).collect()),
        DataType::Dictionary(_, v) => zero(v),
        DataType::RunEndEncoded(_, v) => zero(v.data_type()),
        _ => V::I(0),
    }
}

/// low-cardinality arbitrary value of a type, respecting nullability below it
fn junk(dt: &DataType, nullable: bool, rng: &mut Rng) -> V {
    if matches!(dt, DataType::Null) {
        return V::N;
    }
    if nullable && rng.chance(1, 4) {
        return V::N;
    }
    let k = rng.below(4);
    match dt {
        DataType::Boolean => V::I((k & 1) as i128),
        DataType::Int8 | DataType::UInt8 | DataType::Int16 | DataType::UInt16 | DataType::Decimal32(_, _) | DataType::Decimal64(_, _) | DataType::Decimal128(_, _) => {
            V::I([1, 7, 0, 5][k as usize])
        }
        DataType::Decimal256(_, _) => V::I([1, 7, 0, 5][k as usize]),
        DataType::Utf8 | DataType::LargeUtf8 | DataType::Binary | DataType::LargeBinary => V::B([&b"junk"[..], b"J", b"", b"garbage-under-null"][k as usize].to_vec()),
        DataType::Utf8View | DataType::BinaryView => V::B([&b"junk"[..], b"a-long-junk-string-over-12", b"", b"J"][k as usize].to_vec()),
        DataType::FixedSizeBinary(n) => V::B(vec![0xA0 + k as u8; *n as usize]),
        DataType::Interval(IntervalUnit::DayTime) => V::S(vec![V::I(k as i128), V::I(3)]),
        DataType::Struct(fs) => V::S(fs.iter().map(|f| junk(f.data_type(), f.is_nullable(), rng)).collect()),
        DataType::List(f) | DataType::LargeList(f) | DataType::ListView(f) | DataType::LargeListView(f) => {
            V::L((0..k.min(2)).map(|_| junk(f.data_type(), f.is_nullable(), rng)).collect())
        }
        DataType::FixedSizeList(f, n) => V::L((0..*n).map(|_| junk(f.data_type(), f.is_nullable(), rng)).collect()),
        DataType::Map(e, _) => match e.data_type() {
            DataType::Struct(kv) => V::L(
                (0..k.min(2)).map(|_| V::S(vec![junk(kv[0].data_type(), false, rng), junk(kv[1].data_type(), kv[1].is_nullable(), rng)])).collect(),
            ),
            _ => V::L(vec![]),
        },
        DataType::Dictionary(_, v) => junk(v, false, rng),
        DataType::RunEndEncoded(_, v) => junk(v.data_type(), false, rng),
        // every remaining primitive accepts small non-negative integers (floats: bit patterns)
        _ => V::I([1, 77, 0, 3][k as usize]),
    }
}

fn b_prim<T: ArrowPrimitiveType>(dt: &DataType, vals: &[V], valid: &[bool], cx: &mut Cx) -> R<ArrayRef>
where
    T::Native: Nat,
{
    let mut out: Vec<T::Native> = Vec::with_capacity(vals.len());
    for v in vals {
        match v {
            V::I(x) => out.push(T::Native::fi(*x).ok_or_else(|| format!("{} out of range for {}", x, dt))?),
            V::N => {
                let j = if cx.dirty(3, 4) { T::Native::fi(1 + cx.rng.below(100) as i128).unwrap_or_default() } else { T::Native::default() };
                out.push(j)
            }
            _ => return Err(format!("bad value for {}", dt)),
        }
    }
    let a = PrimitiveArray::<T>::try_new(ScalarBuffer::from(out), mk_nulls(valid, cx)).map_err(es)?;
    Ok(Arc::new(a.with_data_type(dt.clone())))
}

fn b_bytes<O: OffsetSizeTrait>(dt: &DataType, vals: &[V], valid: &[bool], cx: &mut Cx) -> R<ArrayRef> {
    let mut data: Vec<u8> = vec![];
    if cx.dirty(1, 2) {
        data.extend_from_slice(b"LEAD");
    }
    let mut offs: Vec<O> = vec![O::usize_as(data.len())];
    for v in vals {
        match v {
            V::B(b) => data.extend_from_slice(b),
            V::N => {
                if cx.dirty(1, 2) {
                    data.extend_from_slice(b"under-null");
                }
            }
            _ => return Err(format!("bad value for {}", dt)),
        }
        offs.push(O::usize_as(data.len()));
    }
    if cx.dirty(1, 2) {
        data.extend_from_slice(b"TRAIL");
    }
    let offsets = OffsetBuffer::new(ScalarBuffer::from(offs));
    let nulls = mk_nulls(valid, cx);
    Ok(match dt {
        DataType::Utf8 | DataType::LargeUtf8 => Arc::new(GenericStringArray::<O>::try_new(offsets, Buffer::from_vec(data), nulls).map_err(es)?),
        _ => Arc::new(GenericBinaryArray::<O>::try_new(offsets, Buffer::from_vec(data), nulls).map_err(es)?),
    })
}

fn b_views(dt: &DataType, vals: &[V], valid: &[bool], cx: &mut Cx) -> R<ArrayRef> {
    // clean: one data buffer; dirty: many small buffers with unreferenced bytes in between
    let block_cap = if cx.g > 0 { 24 + (cx.g % 40) as usize } else { usize::MAX };
    let mut blocks: Vec<Vec<u8>> = vec![];
    let mut views: Vec<u128> = Vec::with_capacity(vals.len());
    let mut put = |b: &[u8], gap: bool| -> u128 {
        if b.len() <= 12 {
            return make_view(b, 0, 0);
        }
        if blocks.is_empty() || blocks.last().unwrap().len() + b.len() > block_cap {
            blocks.push(vec![]);
        }
        let blk = blocks.len() - 1;
        if gap {
            blocks[blk].extend_from_slice(b"..");
        }
        let off = blocks[blk].len();
        blocks[blk].extend_from_slice(b);
        make_view(b, blk as u32, off as u32)
    };
    for v in vals {
        match v {
            V::B(b) => {
                let gap = cx.dirty(1, 4);
                views.push(put(b, gap))
            }
            V::N => {
                if cx.dirty(1, 2) {
                    let j: &[u8] = if cx.rng.bool() { b"short-junk" } else { b"a-long-junk-string-under-a-null" };
                    views.push(put(j, false))
                } else {
                    views.push(0)
                }
            }
            _ => return Err(format!("bad value for {}", dt)),
        }
    }
    let bufs: Vec<Buffer> = blocks.into_iter().map(Buffer::from_vec).collect();
    let nulls = mk_nulls(valid, cx);
    Ok(match dt {
        DataType::Utf8View => Arc::new(StringViewArray::try_new(ScalarBuffer::from(views), bufs, nulls).map_err(es)?),
        _ => Arc::new(BinaryViewArray::try_new(ScalarBuffer::from(views), bufs, nulls).map_err(es)?),
    })
}

/// content of a child slot under a null struct / fsl parent
fn under_null(f: &Field, cx: &mut Cx, allow_masked_null: bool) -> V {
    if cx.g == 0 {
        if f.is_nullable() { V::N } else { zero(f.data_type()) }
    } else if allow_masked_null && !f.is_nullable() && cx.rng.chance(1, 4) {
        V::N // null in a non-nullable child, masked by the null parent: valid arrow
    } else {
        junk(f.data_type(), f.is_nullable(), &mut cx.rng)
    }
}

/// rows -> (flattened child values, offsets) for list-like types; `None` rows may get garbage
fn flatten_lists(elem: &Field, vals: &[V], cx: &mut Cx, what: &str) -> R<(Vec<V>, Vec<usize>)> {
    let mut flat: Vec<V> = vec![];
    if cx.dirty(1, 3) {
        flat.push(junk(elem.data_type(), elem.is_nullable(), &mut cx.rng));
    }
    let mut offs = vec![flat.len()];
    for v in vals {
        match v {
            V::L(xs) => flat.extend(xs.iter().cloned()),
            V::N => {
                if cx.dirty(2, 3) {
                    for _ in 0..1 + cx.rng.below(3) {
                        flat.push(junk(elem.data_type(), elem.is_nullable(), &mut cx.rng));
                    }
                }
            }
            _ => return Err(format!("bad value for {}", what)),
        }
        offs.push(flat.len());
    }
    if cx.dirty(1, 3) {
        flat.push(junk(elem.data_type(), elem.is_nullable(), &mut cx.rng));
    }
    Ok((flat, offs))
}

fn b_list<O: OffsetSizeTrait>(f: &FieldRef, vals: &[V], valid: &[bool], cx: &mut Cx) -> R<ArrayRef> {
    let (flat, offs) = flatten_lists(f, vals, cx, "list")?;
    let child = build(f.data_type(), &flat, cx)?;
    let offsets = OffsetBuffer::new(ScalarBuffer::from(offs.into_iter().map(O::usize_as).collect::<Vec<_>>()));
    Ok(Arc::new(GenericListArray::<O>::try_new(f.clone(), offsets, child, mk_nulls(valid, cx)).map_err(es)?))
}

fn b_listview<O: OffsetSizeTrait>(f: &FieldRef, vals: &[V], valid: &[bool], cx: &mut Cx) -> R<ArrayRef> {
    let n = vals.len();
    let mut rows: Vec<Vec<V>> = Vec::with_capacity(n);
    for v in vals {
        match v {
            V::L(xs) => rows.push(xs.clone()),
            V::N => {
                let k = if cx.dirty(2, 3) { 1 + cx.rng.below(3) } else { 0 };
                rows.push((0..k).map(|_| junk(f.data_type(), f.is_nullable(), &mut cx.rng)).collect())
            }
            _ => return Err("bad value for listview".into()),
        }
    }
    // storage order: clean = row order; dirty = reversed, with gaps
    let order: Vec<usize> = if cx.g > 0 && cx.g & 1 == 1 { (0..n).rev().collect() } else { (0..n).collect() };
    let mut flat: Vec<V> = vec![];
    let (mut offs, mut sizes) = (vec![0usize; n], vec![0usize; n]);
    for r in order {
        if cx.dirty(1, 4) {
            flat.push(junk(f.data_type(), f.is_nullable(), &mut cx.rng));
        }
        offs[r] = flat.len();
        sizes[r] = rows[r].len();
        flat.append(&mut rows[r]);
    }
    let child = build(f.data_type(), &flat, cx)?;
    let sb = |v: Vec<usize>| ScalarBuffer::from(v.into_iter().map(O::usize_as).collect::<Vec<_>>());
    Ok(Arc::new(GenericListViewArray::<O>::try_new(f.clone(), sb(offs), sb(sizes), child, mk_nulls(valid, cx)).map_err(es)?))
}

fn b_dict<K: ArrowDictionaryKeyType>(dt: &DataType, kdt: &DataType, vdt: &DataType, vals: &[V], cx: &mut Cx) -> R<ArrayRef>
where
    K::Native: Nat,
{
    let m = fnv(vals);
    // distinct non-null values in first-seen order
    let mut index: HashMap<String, usize> = HashMap::new();
    let mut distinct: Vec<V> = vec![];
    let mut slot: Vec<Option<usize>> = Vec::with_capacity(vals.len());
    let mut s = String::new();
    for v in vals {
        if matches!(v, V::N) {
            slot.push(None);
            continue;
        }
        s.clear();
        pv(v, &mut s);
        let k = *index.entry(s.clone()).or_insert_with(|| {
            distinct.push(v.clone());
            distinct.len() - 1
        });
        slot.push(Some(k));
    }
    // dictionary entries: (tag, value); tag = Some((distinct idx, copy)) or None for filler
    let mut ents: Vec<(Option<(usize, u8)>, V)> = distinct.iter().enumerate().map(|(i, v)| (Some((i, 0)), v.clone())).collect();
    let dup = m & 8 != 0;
    if dup {
        ents.extend(distinct.iter().enumerate().map(|(i, v)| (Some((i, 1)), v.clone())));
    }
    if m & 4 != 0 {
        ents.insert(0, (None, zero(vdt)));
        if let Some(f) = distinct.first() {
            ents.push((None, f.clone()));
        }
    }
    // a null dictionary entry makes the array `is_nullable` even when unreferenced, which list
    // constructors reject for non-nullable item fields: only use it when the data has nulls
    let null_entry = m & 1 != 0 && vals.iter().any(|v| matches!(v, V::N));
    if null_entry {
        ents.insert(ents.len() / 2, (None, V::N));
    }
    if m & 2 != 0 {
        ents.reverse();
    }
    let mut pos: HashMap<(usize, u8), usize> = HashMap::new();
    let mut null_pos = 0usize;
    for (i, (t, v)) in ents.iter().enumerate() {
        match t {
            Some(t) => {
                pos.insert(*t, i);
            }
            None if matches!(v, V::N) => null_pos = i,
            None => {}
        }
    }
    let mut keys: Vec<K::Native> = Vec::with_capacity(vals.len());
    let mut kvalid: Vec<bool> = Vec::with_capacity(vals.len());
    let conv = |p: usize| K::Native::fi(p as i128).ok_or_else(|| format!("dictionary of {} entries too big for {}", ents.len(), kdt));
    for (i, sl) in slot.iter().enumerate() {
        match sl {
            Some(d) => {
                let copy = if dup { (i & 1) as u8 } else { 0 };
                keys.push(conv(pos[&(*d, copy)])?);
                kvalid.push(true);
            }
            None => {
                if null_entry && i % 3 != 0 {
                    keys.push(conv(null_pos)?);
                    kvalid.push(true);
                } else {
                    let j = if cx.g > 0 && !ents.is_empty() { cx.rng.usize(ents.len()) } else { 0 };
                    keys.push(conv(j)?);
                    kvalid.push(false);
                }
            }
        }
    }
    let dvals: Vec<V> = ents.into_iter().map(|e| e.1).collect();
    let values = build(vdt, &dvals, cx)?;
    // DictionaryArray::is_nullable is true as soon as the keys carry a validity buffer
    let knulls = if kvalid.iter().all(|b| *b) { None } else { mk_nulls(&kvalid, cx) };
    let karr = PrimitiveArray::<K>::try_new(ScalarBuffer::from(keys), knulls).map_err(es)?;
    let d = DictionaryArray::<K>::try_new(karr, values).map_err(es)?;
    debug_assert_eq!(d.data_type(), dt);
    Ok(Arc::new(d))
}

fn b_ree(dt: &DataType, rf: &Field, vf: &Field, vals: &[V], cx: &mut Cx) -> R<ArrayRef> {
    let m = fnv(vals);
    let max_run = if m & 1 == 1 { usize::MAX } else { 1 + (m >> 1) as usize % 4 };
    let mut run_vals: Vec<V> = vec![];
    let mut ends: Vec<i128> = vec![];
    let mut cur = 0usize;
    for (i, v) in vals.iter().enumerate() {
        if i > 0 && run_vals.last() == Some(v) && cur < max_run {
            *ends.last_mut().unwrap() = (i + 1) as i128;
            cur += 1;
        } else {
            run_vals.push(v.clone());
            ends.push((i + 1) as i128);
            cur = 1;
        }
    }
    let evalid = vec![true; ends.len()];
    let ev: Vec<V> = ends.into_iter().map(V::I).collect();
    let clean = &mut Cx::new(0, 0);
    let run_ends = with_int!(rf.data_type(), T => b_prim::<T>(rf.data_type(), &ev, &evalid, clean)?, return Err("run end type".into()));
    let values = build(vf.data_type(), &run_vals, cx)?;
    let data = ArrayData::builder(dt.clone()).len(vals.len()).add_child_data(run_ends.to_data()).add_child_data(values.to_data()).build().map_err(es)?;
    Ok(make_array(data))
}

fn build(dt: &DataType, vals: &[V], cx: &mut Cx) -> R<ArrayRef> {
    let n = vals.len();
    let valid: Vec<bool> = vals.iter().map(|v| !matches!(v, V::N)).collect();
    Ok(match dt {
        DataType::Null => {
            if valid.iter().any(|v| *v) {
                return Err("null column with a value".into());
            }
            Arc::new(NullArray::new(n))
        }
        DataType::Boolean => {
            let mut bits = Vec::with_capacity(n);
            for v in vals {
                bits.push(match v {
                    V::I(0) => false,
                    V::I(1) => true,
                    V::N => cx.dirty(1, 2),
                    _ => return Err("bad bool".into()),
                })
            }
            Arc::new(BooleanArray::new(BooleanBuffer::from(bits), mk_nulls(&valid, cx)))
        }
        DataType::Decimal256(_, _) => {
            let mut out = Vec::with_capacity(n);
            for v in vals {
                out.push(match v {
                    V::I(x) => i256::from_i128(*x),
                    V::W(x) => *x,
                    V::N => {
                        if cx.dirty(3, 4) {
                            i256::from_i128(9)
                        } else {
                            i256::ZERO
                        }
                    }
                    _ => return Err("bad dec256".into()),
                })
            }
            Arc::new(Decimal256Array::try_new(ScalarBuffer::from(out), mk_nulls(&valid, cx)).map_err(es)?.with_data_type(dt.clone()))
        }
        DataType::Interval(IntervalUnit::DayTime) => {
            let mut out = Vec::with_capacity(n);
            for v in vals {
                out.push(match v {
                    V::S(p) if p.len() == 2 => match (&p[0], &p[1]) {
                        (V::I(d), V::I(ms)) => IntervalDayTime::new(i32::fi(*d).ok_or("interval days")?, i32::fi(*ms).ok_or("interval ms")?),
                        _ => return Err("bad interval".into()),
                    },
                    V::N => {
                        if cx.dirty(3, 4) {
                            IntervalDayTime::new(5, 6)
                        } else {
                            IntervalDayTime::new(0, 0)
                        }
                    }
                    _ => return Err("bad interval".into()),
                })
            }
            Arc::new(IntervalDayTimeArray::try_new(ScalarBuffer::from(out), mk_nulls(&valid, cx)).map_err(es)?)
        }
        DataType::Utf8 | DataType::Binary => b_bytes::<i32>(dt, vals, &valid, cx)?,
        DataType::LargeUtf8 | DataType::LargeBinary => b_bytes::<i64>(dt, vals, &valid, cx)?,
        DataType::Utf8View | DataType::BinaryView => b_views(dt, vals, &valid, cx)?,
        DataType::FixedSizeBinary(w) => {
            let w = *w as usize;
            let mut data = Vec::with_capacity(n * w);
            for v in vals {
                match v {
                    V::B(b) if b.len() == w => data.extend_from_slice(b),
                    V::N => {
                        let fill = if cx.dirty(3, 4) { 0xEE } else { 0 };
                        data.extend(std::iter::repeat_n(fill, w))
                    }
                    _ => return Err("bad fsb value".into()),
                }
            }
            Arc::new(FixedSizeBinaryArray::try_new_with_len(w as i32, Buffer::from_vec(data), mk_nulls(&valid, cx), n).map_err(es)?)
        }
        DataType::Struct(fs) => {
            if fs.is_empty() {
                return Ok(Arc::new(StructArray::new_empty_fields(n, mk_nulls(&valid, cx))));
            }
            let mut cols: Vec<Vec<V>> = fs.iter().map(|_| Vec::with_capacity(n)).collect();
            for v in vals {
                match v {
                    V::S(xs) if xs.len() == fs.len() => {
                        for (c, x) in cols.iter_mut().zip(xs) {
                            c.push(x.clone())
                        }
                    }
                    V::N => {
                        for (c, f) in cols.iter_mut().zip(fs.iter()) {
                            c.push(under_null(f, cx, true))
                        }
                    }
                    _ => return Err("bad struct value".into()),
                }
            }
            let mut children = vec![];
            for (c, f) in cols.iter().zip(fs.iter()) {
                children.push(build(f.data_type(), c, cx)?);
            }
            Arc::new(StructArray::try_new_with_length(fs.clone(), children, mk_nulls(&valid, cx), n).map_err(es)?)
        }
        DataType::List(f) => b_list::<i32>(f, vals, &valid, cx)?,
        DataType::LargeList(f) => b_list::<i64>(f, vals, &valid, cx)?,
        DataType::ListView(f) => b_listview::<i32>(f, vals, &valid, cx)?,
        DataType::LargeListView(f) => b_listview::<i64>(f, vals, &valid, cx)?,
        DataType::FixedSizeList(f, w) => {
            let w = *w as usize;
            let mut flat = Vec::with_capacity(n * w);
            for v in vals {
                match v {
                    V::L(xs) if xs.len() == w => flat.extend(xs.iter().cloned()),
                    V::N => {
                        for _ in 0..w {
                            flat.push(under_null(f, cx, true))
                        }
                    }
                    _ => return Err("bad fsl value".into()),
                }
            }
            let child = build(f.data_type(), &flat, cx)?;
            Arc::new(FixedSizeListArray::try_new_with_length(f.clone(), w as i32, child, mk_nulls(&valid, cx), n).map_err(es)?)
        }
        DataType::Map(e, sorted) => {
            let DataType::Struct(kv) = e.data_type() else { return Err("map entries".into()) };
            if kv.len() != 2 {
                return Err("map entries".into());
            }
            let (flat, offs) = flatten_lists(e, vals, cx, "map")?;
            let (mut ks, mut vs) = (Vec::with_capacity(flat.len()), Vec::with_capacity(flat.len()));
            for x in flat {
                match x {
                    V::S(mut p) if p.len() == 2 => {
                        vs.push(p.pop().unwrap());
                        ks.push(p.pop().unwrap());
                    }
                    _ => return Err("bad map entry".into()),
                }
            }
            let keys = build(kv[0].data_type(), &ks, cx)?;
            let values = build(kv[1].data_type(), &vs, cx)?;
            let entries = StructArray::try_new_with_length(kv.clone(), vec![keys, values], None, ks.len()).map_err(es)?;
            let offsets = OffsetBuffer::new(ScalarBuffer::from(offs.into_iter().map(|o| o as i32).collect::<Vec<_>>()));
            Arc::new(MapArray::try_new(e.clone(), offsets, entries, mk_nulls(&valid, cx), *sorted).map_err(es)?)
        }
        DataType::Dictionary(k, v) => with_int!(k.as_ref(), K => b_dict::<K>(dt, k, v, vals, cx)?, return Err("dictionary key type".into())),
        DataType::RunEndEncoded(r, v) => b_ree(dt, r, v, vals, cx)?,
        _ => with_prim!(dt, T => b_prim::<T>(dt, vals, &valid, cx)?, return Err(format!("unsupported type {}", dt))),
    })
}

// ------------------------------------------------------------------------------------------
// arrays -> text

fn hexs(b: &[u8], o: &mut String) {
    const H: &[u8; 16] = b"0123456789abcdef";
    o.push('x');
    for c in b {
        o.push(H[(c >> 4) as usize] as char);
        o.push(H[(c & 15) as usize] as char);
    }
}

/// dump rows lo..hi of `a`, comma separated
fn dump(a: &dyn Array, lo: usize, hi: usize, o: &mut String) {
    macro_rules! rows {
        ($arr:expr, |$i:ident| $body:expr) => {{
            let arr = $arr;
            for $i in lo..hi {
                if $i > lo {
                    o.push(',');
                }
                if arr.is_null($i) {
                    o.push('n');
                } else {
                    $body
                }
            }
        }};
    }
    macro_rules! listlike {
        ($arr:expr, |$i:ident| $range:expr) => {{
            let arr = $arr;
            rows!(arr, |$i| {
                let (s, e): (usize, usize) = $range;
                o.push('[');
                dump(arr.values().as_ref(), s, e, o);
                o.push(']');
            })
        }};
    }
    match a.data_type() {
        DataType::Null => {
            for i in lo..hi {
                if i > lo {
                    o.push(',');
                }
                o.push('n');
            }
        }
        DataType::Boolean => rows!(a.as_boolean(), |i| o.push(if a.as_boolean().value(i) { '1' } else { '0' })),
        DataType::Decimal256(_, _) => rows!(a.as_primitive::<Decimal256Type>(), |i| write!(o, "{}", a.as_primitive::<Decimal256Type>().value(i)).unwrap()),
        DataType::Interval(IntervalUnit::DayTime) => rows!(a.as_primitive::<IntervalDayTimeType>(), |i| {
            let v = a.as_primitive::<IntervalDayTimeType>().value(i);
            write!(o, "{{{},{}}}", v.days, v.milliseconds).unwrap()
        }),
        DataType::Utf8 => rows!(a.as_string::<i32>(), |i| hexs(a.as_string::<i32>().value(i).as_bytes(), o)),
        DataType::LargeUtf8 => rows!(a.as_string::<i64>(), |i| hexs(a.as_string::<i64>().value(i).as_bytes(), o)),
        DataType::Binary => rows!(a.as_binary::<i32>(), |i| hexs(a.as_binary::<i32>().value(i), o)),
        DataType::LargeBinary => rows!(a.as_binary::<i64>(), |i| hexs(a.as_binary::<i64>().value(i), o)),
        DataType::Utf8View => rows!(a.as_string_view(), |i| hexs(a.as_string_view().value(i).as_bytes(), o)),
        DataType::BinaryView => rows!(a.as_binary_view(), |i| hexs(a.as_binary_view().value(i), o)),
        DataType::FixedSizeBinary(_) => rows!(a.as_fixed_size_binary(), |i| hexs(a.as_fixed_size_binary().value(i), o)),
        DataType::Struct(_) => {
            let s = a.as_struct();
            rows!(s, |i| {
                o.push('{');
                for (k, c) in s.columns().iter().enumerate() {
                    if k > 0 {
                        o.push(',');
                    }
                    dump(c.as_ref(), i, i + 1, o);
                }
                o.push('}');
            })
        }
        DataType::List(_) => listlike!(a.as_list::<i32>(), |i| {
            let of = a.as_list::<i32>().value_offsets();
            (of[i] as usize, of[i + 1] as usize)
        }),
        DataType::LargeList(_) => listlike!(a.as_list::<i64>(), |i| {
            let of = a.as_list::<i64>().value_offsets();
            (of[i] as usize, of[i + 1] as usize)
        }),
        DataType::ListView(_) => listlike!(a.as_list_view::<i32>(), |i| {
            let l = a.as_list_view::<i32>();
            (l.value_offsets()[i] as usize, (l.value_offsets()[i] + l.value_sizes()[i]) as usize)
        }),
        DataType::LargeListView(_) => listlike!(a.as_list_view::<i64>(), |i| {
            let l = a.as_list_view::<i64>();
            (l.value_offsets()[i] as usize, (l.value_offsets()[i] + l.value_sizes()[i]) as usize)
        }),
        DataType::FixedSizeList(_, w) => {
            let w = *w as usize;
            listlike!(a.as_fixed_size_list(), |i| (i * w, (i + 1) * w))
        }
        DataType::Map(_, _) => {
            let m = a.as_map();
            rows!(m, |i| {
                let of = m.value_offsets();
                o.push('[');
                dump(m.entries(), of[i] as usize, of[i + 1] as usize, o);
                o.push(']');
            })
        }
        DataType::Dictionary(k, _) => {
            with_int!(k.as_ref(), K => {
                let d = a.as_dictionary::<K>();
                for i in lo..hi {
                    if i > lo {
                        o.push(',');
                    }
                    if d.keys().is_null(i) {
                        o.push('n');
                    } else {
                        let k = d.keys().value(i).ti() as usize;
                        dump(d.values().as_ref(), k, k + 1, o);
                    }
                }
            }, o.push_str("BADDICT"))
        }
        DataType::RunEndEncoded(r, _) => {
            macro_rules! ree {
                ($T:ty) => {{
                    let ra = a.as_any().downcast_ref::<RunArray<$T>>().unwrap();
                    for i in lo..hi {
                        if i > lo {
                            o.push(',');
                        }
                        let p = ra.get_physical_index(i);
                        dump(ra.values().as_ref(), p, p + 1, o);
                    }
                }};
            }
            match r.data_type() {
                DataType::Int16 => ree!(Int16Type),
                DataType::Int32 => ree!(Int32Type),
                _ => ree!(Int64Type),
            }
        }
        dt => with_prim!(dt, T => {
            let p = a.as_primitive::<T>();
            rows!(p, |i| write!(o, "{}", p.value(i).ti()).unwrap())
        }, write!(o, "UNSUPPORTED!{}", dt).unwrap()),
    }
}

// ------------------------------------------------------------------------------------------
// props

#[derive(Clone, Copy, PartialEq, Debug)]
enum Ph {
    Bool,
    I32,
    I64,
    F32,
    F64,
    Ba,
    Flba,
}

/// physical type of every parquet leaf under a field, in schema order (mirrors arrow_to_parquet_type)
fn leaves(dt: &DataType, out: &mut Vec<Ph>) {
    match dt {
        DataType::Boolean => out.push(Ph::Bool),
        DataType::Int8 | DataType::Int16 | DataType::Int32 | DataType::UInt8 | DataType::UInt16 | DataType::UInt32 | DataType::Date32 | DataType::Time32(_) => out.push(Ph::I32),
        DataType::Int64 | DataType::UInt64 | DataType::Date64 | DataType::Time64(_) | DataType::Timestamp(_, _) | DataType::Duration(_) => out.push(Ph::I64),
        DataType::Float32 => out.push(Ph::F32),
        DataType::Float64 => out.push(Ph::F64),
        DataType::Float16 | DataType::Interval(_) | DataType::FixedSizeBinary(_) => out.push(Ph::Flba),
        DataType::Decimal32(p, _) | DataType::Decimal64(p, _) | DataType::Decimal128(p, _) | DataType::Decimal256(p, _) => {
            out.push(if *p > 1 && *p <= 9 {
                Ph::I32
            } else if *p <= 18 {
                Ph::I64
            } else {
                Ph::Flba
            })
        }
        DataType::Utf8 | DataType::LargeUtf8 | DataType::Utf8View | DataType::Binary | DataType::LargeBinary | DataType::BinaryView => out.push(Ph::Ba),
        DataType::Struct(fs) => fs.iter().for_each(|f| leaves(f.data_type(), out)),
        DataType::List(f) | DataType::LargeList(f) | DataType::ListView(f) | DataType::LargeListView(f) | DataType::FixedSizeList(f, _) | DataType::Map(f, _) => leaves(f.data_type(), out),
        DataType::Dictionary(_, v) => leaves(v, out),
        DataType::RunEndEncoded(_, v) => leaves(v.data_type(), out),
        _ => out.push(Ph::I32),
    }
}

fn enc_of(s: &str) -> R<Option<Encoding>> {
    Ok(Some(match s {
        "-" => return Ok(None),
        "PLAIN" => Encoding::PLAIN,
        "DBP" => Encoding::DELTA_BINARY_PACKED,
        "DLBA" => Encoding::DELTA_LENGTH_BYTE_ARRAY,
        "DBA" => Encoding::DELTA_BYTE_ARRAY,
        "BSS" => Encoding::BYTE_STREAM_SPLIT,
        "RLE" => Encoding::RLE,
        e => return Err(format!("encoding {}", e)),
    }))
}

struct Props {
    wp: WriterProperties,
    par: usize,
    jo: u64,
    rg: usize,
    /// how the ArrowWriter is finished: 0 into_inner, 1 finish + into_inner, 2 close (needs a shared sink)
    fin: usize,
    /// reader entry point: 0 builder, 1 ParquetRecordBatchReader::try_new, 2 builder with page index
    rd: usize,
}

fn parse_props(s: &str, paths: &[ColumnPath]) -> R<Props> {
    let mut b = WriterProperties::builder().set_max_row_group_row_count(None);
    let (mut par, mut jo, mut rg) = (0usize, 0u64, 0usize);
    let (mut fin, mut rd) = (0usize, 0usize);
    let mut comp_name = String::new();
    let us = |v: &str| v.parse::<usize>().map_err(|_| format!("number '{}'", v));
    for kv in s.split(',') {
        let (k, v) = kv.split_once('=').ok_or("k=v")?;
        b = match k {
            "v" => b.set_writer_version(if v == "2" { WriterVersion::PARQUET_2_0 } else { WriterVersion::PARQUET_1_0 }),
            "enc" => {
                if v.contains('/') {
                    let es: Vec<&str> = v.split('/').collect();
                    if es.len() != paths.len() {
                        return Err(format!("{} encodings for {} leaves", es.len(), paths.len()));
                    }
                    for (e, p) in es.iter().zip(paths) {
                        if let Some(e) = enc_of(e)? {
                            b = b.set_column_encoding(p.clone(), e);
                        }
                    }
                    b
                } else {
                    match enc_of(v)? {
                        Some(e) => b.set_encoding(e),
                        None => b,
                    }
                }
            }
            "dict" => {
                if v.len() == 1 && paths.len() != 1 || v == "0" || v == "1" {
                    b.set_dictionary_enabled(v == "1")
                } else {
                    if v.len() != paths.len() {
                        return Err("dict flags vs leaves".into());
                    }
                    for (c, p) in v.chars().zip(paths) {
                        if c != '-' {
                            b = b.set_column_dictionary_enabled(p.clone(), c == '1');
                        }
                    }
                    b
                }
            }
            "dps" => b.set_dictionary_page_size_limit(us(v)?),
            "pg" => b.set_data_page_size_limit(us(v)?),
            "pr" => b.set_data_page_row_count_limit(us(v)?),
            "wb" => b.set_write_batch_size(us(v)?),
            "rg" => {
                rg = us(v)?;
                b.set_max_row_group_row_count(if rg == 0 { None } else { Some(rg) })
            }
            "rgb" => {
                let n = us(v)?;
                b.set_max_row_group_bytes(if n == 0 { None } else { Some(n) })
            }
            "comp" => {
                comp_name = v.to_string();
                b.set_compression(match v {
                "UNCOMPRESSED" => Compression::UNCOMPRESSED,
                "SNAPPY" => Compression::SNAPPY,
                "GZIP" => Compression::GZIP(GzipLevel::default()),
                "LZ4" => Compression::LZ4,
                "LZ4_RAW" => Compression::LZ4_RAW,
                "ZSTD" => Compression::ZSTD(ZstdLevel::default()),
                "BROTLI" => Compression::BROTLI(BrotliLevel::default()),
                c => return Err(format!("compression {}", c)),
            })
            }
            "stats" => b.set_statistics_enabled(match v {
                "none" => EnabledStatistics::None,
                "chunk" => EnabledStatistics::Chunk,
                "page" => EnabledStatistics::Page,
                c => return Err(format!("stats {}", c)),
            }),
            "bloom" => {
                let n = us(v)?;
                if n == 0 { b.set_bloom_filter_enabled(false) } else { b.set_bloom_filter_enabled(true).set_bloom_filter_max_ndv(n as u64) }
            }
            "cdc" => {
                if v == "0" {
                    b.set_content_defined_chunking(None)
                } else {
                    let p: Vec<&str> = v.split(':').collect();
                    if p.len() != 3 {
                        return Err("cdc=min:max:norm".into());
                    }
                    b.set_content_defined_chunking(Some(CdcOptions {
                        min_chunk_size: us(p[0])?,
                        max_chunk_size: us(p[1])?,
                        norm_level: p[2].parse().map_err(|_| "norm")?,
                    }))
                }
            }
            "par" => {
                par = us(v)?;
                b
            }
            "jo" => {
                jo = v.parse().map_err(|_| "jo")?;
                b
            }
            "x" => {
                // extra writer options that must not change what is read back
                let x = us(v)?;
                let mut b2 = b;
                if x & 1 != 0 {
                    b2 = b2.set_offset_index_disabled(true);
                }
                if x & 2 != 0 {
                    b2 = b2.set_bloom_filter_position(parquet::file::properties::BloomFilterPosition::End);
                }
                if x & 4 != 0 {
                    b2 = b2.set_column_index_truncate_length(Some(1 + (x >> 12) % 3));
                }
                if x & 8 != 0 {
                    b2 = b2.set_statistics_truncate_length(Some(1 + (x >> 12) % 5));
                }
                if x & 16 != 0 {
                    b2 = b2.set_write_page_header_statistics(true);
                }
                if x & 32 != 0 {
                    b2 = b2
                        .set_key_value_metadata(Some(vec![parquet::file::metadata::KeyValue::new("k".to_string(), Some("v".to_string()))]))
                        .set_created_by("verif".to_string());
                }
                if x & 64 != 0 {
                    b2 = b2.set_data_page_v2_compression_ratio_threshold(if x & 4096 != 0 { 100.0 } else { 0.01 });
                }
                if x & 128 != 0 {
                    b2 = b2.set_write_path_in_schema(false);
                }
                if x & 256 != 0 {
                    b2 = b2.set_write_row_group_number_distinct_values(true);
                }
                if x & 512 != 0 {
                    b2 = b2.set_bloom_filter_fpp(0.5);
                }
                if x & 2048 != 0 {
                    // per-column overrides on the first leaf
                    if let Some(p0) = paths.first() {
                        b2 = b2
                            .set_column_compression(p0.clone(), Compression::ZSTD(ZstdLevel::default()))
                            .set_column_statistics_enabled(p0.clone(), EnabledStatistics::Page)
                            .set_column_bloom_filter_enabled(p0.clone(), true)
                            .set_column_bloom_filter_max_ndv(p0.clone(), 10)
                            .set_column_data_page_size_limit(p0.clone(), 32)
                            .set_column_dictionary_page_size_limit(p0.clone(), 64)
                            .set_column_write_page_header_statistics(p0.clone(), true);
                    }
                }
                if x & 1024 != 0 {
                    b2 = b2.set_sorting_columns(Some(vec![parquet::file::metadata::SortingColumn { column_idx: 0, descending: false, nulls_first: false }]));
                }
                b2
            }
            "cl" => {
                // non-default compression level for the codec chosen by `comp` (must come after it)
                let l = us(v)? as u32;
                match comp_name.as_str() {
                    "GZIP" => b.set_compression(Compression::GZIP(GzipLevel::try_new(l % 10).map_err(es)?)),
                    "ZSTD" => b.set_compression(Compression::ZSTD(ZstdLevel::try_new(1 + (l % 9) as i32).map_err(es)?)),
                    "BROTLI" => b.set_compression(Compression::BROTLI(BrotliLevel::try_new(l % 5).map_err(es)?)),
                    _ => b,
                }
            }
            "fin" => {
                fin = us(v)?;
                b
            }
            "rd" => {
                rd = us(v)?;
                b
            }
            k => return Err(format!("unknown prop {}", k)),
        };
    }
    Ok(Props { wp: b.build(), par, jo, rg, fin, rd })
}

// ------------------------------------------------------------------------------------------
// plan

struct Plan {
    g: u64,
    s: usize,
    items: Vec<Option<usize>>, // Some(n) = write n rows, None = flush
}
fn parse_plan(s: &str) -> R<Plan> {
    let (head, items) = s.split_once(':').ok_or("plan")?;
    let head = head.strip_prefix('g').ok_or("plan g")?;
    let (g, sl) = head.split_once('s').ok_or("plan s")?;
    let mut out = vec![];
    if !items.is_empty() {
        for it in items.split(',') {
            out.push(if it == "f" { None } else { Some(it.parse::<usize>().map_err(|_| "plan item")?) });
        }
    }
    Ok(Plan { g: g.parse().map_err(|_| "g")?, s: sl.parse().map_err(|_| "s")?, items: out })
}

// ------------------------------------------------------------------------------------------
// the case

fn dump_batches(fields: &[FieldRef], batches: &[RecordBatch]) -> String {
    let mut o = String::new();
    for c in 0..fields.len() {
        if c > 0 {
            o.push(';');
        }
        o.push('[');
        let mut first = true;
        for b in batches {
            if b.num_rows() == 0 {
                continue;
            }
            if !first {
                o.push(',');
            }
            first = false;
            dump(b.column(c).as_ref(), 0, b.num_rows(), &mut o);
        }
        o.push(']');
    }
    o
}

fn schema_text(actual: &Schema, template: Option<&[Field]>) -> String {
    let mut parts = vec![];
    for (i, f) in actual.fields().iter().enumerate() {
        let a = s_field_top(f);
        let t = template.filter(|t| t.len() == actual.fields().len()).map(|t| &t[i]);
        match t {
            Some(t) if s_field_top(&back_field(t)) == a => parts.push(s_field_top(t)),
            _ => parts.push(a),
        }
    }
    parts.join(";")
}

/// build the input batches of the plan; returns (batches in write order interleaved with flushes)
enum Step {
    Write(RecordBatch),
    Flush,
}

fn build_steps(schema: &SchemaRef, cols: &[Vec<V>], plan: &Plan) -> R<Vec<Step>> {
    let nrows = cols.first().map(|c| c.len()).unwrap_or(0);
    if cols.iter().any(|c| c.len() != nrows) {
        return Err("ragged columns".into());
    }
    let total: usize = plan.items.iter().flatten().sum();
    if total != nrows {
        return Err(format!("plan covers {} rows, data has {}", total, nrows));
    }
    let mut cx = Cx::new(plan.g, plan.s as u64);
    let mut steps = vec![];
    let opts = |n: usize| RecordBatchOptions::new().with_row_count(Some(n));
    if plan.s > 0 {
        // one big batch with s junk rows in front and behind; every write is a slice of it
        let mut arrays = vec![];
        for (f, c) in schema.fields().iter().zip(cols) {
            let mut all: Vec<V> = Vec::with_capacity(nrows + 2 * plan.s);
            for _ in 0..plan.s {
                all.push(junk(f.data_type(), f.is_nullable(), &mut cx.rng));
            }
            all.extend(c.iter().cloned());
            for _ in 0..plan.s {
                all.push(junk(f.data_type(), f.is_nullable(), &mut cx.rng));
            }
            arrays.push(build(f.data_type(), &all, &mut cx)?);
        }
        let big = RecordBatch::try_new_with_options(schema.clone(), arrays, &opts(nrows + 2 * plan.s)).map_err(es)?;
        let mut at = plan.s;
        for it in &plan.items {
            match it {
                Some(n) => {
                    steps.push(Step::Write(big.slice(at, *n)));
                    at += n;
                }
                None => steps.push(Step::Flush),
            }
        }
    } else {
        let mut at = 0;
        for it in &plan.items {
            match it {
                Some(n) => {
                    let mut arrays = vec![];
                    for (f, c) in schema.fields().iter().zip(cols) {
                        arrays.push(build(f.data_type(), &c[at..at + n], &mut cx)?);
                    }
                    steps.push(Step::Write(RecordBatch::try_new_with_options(schema.clone(), arrays, &opts(*n)).map_err(es)?));
                    at += n;
                }
                None => steps.push(Step::Flush),
            }
        }
    }
    Ok(steps)
}

fn write_plain(schema: &SchemaRef, props: WriterProperties, steps: &[Step], fin: usize) -> Result<Vec<u8>, parquet::errors::ParquetError> {
    if fin == 2 {
        // `close()` consumes the writer: write through a borrowed buffer
        let mut buf: Vec<u8> = Vec::new();
        {
            let mut w = ArrowWriter::try_new(&mut buf, schema.clone(), Some(props))?;
            let mut rows = 0usize;
            for s in steps {
                match s {
                    Step::Write(b) => {
                        w.write(b)?;
                        rows += b.num_rows();
                    }
                    Step::Flush => w.flush()?,
                }
            }
            // accessor consistency on the way
            let flushed: i64 = w.flushed_row_groups().iter().map(|r| r.num_rows()).sum();
            if flushed as usize + w.in_progress_rows() != rows {
                return Err(parquet::errors::ParquetError::General("row accounting".into()));
            }
            let md = w.close()?;
            if md.file_metadata().num_rows() as usize != rows {
                return Err(parquet::errors::ParquetError::General("row accounting".into()));
            }
        }
        return Ok(buf);
    }
    let mut w = ArrowWriter::try_new(Vec::new(), schema.clone(), Some(props))?;
    for s in steps {
        match s {
            Step::Write(b) => w.write(b)?,
            Step::Flush => w.flush()?,
        }
    }
    if fin == 1 {
        w.append_key_value_metadata(parquet::file::metadata::KeyValue::new("late".to_string(), None));
        w.finish()?;
        // after `finish` the footer is written; `into_inner` would try to write it again
        return Ok(w.inner().clone());
    }
    w.into_inner()
}

/// low level API: leaf columns of every row group are encoded on `par` threads
fn write_par(schema: &SchemaRef, p: &Props, steps: &[Step]) -> Result<Vec<u8>, parquet::errors::ParquetError> {
    // ArrowWriter embeds the arrow schema and hands out the file writer + factory
    let w = ArrowWriter::try_new(Vec::new(), schema.clone(), Some(p.wp.clone()))?;
    let (mut fw, factory) = w.into_serialized_writer()?;
    // row groups = runs of batches between flushes, split at the row limit like ArrowWriter::write
    let mut groups: Vec<Vec<RecordBatch>> = vec![];
    let mut cur: Vec<RecordBatch> = vec![];
    let mut cur_rows = 0usize;
    for s in steps {
        match s {
            Step::Flush => {
                if cur_rows > 0 {
                    groups.push(std::mem::take(&mut cur));
                    cur_rows = 0;
                }
            }
            Step::Write(b) => {
                let mut rest = b.clone();
                while rest.num_rows() > 0 {
                    let room = if p.rg == 0 { usize::MAX } else { p.rg - cur_rows };
                    let take = rest.num_rows().min(room);
                    cur.push(rest.slice(0, take));
                    cur_rows += take;
                    rest = rest.slice(take, rest.num_rows() - take);
                    if p.rg != 0 && cur_rows >= p.rg {
                        groups.push(std::mem::take(&mut cur));
                        cur_rows = 0;
                    }
                }
            }
        }
    }
    if cur_rows > 0 {
        groups.push(cur);
    }
    let mut jrng = Rng::new(p.jo ^ 0x6a6f);
    for (gi, group) in groups.iter().enumerate() {
        let writers = factory.create_column_writers(gi)?;
        let nleaf = writers.len();
        // leaf columns per writer, in batch order
        let mut work: Vec<Vec<ArrowLeafColumn>> = (0..nleaf).map(|_| vec![]).collect();
        for b in group {
            let mut li = 0;
            for (f, a) in schema.fields().iter().zip(b.columns()) {
                for leaf in compute_leaves(f, a)? {
                    work[li].push(leaf);
                    li += 1;
                }
            }
            assert_eq!(li, nleaf, "leaf count");
        }
        let nthreads = p.par.min(nleaf).max(1);
        let mut per_thread: Vec<Vec<(usize, parquet::arrow::arrow_writer::ArrowColumnWriter, Vec<ArrowLeafColumn>)>> = (0..nthreads).map(|_| vec![]).collect();
        for (i, (w, l)) in writers.into_iter().zip(work).enumerate() {
            per_thread[i % nthreads].push((i, w, l));
        }
        let mut handles: Vec<_> = per_thread
            .into_iter()
            .map(|jobs| {
                std::thread::spawn(move || -> Result<Vec<(usize, ArrowColumnChunk)>, parquet::errors::ParquetError> {
                    let mut out = vec![];
                    for (i, mut w, leaves) in jobs {
                        for l in &leaves {
                            w.write(l)?;
                        }
                        out.push((i, w.close()?));
                    }
                    Ok(out)
                })
            })
            .collect();
        let mut chunks: Vec<Option<ArrowColumnChunk>> = (0..nleaf).map(|_| None).collect();
        while !handles.is_empty() {
            let h = handles.swap_remove(jrng.usize(handles.len()));
            match h.join() {
                Ok(r) => {
                    for (i, c) in r? {
                        chunks[i] = Some(c);
                    }
                }
                Err(e) => std::panic::resume_unwind(e),
            }
        }
        let mut rgw = fw.next_row_group()?;
        for c in chunks {
            c.expect("chunk").append_to_row_group(&mut rgw)?;
        }
        rgw.close()?;
    }
    fw.into_inner()
}

/// error class only; the message goes to stderr when C05_DEBUG is set
fn dbg(class: &str, msg: &str) -> String {
    if std::env::var_os("C05_DEBUG").is_some() {
        eprintln!("{}: {}", class, msg);
    }
    class.to_string()
}

pub fn run_e2e(toks: &[&str]) -> String {
    if toks.len() != 7 {
        return "ERR:parse".into();
    }
    let parsed = (|| -> R<_> {
        let fields = p_schema(toks[5])?;
        let cols = p_data(toks[6])?;
        if cols.len() != fields.len() {
            return Err("column count".into());
        }
        let plan = parse_plan(toks[3])?;
        let rbs: usize = toks[4].parse().map_err(|_| "rbs")?;
        if rbs == 0 {
            return Err("rbs".into());
        }
        Ok((fields, cols, plan, rbs))
    })();
    let (fields, cols, plan, rbs) = match parsed {
        Ok(x) => x,
        Err(_) => return "ERR:parse".into(),
    };
    let want = format!("{} {}", toks[5], toks[6]);
    let props_s = toks[2].to_string();
    guarded(move || {
        let schema: SchemaRef = Arc::new(Schema::new(fields.clone()));
        // input arrays; their dump must reproduce the case line before anything is written
        let steps = match build_steps(&schema, &cols, &plan) {
            Ok(s) => s,
            Err(e) => return dbg("ERR:build", &e),
        };
        let inputs: Vec<RecordBatch> = steps.iter().filter_map(|s| if let Step::Write(b) = s { Some(b.clone()) } else { None }).collect();
        let pre = format!("{} {}", schema_text(&schema, None), dump_batches(schema.fields(), &inputs));
        if pre != want {
            return dbg("ERR:build", &format!("dump of the built input differs: {}", pre));
        }
        // leaf paths for per-column properties
        let paths: Vec<ColumnPath> = match ArrowSchemaConverter::new().convert(&schema) {
            Ok(d) => d.columns().iter().map(|c| c.path().clone()).collect(),
            Err(_) => return "ERR:write".into(),
        };
        let props = match parse_props(&props_s, &paths) {
            Ok(p) => p,
            Err(_) => return "ERR:parse".into(),
        };
        let bytes = if props.par == 0 { write_plain(&schema, props.wp.clone(), &steps, props.fin) } else { write_par(&schema, &props, &steps) };
        let bytes = match bytes {
            Ok(b) => bytes::Bytes::from(b),
            Err(e) => return dbg("ERR:write", &e.to_string()),
        };
        let rd = (|| -> Result<(SchemaRef, Vec<RecordBatch>), String> {
            if props.rd == 1 {
                // the short-cut constructor
                let reader = parquet::arrow::arrow_reader::ParquetRecordBatchReader::try_new(bytes, rbs).map_err(es)?;
                let sch = reader.schema();
                let mut out = vec![];
                for x in reader {
                    out.push(x.map_err(es)?);
                }
                return Ok((sch, out));
            }
            let b = if props.rd == 2 {
                let o = parquet::arrow::arrow_reader::ArrowReaderOptions::new().with_page_index_policy(parquet::file::metadata::PageIndexPolicy::Optional);
                ParquetRecordBatchReaderBuilder::try_new_with_options(bytes, o).map_err(es)?
            } else {
                ParquetRecordBatchReaderBuilder::try_new(bytes).map_err(es)?
            };
            let sch = b.schema().clone();
            let reader = b.with_batch_size(rbs).build().map_err(es)?;
            let mut out = vec![];
            for x in reader {
                out.push(x.map_err(es)?);
            }
            Ok((sch, out))
        })();
        let (sch, batches) = match rd {
            Ok(x) => x,
            Err(e) => return dbg("ERR:read", &e),
        };
        for b in &batches {
            if b.schema().fields() != sch.fields() || b.num_rows() > rbs {
                return "ERR:read".into();
            }
        }
        format!("{} {}", schema_text(&sch, Some(&fields)), dump_batches(sch.fields(), &batches))
    })
}

// ------------------------------------------------------------------------------------------
// generator

fn has_null(v: &V) -> bool {
    match v {
        V::N => true,
        V::L(xs) | V::S(xs) => xs.iter().any(has_null),
        _ => false,
    }
}

fn gen_decimal(rng: &mut Rng) -> DataType {
    let w = rng.below(4);
    let maxp = [9, 18, 38, 76][w as usize];
    let p = if rng.chance(1, 2) {
        let b: Vec<i64> = [1, 2, 9, 10, 18, 19, 38, 39, 76].into_iter().filter(|x| *x <= maxp).collect();
        *rng.pick(&b)
    } else {
        rng.range(1, maxp)
    } as u8;
    let s = if rng.chance(1, 3) { 0 } else { rng.range(0, p as i64) } as i8;
    match w {
        0 => DataType::Decimal32(p, s),
        1 => DataType::Decimal64(p, s),
        2 => DataType::Decimal128(p, s),
        _ => DataType::Decimal256(p, s),
    }
}

fn gen_unit(rng: &mut Rng) -> TimeUnit {
    *rng.pick(&[TimeUnit::Second, TimeUnit::Millisecond, TimeUnit::Microsecond, TimeUnit::Nanosecond])
}

fn gen_leaf_type(rng: &mut Rng) -> DataType {
    match rng.below(44) {
        0 | 1 => DataType::Boolean,
        2 => DataType::Int8,
        3 => DataType::Int16,
        4 | 5 => DataType::Int32,
        6 | 7 => DataType::Int64,
        8 => DataType::UInt8,
        9 => DataType::UInt16,
        10 => DataType::UInt32,
        11 => DataType::UInt64,
        12 => DataType::Float16,
        13 => DataType::Float32,
        14 | 15 => DataType::Float64,
        16 => DataType::Date32,
        17 => DataType::Date64,
        18 => DataType::Time32(if rng.bool() { TimeUnit::Second } else { TimeUnit::Millisecond }),
        19 => DataType::Time64(if rng.bool() { TimeUnit::Microsecond } else { TimeUnit::Nanosecond }),
        20 | 21 => {
            let tz = match rng.below(5) {
                0 => Some("UTC"),
                1 => Some("+01:00"),
                2 => Some("Africa/Johannesburg"),
                _ => None,
            };
            DataType::Timestamp(gen_unit(rng), tz.map(Arc::<str>::from))
        }
        22 => DataType::Duration(gen_unit(rng)),
        23 => DataType::Interval(if rng.bool() { IntervalUnit::YearMonth } else { IntervalUnit::DayTime }),
        24..=27 => gen_decimal(rng),
        28..=31 => DataType::Utf8,
        32 => DataType::LargeUtf8,
        33 | 34 => DataType::Utf8View,
        35 | 36 => DataType::Binary,
        37 => DataType::LargeBinary,
        38 | 39 => DataType::BinaryView,
        40 | 41 => DataType::FixedSizeBinary(*rng.pick(&[0, 1, 2, 3, 4, 7, 16, 33])),
        _ => DataType::Int32,
    }
}

fn gen_int_type(rng: &mut Rng) -> DataType {
    rng.pick(&[DataType::Int8, DataType::Int16, DataType::Int32, DataType::Int64, DataType::UInt8, DataType::UInt16, DataType::UInt32, DataType::UInt64]).clone()
}

fn gen_elem(rng: &mut Rng, default_name: &str, alts: &[&str], depth: u32) -> FieldRef {
    let name = if rng.chance(3, 4) { default_name } else { *rng.pick(alts) };
    Arc::new(Field::new(name, gen_type(rng, depth + 1), rng.chance(2, 3)))
}

fn gen_type(rng: &mut Rng, depth: u32) -> DataType {
    let leaf_bias = match depth {
        0 => 45,
        1 => 60,
        2 => 80,
        _ => 100,
    };
    if rng.below(100) < leaf_bias {
        return gen_leaf_type(rng);
    }
    match rng.below(44) {
        0..=9 => DataType::Dictionary(Box::new(gen_int_type(rng)), Box::new(gen_leaf_type(rng))),
        10..=19 => {
            let k = 1 + rng.below(3) as usize;
            let fs: Vec<Field> = (0..k).map(|i| Field::new(["a", "b", "c"][i], gen_type(rng, depth + 1), rng.chance(2, 3))).collect();
            DataType::Struct(fs.into())
        }
        20..=27 => DataType::List(gen_elem(rng, "item", &["element", "e"], depth)),
        28..=30 => DataType::LargeList(gen_elem(rng, "item", &["element", "e"], depth)),
        31..=33 => DataType::ListView(gen_elem(rng, "item", &["element", "e"], depth)),
        34 => DataType::LargeListView(gen_elem(rng, "item", &["element", "e"], depth)),
        35..=37 => DataType::FixedSizeList(gen_elem(rng, "item", &["element", "e"], depth), *rng.pick(&[0, 1, 2, 3, 5])),
        38..=41 => {
            // map keys: non-null leaf
            let kname = if rng.chance(3, 4) { "key" } else { "keys" };
            let vname = if rng.chance(3, 4) { "value" } else { "values" };
            let k = Field::new(kname, gen_leaf_type(rng), false);
            let v = Field::new(vname, gen_type(rng, depth + 1), rng.chance(2, 3));
            DataType::Map(Arc::new(Field::new("entries", DataType::Struct(vec![k, v].into()), false)), false)
        }
        _ => {
            let r = rng.pick(&[DataType::Int16, DataType::Int32, DataType::Int64]).clone();
            // flat values only: the reader gives nested ree back without the arrow hint (see report)
            let v = Field::new("values", gen_leaf_type(rng), rng.chance(2, 3));
            DataType::RunEndEncoded(Arc::new(Field::new("run_ends", r, false)), Arc::new(v))
        }
    }
}

/// Known findings of this check (arrow-rs fails the round trip).  The shapes stay in the default
/// stream; a case whose line shows the triggering shape is tagged `kf:<name>` (a pure function of
/// the case line, so corpus / replay lines get the same tags) and `known_findings.txt` maps the tag
/// to the finding.  Any failure on an untagged case is a new violation.
///  * kf:dict-view-values-write-panic      Dictionary values Utf8View / BinaryView
///  * kf:fsb0-write-panic                  FixedSizeBinary(0) anywhere
///  * kf:dict-unsupported-values-read-err  Dictionary values Float16 / Interval / Decimal(p > 18)
/// Repaired findings keep a `shape:` histogram tag (dict-bool, dict-fsb-plain-page,
/// cdc-listview-unordered, cdc-bool-rle); it suppresses nothing.
#[derive(Default)]
struct Shapes {
    dict_view: bool,
    fsb0: bool,
    dict_unsupported: bool,
    dict_bool: bool,
    dict_fsb: bool,
    listview: bool,
    boolean: bool,
}
fn shapes(dt: &DataType, sh: &mut Shapes) {
    match dt {
        DataType::FixedSizeBinary(0) => sh.fsb0 = true,
        DataType::Boolean => sh.boolean = true,
        DataType::Dictionary(_, v) => {
            match v.as_ref() {
                DataType::Utf8View | DataType::BinaryView => sh.dict_view = true,
                DataType::Float16 | DataType::Interval(_) => sh.dict_unsupported = true,
                DataType::Decimal32(p, _) | DataType::Decimal64(p, _) | DataType::Decimal128(p, _) | DataType::Decimal256(p, _) if *p > 18 => sh.dict_unsupported = true,
                DataType::Boolean => sh.dict_bool = true,
                DataType::FixedSizeBinary(_) => sh.dict_fsb = true,
                _ => {}
            }
            shapes(v, sh)
        }
        DataType::Struct(fs) => fs.iter().for_each(|f| shapes(f.data_type(), sh)),
        DataType::ListView(f) | DataType::LargeListView(f) => {
            sh.listview = true;
            shapes(f.data_type(), sh)
        }
        DataType::List(f) | DataType::LargeList(f) | DataType::FixedSizeList(f, _) | DataType::Map(f, _) => shapes(f.data_type(), sh),
        DataType::RunEndEncoded(_, v) => shapes(v.data_type(), sh),
        _ => {}
    }
}

/// `kf:` tags of an e2e case line (`toks` = the line split on spaces)
pub fn kf_tags(toks: &[&str]) -> Vec<String> {
    let mut out = vec![];
    if toks.len() != 7 {
        return out;
    }
    let fields = match p_schema(toks[5]) {
        Ok(f) => f,
        Err(_) => return out,
    };
    let mut sh = Shapes::default();
    for f in &fields {
        shapes(f.data_type(), &mut sh);
    }
    let mut kv: HashMap<&str, &str> = HashMap::new();
    for p in toks[2].split(',') {
        if let Some((k, v)) = p.split_once('=') {
            kv.insert(k, v);
        }
    }
    let num = |k: &str, d: usize| kv.get(k).and_then(|v| v.parse::<usize>().ok()).unwrap_or(d);
    let plan = toks[3];
    let (head, items) = plan.split_once(':').unwrap_or((plan, ""));
    let garbage = !head.starts_with("g0s");
    let sizes: Vec<usize> = items.split(',').filter_map(|x| x.parse::<usize>().ok()).collect();
    let n: usize = sizes.iter().sum();
    let has_flush = items.split(',').any(|x| x == "f");
    let cdc = kv.get("cdc").map(|v| *v != "0").unwrap_or(false);
    let v2 = kv.get("v").map(|v| *v == "2").unwrap_or(false);
    let enc = kv.get("enc").copied().unwrap_or("-");
    if sh.dict_view {
        out.push("kf:dict-view-values-write-panic".into());
    }
    if sh.fsb0 {
        out.push("kf:fsb0-write-panic".into());
    }
    if sh.dict_unsupported {
        out.push("kf:dict-unsupported-values-read-err".into());
    }
    if sh.dict_bool {
        out.push("shape:dict-bool".into());
    }
    if sh.dict_fsb {
        let dict_on = kv.get("dict").map(|v| *v == "1").unwrap_or(true);
        let rg = num("rg", 0);
        let single_rg = (rg == 0 || n <= rg) && num("rgb", 0) == 0 && !has_flush;
        // a chunk without any non-null value has no dictionary page either
        let cols: Vec<&str> = toks[6].split(';').collect();
        let mut empty_chunk = false;
        for (f, c) in fields.iter().zip(cols.iter()) {
            let mut fs = Shapes::default();
            shapes(f.data_type(), &mut fs);
            if fs.dict_fsb {
                let mut t = String::new();
                s_type(f.data_type(), &mut t);
                let byte_leaves = t.matches("utf8").count() + t.matches("binary").count() + t.matches("fsb(").count();
                empty_chunk |= !c.contains('x') || (byte_leaves > 1 && c.contains('n'));
            }
        }
        if !(dict_on && num("dps", 1 << 20) >= 1 << 20 && single_rg) || empty_chunk {
            out.push("shape:dict-fsb-plain-page".into());
        }
    }
    if cdc && sh.listview && garbage {
        out.push("shape:cdc-listview-unordered".into());
    }
    if cdc && sh.boolean && (v2 || enc.contains("RLE")) {
        out.push("shape:cdc-bool-rle".into());
    }
    out
}

/// types the generator must not produce (writer rejects them by design / documented gaps)
fn type_ok(dt: &DataType, top: bool) -> bool {
    match dt {
        DataType::Struct(fs) => !fs.is_empty() && fs.iter().all(|f| type_ok(f.data_type(), false)),
        DataType::List(f) | DataType::LargeList(f) | DataType::ListView(f) | DataType::LargeListView(f) | DataType::FixedSizeList(f, _) => type_ok(f.data_type(), false),
        DataType::Map(e, _) => type_ok(e.data_type(), false),
        DataType::RunEndEncoded(_, v) => top && type_ok(v.data_type(), false),
        DataType::Dictionary(_, v) => type_ok(v, false),
        _ => true,
    }
}

fn pow10(p: u8) -> i128 {
    10i128.pow(p.min(38) as u32)
}

fn int_range(dt: &DataType) -> Option<(i128, i128)> {
    Some(match dt {
        DataType::Int8 => (i8::MIN as i128, i8::MAX as i128),
        DataType::Int16 => (i16::MIN as i128, i16::MAX as i128),
        DataType::Int32 | DataType::Date32 | DataType::Time32(_) | DataType::Interval(IntervalUnit::YearMonth) => (i32::MIN as i128, i32::MAX as i128),
        DataType::Int64 | DataType::Date64 | DataType::Time64(_) | DataType::Timestamp(_, _) | DataType::Duration(_) => (i64::MIN as i128, i64::MAX as i128),
        DataType::UInt8 => (0, u8::MAX as i128),
        DataType::UInt16 => (0, u16::MAX as i128),
        DataType::UInt32 => (0, u32::MAX as i128),
        DataType::UInt64 => (0, u64::MAX as i128),
        DataType::Decimal32(p, _) | DataType::Decimal64(p, _) | DataType::Decimal128(p, _) | DataType::Decimal256(p, _) => (-(pow10(*p) - 1), pow10(*p) - 1),
        _ => return None,
    })
}

const STRS: &[&str] = &[
    "",
    "a",
    "b",
    "ab",
    "abc",
    "twelve bytes",
    "thirteen byte",
    "eleven byte",
    "a string that is longer than twelve bytes",
    "a string that is longer than twelve bytes, and then some",
    "prefix/shared/0001",
    "prefix/shared/0002",
    "prefix/shared/0002/x",
    "prefix/other",
    "\u{e9}t\u{e9}",
    "\u{65e5}\u{672c}\u{8a9e}\u{306e}\u{30c6}\u{30ad}\u{30b9}\u{30c8}",
    "\u{1F600}",
    "zzzzzzzzzzzzzzzzzzzzzzzzzzzzzzzzzzzzzzzzzzzzzzzzzzzzzzzzzzzzzzzzzzzzzzzzzzzzzzzzzzzzzzzz",
];

fn rand_leaf(dt: &DataType, rng: &mut Rng) -> V {
    if let Some((lo, hi)) = int_range(dt) {
        if let DataType::Decimal256(p, _) = dt {
            if *p > 38 && rng.chance(1, 3) {
                let nines = "9".repeat(*p as usize);
                let s = if rng.bool() { nines } else { format!("-{}", nines) };
                return V::W(i256::from_string(&s).unwrap());
            }
        }
        return V::I(match rng.below(10) {
            0 => lo,
            1 => hi,
            2 => 0,
            3 => (-1i128).max(lo),
            4 => 1.min(hi),
            5 | 6 => (rng.range(-130, 130) as i128).clamp(lo, hi),
            7 => (rng.range(-70000, 70000) as i128).clamp(lo, hi),
            _ => {
                let span = (hi - lo) as u128 + 1;
                let r = ((rng.next_u64() as u128) << 64 | rng.next_u64() as u128) % span;
                lo + r as i128
            }
        });
    }
    match dt {
        DataType::Boolean => V::I(rng.below(2) as i128),
        DataType::Float16 => V::I(*rng.pick(&[0u16, 0x8000, 0x7e00, 0x7e01, 0xfe55, 0x7c01, 0x7c00, 0xfc00, 1, 0x7bff, 0x3c00, 0xbc00, 0x4248]) as i128 ^ if rng.chance(1, 4) { rng.below(1 << 16) as i128 } else { 0 }),
        DataType::Float32 => V::I(
            *rng.pick(&[0u32, 0x8000_0000, 0x7fc0_0000, 0x7fc0_0001, 0xffc1_2345, 0x7f80_0001, 0x7f80_0000, 0xff80_0000, 1, 0x7f7f_ffff, 0x3f80_0000, 0xbf80_0000, 0x4049_0fdb]) as i128
                ^ if rng.chance(1, 4) { rng.below(1 << 32) as i128 } else { 0 },
        ),
        DataType::Float64 => V::I(
            *rng.pick(&[
                0u64,
                0x8000_0000_0000_0000,
                0x7ff8_0000_0000_0000,
                0x7ff8_0000_0000_0001,
                0xfff8_dead_beef_0001,
                0x7ff0_0000_0000_0001,
                0x7ff0_0000_0000_0000,
                0xfff0_0000_0000_0000,
                1,
                0x7fef_ffff_ffff_ffff,
                0x3ff0_0000_0000_0000,
                0xbff0_0000_0000_0000,
                0x4009_21fb_5444_2d18,
            ]) as i128
                ^ if rng.chance(1, 4) { rng.next_u64() as i128 } else { 0 },
        ),
        DataType::Interval(IntervalUnit::DayTime) => {
            let p = |rng: &mut Rng| V::I(*rng.pick(&[0i128, 1, -1, 30, 86_399_999, i32::MAX as i128, i32::MIN as i128, 12345]));
            V::S(vec![p(rng), p(rng)])
        }
        DataType::Utf8 | DataType::LargeUtf8 | DataType::Utf8View => {
            if rng.chance(1, 6) {
                V::B(format!("prefix/shared/{:05}", rng.below(300)).into_bytes())
            } else {
                V::B(rng.pick(STRS).as_bytes().to_vec())
            }
        }
        DataType::Binary | DataType::LargeBinary | DataType::BinaryView => match rng.below(6) {
            0 => V::B(vec![]),
            1 => V::B(vec![0xff, 0xfe, 0x00, 0x80]),
            2 => V::B(rng.pick(STRS).as_bytes().to_vec()),
            3 => V::B(vec![0; rng.usize(20)]),
            _ => {
                let n = rng.usize(30);
                V::B(rng.bytes(n))
            }
        },
        DataType::FixedSizeBinary(n) => {
            let n = *n as usize;
            match rng.below(4) {
                0 => V::B(vec![0; n]),
                1 => V::B(vec![0xff; n]),
                _ => V::B(rng.bytes(n)),
            }
        }
        _ => V::I(0),
    }
}

/// n non-null leaf values with some structure (pool / runs / monotone / iid)
fn gen_leaf_col(dt: &DataType, n: usize, rng: &mut Rng, max_card: usize) -> Vec<V> {
    let mut pattern = rng.below(10);
    if max_card < usize::MAX && pattern >= 4 {
        pattern %= 4; // dictionary columns: bounded cardinality
    }
    match pattern {
        // small pool, iid
        0 | 1 => {
            let k = (1 + rng.usize(6)).min(max_card);
            let pool: Vec<V> = (0..k).map(|_| rand_leaf(dt, rng)).collect();
            (0..n).map(|_| rng.pick(&pool).clone()).collect()
        }
        // runs
        2 | 3 => {
            let k = (1 + rng.usize(5)).min(max_card);
            let pool: Vec<V> = (0..k).map(|_| rand_leaf(dt, rng)).collect();
            let long = rng.chance(1, 3);
            let mut out = Vec::with_capacity(n);
            while out.len() < n {
                let len = if long { 1 + rng.usize(700) } else { 1 + rng.usize(20) };
                let v = rng.pick(&pool).clone();
                for _ in 0..len.min(n - out.len()) {
                    out.push(v.clone());
                }
            }
            out
        }
        // monotone / sequential
        4 | 5 => {
            if let Some((lo, hi)) = int_range(dt) {
                let step = *rng.pick(&[1i128, 1, 2, 3, 7, 1000, -1, -5, 1 << 33]);
                let span = step.abs() * n as i128;
                let mut start = *rng.pick(&[0i128, 1, -100, 1 << 31, lo, hi]);
                if step > 0 {
                    start = start.clamp(lo, (hi - span).max(lo));
                } else {
                    start = start.clamp((lo + span).min(hi), hi);
                }
                (0..n).map(|i| V::I((start + step * i as i128).clamp(lo, hi))).collect()
            } else if matches!(dt, DataType::Utf8 | DataType::LargeUtf8 | DataType::Utf8View | DataType::Binary | DataType::LargeBinary | DataType::BinaryView) {
                let pre = *rng.pick(&["", "k", "common-prefix-longer-than-12/"]);
                (0..n).map(|i| V::B(format!("{}{:04}", pre, i).into_bytes())).collect()
            } else {
                (0..n).map(|_| rand_leaf(dt, rng)).collect()
            }
        }
        _ => (0..n).map(|_| rand_leaf(dt, rng)).collect(),
    }
}

/// replace some values by nulls
fn apply_nulls(vals: &mut [V], nullable: bool, rng: &mut Rng) {
    if !nullable || vals.is_empty() {
        return;
    }
    let (num, den) = match rng.below(20) {
        0..=4 => return,
        5..=10 => (1, 10),
        11..=13 => (1, 2),
        14..=17 => (9, 10),
        _ => (1, 1),
    };
    if rng.chance(1, 4) {
        // runs of nulls
        let mut i = 0;
        while i < vals.len() {
            let len = 1 + rng.usize(12);
            if rng.chance(num, den) {
                for v in vals.iter_mut().skip(i).take(len) {
                    *v = V::N;
                }
            }
            i += len;
        }
    } else {
        for v in vals.iter_mut() {
            if rng.chance(num, den) {
                *v = V::N;
            }
        }
    }
}

fn gen_lens(n: usize, rng: &mut Rng, budget: usize) -> Vec<usize> {
    let mode = rng.below(6);
    let mut left = budget;
    (0..n)
        .map(|_| {
            let l = match mode {
                0 => 0,
                1 => rng.usize(2),
                2 | 3 => *rng.pick(&[0, 0, 1, 1, 2, 3, 4]),
                4 => {
                    if rng.chance(1, 8) {
                        rng.usize(25)
                    } else {
                        rng.usize(3)
                    }
                }
                _ => 1,
            };
            let l = l.min(left);
            left -= l;
            l
        })
        .collect()
}

fn gen_col(f: &Field, n: usize, rng: &mut Rng) -> Vec<V> {
    let dt = f.data_type();
    let split = |flat: Vec<V>, lens: &[usize]| -> Vec<V> {
        let mut it = flat.into_iter();
        lens.iter().map(|l| V::L(it.by_ref().take(*l).collect())).collect()
    };
    let mut out: Vec<V> = match dt {
        DataType::Struct(fs) => {
            let cols: Vec<Vec<V>> = fs.iter().map(|c| gen_col(c, n, rng)).collect();
            (0..n).map(|i| V::S(cols.iter().map(|c| c[i].clone()).collect())).collect()
        }
        DataType::List(e) | DataType::LargeList(e) | DataType::ListView(e) | DataType::LargeListView(e) => {
            let lens = gen_lens(n, rng, 2 * n + 40);
            let flat = gen_col(e, lens.iter().sum(), rng);
            split(flat, &lens)
        }
        DataType::FixedSizeList(e, w) => {
            let lens = vec![*w as usize; n];
            let flat = gen_col(e, n * *w as usize, rng);
            split(flat, &lens)
        }
        DataType::Map(e, _) => {
            let DataType::Struct(kv) = e.data_type() else { unreachable!() };
            let lens = gen_lens(n, rng, 2 * n + 40);
            let m = lens.iter().sum();
            let ks = gen_col(&kv[0], m, rng);
            let vs = gen_col(&kv[1], m, rng);
            split(ks.into_iter().zip(vs).map(|(k, v)| V::S(vec![k, v])).collect(), &lens)
        }
        DataType::Dictionary(_, v) => gen_leaf_col(v, n, rng, 12),
        DataType::RunEndEncoded(_, v) => {
            let mut vals = gen_leaf_col(v.data_type(), n, rng, 6);
            apply_nulls(&mut vals, v.is_nullable() && f.is_nullable(), rng);
            return vals;
        }
        DataType::Null => return vec![V::N; n],
        _ => gen_leaf_col(dt, n, rng, usize::MAX),
    };
    apply_nulls(&mut out, f.is_nullable(), rng);
    out
}

fn kind_of(dt: &DataType) -> &'static str {
    match dt {
        DataType::Boolean => "bool",
        DataType::Null => "null",
        DataType::Int8 | DataType::Int16 | DataType::Int32 | DataType::Int64 | DataType::UInt8 | DataType::UInt16 | DataType::UInt32 | DataType::UInt64 => "int",
        DataType::Float16 | DataType::Float32 | DataType::Float64 => "float",
        DataType::Date32 | DataType::Date64 | DataType::Time32(_) | DataType::Time64(_) | DataType::Timestamp(_, _) | DataType::Duration(_) | DataType::Interval(_) => "temporal",
        DataType::Decimal32(_, _) | DataType::Decimal64(_, _) | DataType::Decimal128(_, _) | DataType::Decimal256(_, _) => "decimal",
        DataType::Utf8 | DataType::LargeUtf8 => "string",
        DataType::Binary | DataType::LargeBinary => "binary",
        DataType::Utf8View | DataType::BinaryView => "view",
        DataType::FixedSizeBinary(_) => "fsb",
        DataType::Dictionary(_, _) => "dict",
        DataType::Struct(_) => "struct",
        DataType::List(_) => "list",
        DataType::LargeList(_) => "largelist",
        DataType::ListView(_) | DataType::LargeListView(_) => "listview",
        DataType::FixedSizeList(_, _) => "fsl",
        DataType::Map(_, _) => "map",
        DataType::RunEndEncoded(_, _) => "ree",
        _ => "other",
    }
}

fn gen_enc(ph: Ph, rng: &mut Rng) -> &'static str {
    if rng.chance(1, 3) {
        return "-";
    }
    let opts: &[&str] = match ph {
        Ph::Bool => &["PLAIN", "RLE"],
        Ph::I32 | Ph::I64 => &["PLAIN", "DBP", "BSS"],
        Ph::F32 | Ph::F64 => &["PLAIN", "BSS"],
        Ph::Ba => &["PLAIN", "DLBA", "DBA"],
        Ph::Flba => &["PLAIN", "BSS", "DBA"],
    };
    *rng.pick(opts)
}

pub fn gen_e2e(rng: &mut Rng, thorough: bool) -> (String, String) {
    gen_e2e_with(rng, thorough, None, None, "")
}

/// the dense block: a fixed matrix of schemas x row counts on block / buffer boundaries x writer
/// configurations, generated in every run (data, plan and reader batch size from a fixed seed)
pub fn dense_e2e() -> Vec<(String, String)> {
    let schemas = [
        "c0:i32?", "c0:i64", "c0:bool?", "c0:f64?", "c0:utf8?", "c0:utf8view?", "c0:binaryview", "c0:largeutf8?", "c0:fsb(3)?",
        "c0:dec128(20,2)?", "c0:dict(i8,utf8)?", "c0:dict(i32,i64)?", "c0:list<i32?>?", "c0:list<utf8view?>", "c0:largelist<item:i64>?",
        "c0:fsl(2)<i32?>?", "c0:map<utf8,i32?>?", "c0:struct{a:i32?,b:list<utf8?>?}?", "c0:list<list<i32?>?>?", "c0:listview<i32?>?",
        "c0:ree(i32)<utf8?>", "c0:null?", "c0:f16?", "c0:interval(dt)?", "c0:ts(ns,UTC)?",
    ];
    let sizes = [0usize, 1, 7, 8, 9, 63, 64, 65, 127, 128, 129, 255, 256, 257, 503, 504, 505, 1023, 1024, 1025];
    let props = [
        "v=1,dict=1",
        "v=2,dict=0",
        "v=2,dict=1,dps=24,rg=64",         // dictionary fallback mid-chunk, several row groups
        "v=1,dict=0,pg=64,pr=20000,wb=8",  // many small pages
        "v=2,dict=1,pr=1,rg=100",          // one row per page
        "v=1,dict=1,rg=1",                 // one row per row group (small sizes only)
    ];
    let mut out = vec![];
    let mut k = 0u64;
    for (si, sch) in schemas.iter().enumerate() {
        for (ni, n) in sizes.iter().enumerate() {
            // every schema meets every size; the configuration rotates
            let pi = (si + ni) % props.len();
            if (props[pi].contains("rg=1") && !props[pi].contains("rg=100") && *n > 65) || (props[pi].contains("pr=1") && *n > 300) {
                continue;
            }
            k += 1;
            let mut rng = Rng::new(0xD0C5 ^ (k << 8));
            let (line, tags) = gen_e2e_with(&mut rng, false, Some(*n), Some(sch), props[pi]);
            out.push((line, format!("{} dense", tags)));
        }
    }
    out
}

fn gen_e2e_with(rng: &mut Rng, thorough: bool, force_n: Option<usize>, force_schema: Option<&str>, force_props: &str) -> (String, String) {
    // rows
    let n: usize = if let Some(n) = force_n { n } else { match rng.below(100) {
        0..=2 => 0,
        3..=7 => 1,
        8..=47 => 2 + rng.usize(19),
        48..=84 => 21 + rng.usize(40),
        85..=96 => 100 + rng.usize(500),
        _ => {
            if thorough {
                1000 + rng.usize(4000)
            } else {
                600 + rng.usize(700)
            }
        }
    } };
    // schema
    let ncols = if n > 300 { 1 + rng.usize(2) } else { 1 + rng.usize(4) };
    let mut fields: Vec<Field> = match force_schema {
        Some(t) => p_schema(t).expect("dense schema"),
        None => vec![],
    };
    while force_schema.is_none() && fields.len() < ncols {
        let dt = gen_type(rng, 0);
        if !type_ok(&dt, true) {
            continue;
        }
        let (dt, nullable) = if rng.chance(1, 40) { (DataType::Null, true) } else { (dt, rng.chance(2, 3)) };
        fields.push(Field::new(format!("c{}", fields.len()), dt, nullable));
    }
    let cols: Vec<Vec<V>> = fields.iter().map(|f| gen_col(f, n, rng)).collect();
    let schema_s = fields.iter().map(s_field_top).collect::<Vec<_>>().join(";");
    let mut data_s = String::new();
    for (i, c) in cols.iter().enumerate() {
        if i > 0 {
            data_s.push(';');
        }
        data_s.push('[');
        for (j, v) in c.iter().enumerate() {
            if j > 0 {
                data_s.push(',');
            }
            pv(v, &mut data_s);
        }
        data_s.push(']');
    }
    // props
    let mut phs = vec![];
    fields.iter().for_each(|f| leaves(f.data_type(), &mut phs));
    let v2 = rng.bool();
    let encs: Vec<&str> = phs.iter().map(|p| gen_enc(*p, rng)).collect();
    let enc_s = if encs.iter().all(|e| *e == encs[0]) && rng.bool() { encs[0].to_string() } else if phs.len() == 1 { encs[0].to_string() } else { encs.join("/") };
    // an Arrow dictionary over a FIXED_LEN_BYTE_ARRAY leaf goes through the byte-array encoder, which
    // refuses BYTE_STREAM_SPLIT by panicking (`unwrap` on "unsupported encoding"): by-design
    // unsupported configuration, reported separately, not generated
    let enc_s = {
        let mut sh = Shapes::default();
        fields.iter().for_each(|f| shapes(f.data_type(), &mut sh));
        if sh.dict_fsb || sh.dict_unsupported { enc_s.replace("BSS", "PLAIN") } else { enc_s }
    };
    let dict_s: String = match rng.below(10) {
        0..=3 => "1".into(),
        4..=6 => "0".into(),
        _ if phs.len() == 1 => "1".into(),
        _ => phs.iter().map(|_| *rng.pick(&['0', '1', '-'])).collect(),
    };
    let dps = match rng.below(20) {
        0..=9 => 1 << 20,
        10..=16 => 1 + rng.usize(64),
        _ => 200 + rng.usize(1800),
    };
    let pg = match rng.below(20) {
        0..=8 => 1 << 20,
        9 | 10 => 1,
        11..=15 => 2 + rng.usize(63),
        _ => 100 + rng.usize(3900),
    };
    let pr = match rng.below(20) {
        0..=9 => 20000,
        10 | 11 => 1,
        12..=15 => 2 + rng.usize(9),
        _ => 11 + rng.usize(190),
    };
    let wb = match rng.below(20) {
        0..=7 => 1024,
        8 | 9 => 1,
        10..=14 => 2 + rng.usize(7),
        _ => 9 + rng.usize(192),
    };
    let par = if rng.chance(1, 4) { 1 + rng.usize(4) } else { 0 };
    let max_groups = if par > 0 { 12 } else { 48 };
    let mut rg = match rng.below(20) {
        0..=8 => 0,
        9 => 1,
        10..=13 => 2 + rng.usize(9),
        14..=17 => 11 + rng.usize(90),
        _ => 100 + rng.usize(900),
    };
    if rg > 0 && n / rg > max_groups {
        rg = n / max_groups + 1;
    }
    let rgb = if par == 0 && rng.chance(1, 12) { 1 + rng.usize(3000) } else { 0 };
    let comp = *rng.pick(&["UNCOMPRESSED", "UNCOMPRESSED", "UNCOMPRESSED", "SNAPPY", "GZIP", "LZ4", "LZ4_RAW", "ZSTD", "BROTLI"]);
    let stats = *rng.pick(&["none", "chunk", "page", "page"]);
    let bloom = if rng.chance(1, 4) { 1 + rng.usize(100) } else { 0 };
    let cdc = if par == 0 && rng.chance(1, 6) {
        // `calculate_mask`: floor(log2(((max-min)/2)/8)) - norm must lie in 1..=63
        let min = 1 + rng.usize(64) as i64;
        let max = min + 64 + rng.usize(4000) as i64;
        let target = (min + (max - min) / 2 - min) / 8;
        let mask_bits = 63 - (target as u64).leading_zeros() as i64;
        let norm = rng.range(-3, 3).min(mask_bits - 1);
        format!("{}:{}:{}", min, max, norm)
    } else {
        "0".to_string()
    };
    // forced configuration of the dense block
    let fp: HashMap<&str, &str> = force_props.split(',').filter_map(|p| p.split_once('=')).collect();
    let fnum = |k: &str, d: usize| fp.get(k).and_then(|v| v.parse::<usize>().ok()).unwrap_or(d);
    let v2 = fp.get("v").map(|x| *x == "2").unwrap_or(v2);
    let dict_s = fp.get("dict").map(|x| x.to_string()).unwrap_or(dict_s);
    let (dps, pg, pr, wb, rg) = (fnum("dps", dps), fnum("pg", pg), fnum("pr", pr), fnum("wb", wb), fnum("rg", rg));
    let mut props = format!("v={},enc={},dict={},dps={},pg={},pr={},wb={},rg={},comp={},stats={},bloom={},cdc={},par={}", if v2 { 2 } else { 1 }, enc_s, dict_s, dps, pg, pr, wb, rg, comp, stats, bloom, cdc, par);
    if rgb > 0 {
        write!(props, ",rgb={}", rgb).unwrap();
    }
    if rng.chance(1, 3) {
        write!(props, ",x={}", rng.below(8192)).unwrap();
    }
    if rng.chance(1, 4) {
        write!(props, ",cl={}", rng.below(10)).unwrap();
    }
    if par == 0 && rng.chance(1, 3) {
        write!(props, ",fin={}", 1 + rng.below(2)).unwrap();
    }
    if rng.chance(1, 3) {
        write!(props, ",rd={}", 1 + rng.below(2)).unwrap();
    }
    if par > 0 {
        write!(props, ",jo={}", rng.below(1000)).unwrap();
    }
    // plan
    let g = if rng.bool() { 0 } else { 1 + rng.below(999) };
    let s = if rng.chance(3, 5) { 0 } else { 1 + rng.usize(9) };
    let mut items: Vec<String> = vec![];
    let mut sizes: Vec<usize> = vec![];
    match rng.below(10) {
        0..=3 => sizes.push(n),
        4..=7 => {
            let k = 2 + rng.usize(3);
            let mut left = n;
            for i in 0..k {
                let t = if i == k - 1 { left } else { rng.usize(left + 1) };
                sizes.push(t);
                left -= t;
            }
        }
        _ => {
            let mut left = n;
            let maxb = 1 + rng.usize(1 + n / 6);
            while left > 0 {
                let t = (1 + rng.usize(maxb)).min(left);
                sizes.push(t);
                left -= t;
            }
            if sizes.is_empty() {
                sizes.push(0);
            }
        }
    }
    let flushy = rng.chance(1, 3);
    let mut flush_between = false;
    let mut seen_rows = false;
    let mut pending_flush = false;
    if flushy && rng.chance(1, 4) {
        items.push("f".into());
    }
    let mut nflush = 0;
    for (i, sz) in sizes.iter().enumerate() {
        if *sz > 0 {
            if seen_rows && pending_flush {
                flush_between = true;
            }
            seen_rows = true;
            pending_flush = false;
        }
        items.push(sz.to_string());
        if rng.chance(1, 12) {
            items.push("0".into());
        }
        if flushy && nflush < max_groups && (rng.chance(1, 3) || i + 1 == sizes.len() && rng.chance(1, 2)) {
            items.push("f".into());
            nflush += 1;
            pending_flush = true;
            if rng.chance(1, 6) {
                items.push("f".into());
            }
        }
    }
    let nwrites = items.iter().filter(|x| *x != "f").count();
    let has_flush = items.iter().any(|x| x == "f");
    let plan = format!("g{}s{}:{}", g, s, items.join(","));
    let rbs = match rng.below(12) {
        0 => 1,
        1 => 2,
        2 => 3,
        3 => 7,
        4 => 8,
        5 => n.max(2) - 1,
        6 => n.max(1),
        7 => n + 1,
        8 => 64,
        9 => 1 + rng.usize(n + 1),
        _ => 1024,
    };
    let line = format!("C05 e2e {} {} {} {} {}", props, plan, rbs, schema_s, data_s);
    // tags
    let mut tags: Vec<String> = vec!["op:e2e".into(), if v2 { "v2" } else { "v1" }.into()];
    let mut es: Vec<&str> = encs.clone();
    es.sort();
    es.dedup();
    for e in es {
        tags.push(format!("enc:{}", if e == "-" { "unset" } else { e }));
    }
    tags.push(format!("dict:{}", match dict_s.as_str() {
        "1" => "on",
        "0" => "off",
        _ => "mixed",
    }));
    tags.push(format!("comp:{}", comp));
    tags.push(format!("stats:{}", stats));
    let nested = fields.iter().any(|f| f.data_type().is_nested() && !matches!(f.data_type(), DataType::RunEndEncoded(_, _)));
    tags.push(if nested { "nested" } else { "flat" }.into());
    let mut kinds: Vec<&str> = fields.iter().map(|f| kind_of(f.data_type())).collect();
    kinds.sort();
    kinds.dedup();
    for k in kinds {
        tags.push(format!("ty:{}", k));
    }
    tags.push(format!("par:{}", par));
    let multi_rg = (rg > 0 && n > rg) || flush_between;
    if multi_rg {
        tags.push("multi-rg".into());
    }
    if nwrites > 1 {
        tags.push("multi-batch".into());
    }
    if has_flush {
        tags.push("flushes".into());
    }
    if s > 0 {
        tags.push("sliced".into());
    }
    if g > 0 {
        tags.push("garbage".into());
    }
    if bloom > 0 {
        tags.push("bloom".into());
    }
    if cdc != "0" {
        tags.push("cdc".into());
    }
    if rgb > 0 {
        tags.push("rg-bytes".into());
    }
    tags.push(format!("rows:{}", match n {
        0 => "0",
        1 => "1",
        2..=20 => "small",
        21..=99 => "mid",
        100..=999 => "large",
        _ => "huge",
    }));
    let nulls = cols.iter().any(|c| c.iter().any(has_null));
    if nulls {
        tags.push("nulls".into());
    }
    if n >= 1 && (nested || nulls || nwrites > 1 || multi_rg) {
        tags.push("nt".into());
    }
    tags.extend(kf_tags(&line.split(' ').collect::<Vec<_>>()));
    (line, tags.join(" "))
}
