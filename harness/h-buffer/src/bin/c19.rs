//! C19 correspondence harness: bit-packed mask primitives of arrow-buffer.
//! Every case line is `C19 <op> <variant?> …`; the answer is canonical text.
use arrow_buffer::bit_chunk_iterator::{BitChunks, UnalignedBitChunk};
use arrow_buffer::bit_iterator::{BitIndexIterator, BitIterator, BitSliceIterator};
use arrow_buffer::{BooleanBuffer, BooleanBufferBuilder, Buffer, MutableBuffer, NullBuffer, NullBufferBuilder, bit_mask, bit_util};
use vcommon::*;

/// a Buffer whose data pointer has the requested alignment (mod 8)
fn buf_aligned(bytes: &[u8], align: usize) -> Buffer {
    let mut v = vec![0xA5u8; align];
    v.extend_from_slice(bytes);
    // from_vec keeps the Vec allocation (u8 vec → at least 1-aligned; system allocator gives ≥8)
    let b = Buffer::from_vec(v);
    b.slice(align)
}

fn bits_of(b: &[u8], off: usize, len: usize) -> Vec<bool> {
    (0..len).map(|i| (b[(off + i) / 8] >> ((off + i) % 8)) & 1 == 1).collect()
}

fn bb(bytes: &[u8], off: usize, len: usize, align: usize) -> BooleanBuffer {
    BooleanBuffer::new(buf_aligned(bytes, align), off, len)
}

fn bb_bits(b: &BooleanBuffer) -> String {
    show_bits(&b.iter().collect::<Vec<_>>())
}

fn run_case(line: &str) -> String {
    let t: Vec<&str> = line.split(' ').collect();
    assert_eq!(t[0], "C19");
    let us = |s: &str| s.parse::<usize>().unwrap();
    match t[1] {
        "chunks" => {
            // C19 chunks <variant> <buf> <off> <len>
            let (var, b, off, len) = (us(t[2]), unhex(t[3]), us(t[4]), us(t[5]));
            guarded(|| {
                let buf = buf_aligned(&b, var % 8);
                let c = BitChunks::new(buf.as_slice(), off, len);
                let words: Vec<u64> = c.iter_padded().collect();
                show_list(&words)
            })
        }
        "setbits" => {
            let (mut d, s, ow, or, len) = (unhex(t[2]), unhex(t[3]), us(t[4]), us(t[5]), us(t[6]));
            guarded(move || {
                let n = bit_mask::set_bits(&mut d, &s, ow, or, len);
                format!("{} {}", hex(&d), n)
            })
        }
        "binop" => {
            // C19 binop <op> <variant> <l> <lo> <r> <ro> <len>
            let (op, var, l, lo, r, ro, len) = (t[2], us(t[3]), unhex(t[4]), us(t[5]), unhex(t[6]), us(t[7]), us(t[8]));
            guarded(move || {
                let (la, ra) = (var % 8, (var / 8) % 8);
                let lb = buf_aligned(&l, la);
                let rb = buf_aligned(&r, ra);
                let out: BooleanBuffer = match (var / 64) % 3 {
                    0 => {
                        let b = match op {
                            "and" => arrow_buffer::buffer::buffer_bin_and(&lb, lo, &rb, ro, len),
                            "or" => arrow_buffer::buffer::buffer_bin_or(&lb, lo, &rb, ro, len),
                            "xor" => arrow_buffer::buffer::buffer_bin_xor(&lb, lo, &rb, ro, len),
                            _ => arrow_buffer::buffer::buffer_bin_and_not(&lb, lo, &rb, ro, len),
                        };
                        BooleanBuffer::new(b, 0, len)
                    }
                    1 => {
                        let f: fn(u64, u64) -> u64 = match op {
                            "and" => |a, b| a & b,
                            "or" => |a, b| a | b,
                            "xor" => |a, b| a ^ b,
                            _ => |a, b| a & !b,
                        };
                        BooleanBuffer::from_bitwise_binary_op(lb.as_slice(), lo, rb.as_slice(), ro, len, f)
                    }
                    _ => {
                        let x = BooleanBuffer::new(lb, lo, len);
                        let y = BooleanBuffer::new(rb, ro, len);
                        match op {
                            "and" => &x & &y,
                            "or" => &x | &y,
                            "xor" => &x ^ &y,
                            _ => &x & &(!&y),
                        }
                    }
                };
                assert_eq!(out.len(), len);
                bb_bits(&out)
            })
        }
        "not" => {
            let (var, l, lo, len) = (us(t[2]), unhex(t[3]), us(t[4]), us(t[5]));
            guarded(move || {
                let lb = buf_aligned(&l, var % 8);
                let out = match (var / 8) % 3 {
                    0 => BooleanBuffer::new(arrow_buffer::buffer::buffer_unary_not(&lb, lo, len), 0, len),
                    1 => BooleanBuffer::from_bitwise_unary_op(lb.as_slice(), lo, len, |a| !a),
                    _ => !&BooleanBuffer::new(lb, lo, len),
                };
                bb_bits(&out)
            })
        }
        "count" => {
            let (var, l, lo, len) = (us(t[2]), unhex(t[3]), us(t[4]), us(t[5]));
            guarded(move || {
                let lb = buf_aligned(&l, var % 8);
                let n = match (var / 8) % 3 {
                    0 => BooleanBuffer::new(lb, lo, len).count_set_bits(),
                    1 => lb.count_set_bits_offset(lo, len),
                    _ => UnalignedBitChunk::new(lb.as_slice(), lo, len).count_ones(),
                };
                n.to_string()
            })
        }
        "bits" => {
            let (var, l, lo, len) = (us(t[2]), unhex(t[3]), us(t[4]), us(t[5]));
            guarded(move || {
                let lb = buf_aligned(&l, var % 8);
                let v: Vec<bool> = match (var / 8) % 5 {
                    0 => BitIterator::new(lb.as_slice(), lo, len).collect(),
                    1 => {
                        let mut v: Vec<bool> = BitIterator::new(lb.as_slice(), lo, len).rev().collect();
                        v.reverse();
                        v
                    }
                    2 => {
                        let b = BooleanBuffer::new(lb, lo, len);
                        (0..len).map(|i| b.value(i)).collect()
                    }
                    3 => (0..len).map(|i| bit_util::get_bit(lb.as_slice(), lo + i)).collect(),
                    _ => {
                        // UnalignedBitChunk with padding removed
                        let u = UnalignedBitChunk::new(lb.as_slice(), lo, len);
                        let lead = u.lead_padding();
                        let words: Vec<u64> = u.iter().collect();
                        let total = words.len() * 64;
                        assert_eq!(total, if len == 0 { 0 } else { lead + len + u.trailing_padding() });
                        // padding bits must be zero
                        for i in 0..total {
                            let bit = (words[i / 64] >> (i % 64)) & 1 == 1;
                            if i < lead || i >= lead + len {
                                assert!(!bit, "padding bit set");
                            }
                        }
                        (0..len).map(|i| (words[(lead + i) / 64] >> ((lead + i) % 64)) & 1 == 1).collect()
                    }
                };
                show_bits(&v)
            })
        }
        "indices" => {
            let (var, l, lo, len) = (us(t[2]), unhex(t[3]), us(t[4]), us(t[5]));
            guarded(move || {
                let lb = buf_aligned(&l, var % 8);
                let v: Vec<usize> = match (var / 8) % 3 {
                    0 => BitIndexIterator::new(lb.as_slice(), lo, len).collect(),
                    1 => BooleanBuffer::new(lb, lo, len).set_indices_u32().map(|x| x as usize).collect(),
                    _ => {
                        let mut v = vec![];
                        bit_iterator_try_for_each(lb.as_slice(), lo, len, &mut v);
                        v
                    }
                };
                show_list(&v)
            })
        }
        "slices" => {
            let (var, l, lo, len) = (us(t[2]), unhex(t[3]), us(t[4]), us(t[5]));
            guarded(move || {
                let lb = buf_aligned(&l, var % 8);
                let v: Vec<String> =
                    BitSliceIterator::new(lb.as_slice(), lo, len).map(|(a, b)| format!("{}:{}", a, b)).collect();
                show_list(&v)
            })
        }
        "findnth" => {
            let (var, l, lo, len, start, n) = (us(t[2]), unhex(t[3]), us(t[4]), us(t[5]), us(t[6]), us(t[7]));
            guarded(move || {
                let b = bb(&l, lo, len, var % 8);
                b.find_nth_set_bit_position(start, n).to_string()
            })
        }
        "hastf" => {
            // BooleanBuffer::has_true / has_false
            let (var, l, lo, len) = (us(t[2]), unhex(t[3]), us(t[4]), us(t[5]));
            guarded(move || {
                let b = bb(&l, lo, len, var % 8);
                format!("{} {}", b.has_true() as u8, b.has_false() as u8)
            })
        }
        "eq" => {
            let (var, l, lo, r, ro, len) = (us(t[2]), unhex(t[3]), us(t[4]), unhex(t[5]), us(t[6]), us(t[7]));
            guarded(move || {
                let x = bb(&l, lo, len, var % 8);
                let y = bb(&r, ro, len, (var / 8) % 8);
                (if x == y { "1" } else { "0" }).to_string()
            })
        }
        "applybin" => {
            // in-place: C19 applybin <op> <dst> <dofs> <src> <sofs> <len>  → whole dst
            let (op, mut d, dofs, s, sofs, len) = (t[2], unhex(t[3]), us(t[4]), unhex(t[5]), us(t[6]), us(t[7]));
            guarded(move || {
                let f: fn(u64, u64) -> u64 = match op {
                    "and" => |a, b| a & b,
                    "or" => |a, b| a | b,
                    "xor" => |a, b| a ^ b,
                    _ => |a, b| a & !b,
                };
                bit_util::apply_bitwise_binary_op(&mut d, dofs, &s, sofs, len, f);
                hex(&d)
            })
        }
        "applynot" => {
            let (mut d, dofs, len) = (unhex(t[2]), us(t[3]), us(t[4]));
            guarded(move || {
                bit_util::apply_bitwise_unary_op(&mut d, dofs, len, |a| !a);
                hex(&d)
            })
        }
        "builder" => {
            // C19 builder <ops;…>  ops: a<bit> | n<count>:<bit> | s<idx>:<bit> | t<len> | r<len> | p<hex>:<start>:<end> | v<count>
            guarded(move || {
                let mut b = BooleanBufferBuilder::new(0);
                if t[2] != "-" {
                    for op in t[2].split(';') {
                        let (k, rest) = op.split_at(1);
                        let f: Vec<&str> = rest.split(':').collect();
                        match k {
                            "a" => b.append(f[0] == "1"),
                            "n" => b.append_n(us(f[0]), f[1] == "1"),
                            "s" => b.set_bit(us(f[0]), f[1] == "1"),
                            "t" => b.truncate(us(f[0])),
                            "r" => b.resize(us(f[0])),
                            "p" => b.append_packed_range(us(f[1])..us(f[2]), &unhex(f[0])),
                            "v" => b.advance(us(f[0])),
                            "l" => b.append_slice(&parse_bits(f[0])),
                            "w" => b.append_word(f[0].parse::<u64>().unwrap(), us(f[1])),
                            "b" => b.append_buffer(&bb(&unhex(f[0]), us(f[1]), us(f[2]) - us(f[1]), 0)),
                            _ => panic!("bad builder op"),
                        }
                    }
                }
                let out = b.finish();
                bb_bits(&out)
            })
        }
        "bitslice" => {
            // slicing entry points: Buffer::bit_slice, BooleanBuffer::slice().sliced(), from_bits, slice().iter()
            let (var, l, lo, len) = (us(t[2]), unhex(t[3]), us(t[4]), us(t[5]));
            guarded(move || {
                let lb = buf_aligned(&l, var % 8);
                let total = lb.len() * 8;
                let out = match (var / 8) % 5 {
                    0 => BooleanBuffer::new(lb.bit_slice(lo, len), 0, len),
                    1 => {
                        // slice of a slice: outer (a, total-a) then inner
                        let a = lo.min((var / 40) % 9);
                        let outer = BooleanBuffer::new(lb, a, total - a);
                        BooleanBuffer::new(outer.slice(lo - a, len).sliced(), 0, len)
                    }
                    2 => BooleanBuffer::from_bits(lb.as_slice(), lo, len),
                    3 => BooleanBuffer::new(lb, 0, total).slice(lo, len),
                    _ => {
                        let n = NullBuffer::new(BooleanBuffer::new(lb, 0, total)).slice(lo, len);
                        assert_eq!(n.null_count(), len - n.inner().count_set_bits());
                        let idx: Vec<usize> = n.valid_indices().collect();
                        let from_slices: Vec<usize> = n.valid_slices().flat_map(|(a, b)| a..b).collect();
                        assert_eq!(idx, from_slices);
                        n.into_inner()
                    }
                };
                assert_eq!(out.len(), len);
                bb_bits(&out)
            })
        }
        "setnull" => {
            // MutableBuffer::set_null_bits(start, count) on the whole buffer; C19 setnull <buf> <start> <count>
            let (b, start, count) = (unhex(t[2]), us(t[3]), us(t[4]));
            guarded(move || {
                let mut m = MutableBuffer::from(b);
                m.set_null_bits(start, count);
                hex(m.as_slice())
            })
        }
        "setbit" => {
            // bit_util::set_bit / unset_bit; C19 setbit <buf> <i> <v>
            let (mut b, i, v) = (unhex(t[2]), us(t[3]), t[4] == "1");
            guarded(move || {
                if v { bit_util::set_bit(&mut b, i) } else { bit_util::unset_bit(&mut b, i) }
                hex(&b)
            })
        }
        "quat" => {
            // bitwise_quaternary_op_helper with op (a | (c & d)) & (c | (a & b)) ^ d
            let len = us(t[2]);
            let parts: Vec<(Vec<u8>, usize)> = t[3].split(';').map(|p| {
                let f: Vec<&str> = p.split(':').collect();
                (unhex(f[0]), us(f[1]))
            }).collect();
            guarded(move || {
                let bufs: Vec<Buffer> = parts.iter().map(|(b, o)| buf_aligned(b, o % 8)).collect();
                let out = arrow_buffer::buffer::bitwise_quaternary_op_helper(
                    [&bufs[0], &bufs[1], &bufs[2], &bufs[3]],
                    [parts[0].1, parts[1].1, parts[2].1, parts[3].1],
                    len,
                    |a, b, c, d| ((a | (c & d)) & (c | (a & b))) ^ d,
                );
                bb_bits(&BooleanBuffer::new(out, 0, len))
            })
        }
        "nth" => {
            // BitIterator::nth / nth_back; C19 nth <buf> <off> <len> <n> <back>
            let (l, lo, len, n, back) = (unhex(t[2]), us(t[3]), us(t[4]), us(t[5]), t[6] == "1");
            guarded(move || {
                let mut it = BitIterator::new(&l, lo, len);
                let first = if back { it.nth_back(n) } else { it.nth(n) };
                let rest: Vec<bool> = it.collect();
                format!("{} {}", match first { Some(true) => "1", Some(false) => "0", None => "n" }, show_bits(&rest))
            })
        }
        "nbb" => {
            // NullBufferBuilder op sequence; ops: a<bit> | N<n> (nulls) | V<n> (non nulls) | l<bits> | p<hex>:<off>:<len> (append_buffer) | t<len> | s<i>:<bit>
            guarded(move || {
                let mut b = NullBufferBuilder::new(0);
                if t[2] != "-" {
                    for op in t[2].split(';') {
                        let (k, rest) = op.split_at(1);
                        let f: Vec<&str> = rest.split(':').collect();
                        match k {
                            "a" => b.append(f[0] == "1"),
                            "N" => b.append_n_nulls(us(f[0])),
                            "V" => b.append_n_non_nulls(us(f[0])),
                            "l" => b.append_slice(&parse_bits(f[0])),
                            "p" => b.append_buffer(&NullBuffer::new(bb(&unhex(f[0]), us(f[1]), us(f[2]), 0))),
                            "t" => b.truncate(us(f[0])),
                            "s" => b.set_bit(us(f[0]), f[1] == "1"),
                            _ => panic!("bad nbb op"),
                        }
                    }
                }
                let n = b.len();
                match b.finish() {
                    Some(nb) => { assert_eq!(nb.len(), n); bb_bits(nb.inner()) }
                    None => show_bits(&vec![true; n]),
                }
            })
        }
        "assign" => {
            // in-place `&=` / `|=` / `^=` on BooleanBuffer (bitwise_bin_op_assign):
            // C19 assign <op> <uniq> <l> <lo> <r> <ro> <len>
            let (op, uniq, l, lo, r, ro, len) = (t[2], t[3] == "1", unhex(t[4]), us(t[5]), unhex(t[6]), us(t[7]), us(t[8]));
            guarded(move || {
                // a uniquely owned, zero-pointer-offset buffer takes the in-place arm; a live
                // clone forces the copying arm
                let mut x = BooleanBuffer::new(Buffer::from_vec(l.clone()), lo, len);
                let keep = if uniq { None } else { Some(x.clone()) };
                let y = bb(&r, ro, len, (lo + ro) % 8);
                match op {
                    "and" => x &= &y,
                    "or" => x |= &y,
                    _ => x ^= &y,
                }
                if let Some(k) = keep {
                    // the clone must be unaffected
                    assert_eq!(bb_bits(&k), show_bits(&bits_of(&l, lo, len)));
                }
                assert_eq!(x.len(), len);
                bb_bits(&x)
            })
        }
        "unionmany" => {
            // C19 unionmany <len> <b1>:<o1>;<b2>:<o2>;…
            let len = us(t[2]);
            let parts: Vec<(Vec<u8>, usize)> = t[3].split(';').map(|p| {
                let f: Vec<&str> = p.split(':').collect();
                (unhex(f[0]), us(f[1]))
            }).collect();
            guarded(move || {
                let masks: Vec<NullBuffer> = parts.iter().map(|(b, o)| NullBuffer::new(bb(b, *o, len, o % 8))).collect();
                match NullBuffer::union_many(masks.iter().map(Some)) {
                    Some(u) => format!("{} {}", bb_bits(u.inner()), u.null_count()),
                    None => format!("{} 0", show_bits(&vec![true; len])),
                }
            })
        }
        "contains" => {
            let (l, lo, r, ro, len) = (unhex(t[2]), us(t[3]), unhex(t[4]), us(t[5]), us(t[6]));
            guarded(move || {
                let x = NullBuffer::new(bb(&l, lo, len, 0));
                let y = NullBuffer::new(bb(&r, ro, len, 3));
                (x.contains(&y) as u8).to_string()
            })
        }
        "nullunion" => {
            // C19 nullunion <l> <lo> <r> <ro> <len> → bits + null count
            let (l, lo, r, ro, len) = (unhex(t[2]), us(t[3]), unhex(t[4]), us(t[5]), us(t[6]));
            guarded(move || {
                let x = NullBuffer::new(bb(&l, lo, len, 0));
                let y = NullBuffer::new(bb(&r, ro, len, 0));
                match NullBuffer::union(Some(&x), Some(&y)) {
                    Some(u) => format!("{} {}", bb_bits(u.inner()), u.null_count()),
                    // `None` means "no nulls": all bits valid
                    None => format!("{} 0", show_bits(&vec![true; len])),
                }
            })
        }
        "nullexpand" => {
            let (l, lo, len, k) = (unhex(t[2]), us(t[3]), us(t[4]), us(t[5]));
            guarded(move || {
                let x = NullBuffer::new(bb(&l, lo, len, 0));
                let u = x.expand(k);
                format!("{} {}", bb_bits(u.inner()), u.null_count())
            })
        }
        "collect" => {
            // MutableBuffer::collect_bool / BooleanBuffer::collect_bool from a bit string
            let bits = parse_bits(t[2]);
            guarded(move || {
                let m: MutableBuffer = MutableBuffer::collect_bool(bits.len(), |i| bits[i]);
                let b1 = BooleanBuffer::new(m.into(), 0, bits.len());
                let b2 = BooleanBuffer::collect_bool(bits.len(), |i| bits[i]);
                let b3: BooleanBuffer = bits.iter().copied().collect();
                assert!(b1 == b2 && b2 == b3);
                bb_bits(&b1)
            })
        }
        _ => "bad-op".into(),
    }
}

fn bit_iterator_try_for_each(b: &[u8], off: usize, len: usize, out: &mut Vec<usize>) {
    // NullBuffer::try_for_each_valid_idx path
    let nb = NullBuffer::new(BooleanBuffer::new(Buffer::from(b.to_vec()), off, len));
    nb.try_for_each_valid_idx::<(), _>(|i| {
        out.push(i);
        Ok(())
    })
    .unwrap();
}

fn gen_content(rng: &mut Rng, nbytes: usize) -> Vec<u8> {
    match rng.below(10) {
        7 => {
            // all ones with a single cleared bit
            let mut v = vec![0xFFu8; nbytes];
            if nbytes > 0 {
                let i = rng.usize(nbytes * 8);
                v[i / 8] &= !(1 << (i % 8));
            }
            v
        }
        8 => {
            // sparse: mostly ones (or mostly zeros) with a few flipped bits
            let ones = rng.bool();
            let mut v = vec![if ones { 0xFFu8 } else { 0 }; nbytes];
            if nbytes > 0 {
                for _ in 0..1 + rng.usize(4) {
                    let i = rng.usize(nbytes * 8);
                    v[i / 8] ^= 1 << (i % 8);
                }
            }
            v
        }
        0 => vec![0u8; nbytes],
        1 => vec![0xFFu8; nbytes],
        2 => vec![0xAAu8; nbytes],
        3 => {
            let mut v = vec![0u8; nbytes];
            if nbytes > 0 {
                let i = rng.usize(nbytes * 8);
                v[i / 8] |= 1 << (i % 8);
            }
            v
        }
        4 => {
            // run structured
            let mut v = vec![0u8; nbytes];
            let mut i = 0;
            let mut val = rng.bool();
            while i < nbytes * 8 {
                let run = 1 + rng.usize(40);
                for j in i..(i + run).min(nbytes * 8) {
                    if val {
                        v[j / 8] |= 1 << (j % 8);
                    }
                }
                i += run;
                val = !val;
            }
            v
        }
        _ => rng.bytes(nbytes),
    }
}

/// (buffer bytes, offset, len): offsets 0..=130, lengths 0..=200 plus occasional large
fn gen_range(rng: &mut Rng, len: Option<usize>) -> (Vec<u8>, usize, usize) {
    let off = if rng.chance(1, 3) { *rng.pick(&[0usize, 1, 7, 8, 9, 63, 64, 65, 127, 128, 129, 130]) } else { rng.usize(131) };
    let len = len.unwrap_or_else(|| {
        if rng.chance(1, 12) {
            200 + rng.usize(4300)
        } else if rng.chance(1, 3) {
            *rng.pick(&[0usize, 1, 2, 7, 8, 9, 55, 56, 57, 63, 64, 65, 119, 120, 127, 128, 129, 191, 192, 193, 200])
        } else {
            rng.usize(201)
        }
    });
    let extra = rng.usize(3);
    let nbytes = (off + len + 7) / 8 + extra;
    (gen_content(rng, nbytes), off, len)
}

fn nontrivial(off: usize, len: usize) -> &'static str {
    if len > 0 && (off % 8 != 0 || (off + len) % 8 != 0 || len > 64) { "nt" } else { "" }
}

fn gen_case(rng: &mut Rng) -> (String, String) {
    let var = rng.usize(192);
    match rng.below(16) {
        0 => {
            let (b, off, len) = gen_range(rng, None);
            (format!("C19 chunks {} {} {} {}", var, hex(&b), off, len), format!("op:chunks {}", nontrivial(off, len)))
        }
        1 | 2 => {
            let (s, or, len) = gen_range(rng, None);
            let ow = rng.usize(131);
            let nbytes = (ow + len + 7) / 8 + rng.usize(3);
            let zero = rng.chance(4, 5);
            let mut d = if zero { vec![0u8; nbytes] } else { rng.bytes(nbytes) };
            if zero && rng.bool() {
                // random surrounding bits, zero inside the range
                d = rng.bytes(nbytes);
                for i in ow..ow + len {
                    d[i / 8] &= !(1 << (i % 8));
                }
            }
            (
                format!("C19 setbits {} {} {} {} {}", hex(&d), hex(&s), ow, or, len),
                format!("op:setbits {} {}", if zero { "dst:zero" } else { "dst:dirty" }, nontrivial(ow.max(or), len)),
            )
        }
        3 | 4 => {
            let (l, lo, len) = gen_range(rng, None);
            let (r, ro, _) = gen_range(rng, Some(len));
            let op = *rng.pick(&["and", "or", "xor", "andnot"]);
            (
                format!("C19 binop {} {} {} {} {} {} {}", op, var, hex(&l), lo, hex(&r), ro, len),
                format!("op:binop:{} {}", op, nontrivial(lo.max(ro), len)),
            )
        }
        5 => {
            let (l, lo, len) = gen_range(rng, None);
            (format!("C19 not {} {} {} {}", var, hex(&l), lo, len), format!("op:not {}", nontrivial(lo, len)))
        }
        6 => {
            let (l, lo, len) = gen_range(rng, None);
            (format!("C19 count {} {} {} {}", var, hex(&l), lo, len), format!("op:count {}", nontrivial(lo, len)))
        }
        7 => {
            let (l, lo, len) = gen_range(rng, None);
            if rng.bool() {
                (format!("C19 bits {} {} {} {}", var, hex(&l), lo, len), format!("op:bits {}", nontrivial(lo, len)))
            } else {
                // has_true / has_false take block-folding fast paths only on long masks
                let big = if rng.bool() { Some(1000 + rng.usize(4000)) } else { None };
                let (l, lo, len) = if big.is_some() { gen_range(rng, big) } else { (l, lo, len) };
                (format!("C19 hastf {} {} {} {}", var, hex(&l), lo, len), format!("op:hastf {}", nontrivial(lo, len)))
            }
        }
        8 => {
            let (l, lo, len) = gen_range(rng, None);
            (format!("C19 indices {} {} {} {}", var, hex(&l), lo, len), format!("op:indices {}", nontrivial(lo, len)))
        }
        9 => {
            let (l, lo, len) = gen_range(rng, None);
            (format!("C19 slices {} {} {} {}", var, hex(&l), lo, len), format!("op:slices {}", nontrivial(lo, len)))
        }
        10 => {
            let (l, lo, len) = gen_range(rng, None);
            let start = rng.usize(len + 1);
            let n = rng.usize(len / 2 + 3);
            (
                format!("C19 findnth {} {} {} {} {} {}", var, hex(&l), lo, len, start, n),
                format!("op:findnth {}", nontrivial(lo, len)),
            )
        }
        11 => {
            let (mut l, mut lo, mut len) = gen_range(rng, None);
            let (mut r, mut ro, _) = gen_range(rng, Some(len));
            if rng.chance(1, 3) {
                // byte-/word-aligned operands of whole-byte length: the shapes memcmp-style
                // fast paths are written for
                lo = *rng.pick(&[0usize, 8, 16, 64, 128]);
                ro = *rng.pick(&[0usize, 8, 24, 64, 128]);
                len = 8 * rng.usize(26);
                let (xl, xr) = (rng.usize(2), rng.usize(2));
                l = rng.bytes((lo + len) / 8 + xl);
                r = rng.bytes((ro + len) / 8 + xr);
            }
            if rng.chance(2, 3) {
                // make equal content, maybe flip one bit
                for i in 0..len {
                    let b = (l[(lo + i) / 8] >> ((lo + i) % 8)) & 1;
                    r[(ro + i) / 8] = (r[(ro + i) / 8] & !(1 << ((ro + i) % 8))) | (b << ((ro + i) % 8));
                }
                if len > 0 && rng.bool() {
                    // flip one bit, biased to the two ends of the range
                    let k = match rng.below(4) {
                        0 => 0,
                        1 => len - 1,
                        2 => len - 1 - rng.usize(len.min(8)),
                        _ => rng.usize(len),
                    };
                    let i = ro + k;
                    r[i / 8] ^= 1 << (i % 8);
                }
            }
            (format!("C19 eq {} {} {} {} {} {}", var, hex(&l), lo, hex(&r), ro, len), format!("op:eq {}", nontrivial(lo.max(ro), len)))
        }
        12 => {
            let (s, sofs, len) = gen_range(rng, None);
            let dofs = rng.usize(131);
            let nbytes = (dofs + len + 7) / 8 + rng.usize(3);
            let d = gen_content(rng, nbytes);
            let op = *rng.pick(&["and", "or", "xor", "andnot"]);
            (
                format!("C19 applybin {} {} {} {} {} {}", op, hex(&d), dofs, hex(&s), sofs, len),
                format!("op:applybin:{} {}", op, nontrivial(dofs.max(sofs), len)),
            )
        }
        13 => {
            let (d, dofs, len) = gen_range(rng, None);
            (format!("C19 applynot {} {} {}", hex(&d), dofs, len), format!("op:applynot {}", nontrivial(dofs, len)))
        }
        14 => {
            // builder op sequence; track length to keep ops legal
            let mut ops = vec![];
            let mut len = 0usize;
            for _ in 0..rng.usize(12) {
                match rng.below(8) {
                    0 => {
                        ops.push(format!("a{}", rng.below(2)));
                        len += 1;
                    }
                    1 => {
                        let n = *rng.pick(&[0usize, 1, 7, 8, 9, 63, 64, 65, 100]);
                        ops.push(format!("n{}:{}", n, rng.below(2)));
                        len += n;
                    }
                    2 if len > 0 => ops.push(format!("s{}:{}", rng.usize(len), rng.below(2))),
                    3 => {
                        let n = rng.usize(len + 1);
                        ops.push(format!("t{}", n));
                        len = n;
                    }
                    4 => {
                        let n = rng.usize(len + 70);
                        ops.push(format!("r{}", n));
                        len = n;
                    }
                    5 => {
                        let (b, off, l) = gen_range(rng, None);
                        ops.push(format!("p{}:{}:{}", hex(&b), off, off + l));
                        len += l;
                    }
                    6 => {
                        if rng.bool() {
                            let n = rng.usize(70);
                            ops.push(format!("v{}", n));
                            len += n;
                        } else if rng.bool() {
                            let n = *rng.pick(&[0usize, 1, 7, 8, 63, 64]);
                            ops.push(format!("w{}:{}", rng.next_u64(), n));
                            len += n;
                        } else {
                            let (b, off, l) = gen_range(rng, None);
                            ops.push(format!("b{}:{}:{}", hex(&b), off, off + l));
                            len += l;
                        }
                    }
                    _ => {
                        let n = rng.usize(20);
                        let bits: Vec<bool> = (0..n).map(|_| rng.bool()).collect();
                        if n > 0 {
                            ops.push(format!("l{}", show_bits(&bits)));
                            len += n;
                        }
                    }
                }
            }
            let s = if ops.is_empty() { "-".to_string() } else { ops.join(";") };
            (format!("C19 builder {}", s), format!("op:builder {}", if ops.len() > 2 { "nt" } else { "" }))
        }
        _ => match rng.below(13) {
            7 => {
                let (l, lo, len) = gen_range(rng, None);
                (format!("C19 bitslice {} {} {} {}", rng.usize(360), hex(&l), lo, len), format!("op:bitslice {}", nontrivial(lo, len)))
            }
            8 => {
                let (mut l, _lo, _len) = gen_range(rng, None);
                if l.is_empty() { l = vec![0xA5]; }
                let i = rng.usize(l.len() * 8);
                (format!("C19 setbit {} {} {}", hex(&l), i, rng.below(2)), "op:setbit nt".to_string())
            }
            9 => {
                let len = if rng.chance(1, 5) { 200 + rng.usize(400) } else { rng.usize(140) };
                let parts: Vec<String> = (0..4).map(|_| {
                    let (b, o, _) = gen_range(rng, Some(len));
                    format!("{}:{}", hex(&b), o)
                }).collect();
                (format!("C19 quat {} {}", len, parts.join(";")), format!("op:quat {}", if len > 0 { "nt" } else { "" }))
            }
            10 => {
                let (l, lo, len) = gen_range(rng, None);
                let n = rng.usize(len + 3);
                (format!("C19 nth {} {} {} {} {}", hex(&l), lo, len, n, rng.below(2)), format!("op:nth {}", nontrivial(lo, len)))
            }
            11 | 12 => {
                let mut ops = vec![];
                let mut len = 0usize;
                for _ in 0..rng.usize(10) {
                    match rng.below(7) {
                        0 => { ops.push(format!("a{}", rng.below(2))); len += 1; }
                        1 => { let n = *rng.pick(&[0usize, 1, 7, 8, 9, 63, 64, 65, 130]); ops.push(format!("N{}", n)); len += n; }
                        2 => { let n = *rng.pick(&[0usize, 1, 7, 8, 9, 63, 64, 65, 130]); ops.push(format!("V{}", n)); len += n; }
                        3 => { let n = 1 + rng.usize(20); let bits: Vec<bool> = (0..n).map(|_| rng.bool()).collect(); ops.push(format!("l{}", show_bits(&bits))); len += n; }
                        4 => { let (b, off, l) = gen_range(rng, None); ops.push(format!("p{}:{}:{}", hex(&b), off, l)); len += l; }
                        5 => { let n = rng.usize(len + 1); ops.push(format!("t{}", n)); len = n; }
                        _ if len > 0 => ops.push(format!("s{}:{}", rng.usize(len), rng.below(2))),
                        _ => {}
                    }
                }
                let s = if ops.is_empty() { "-".to_string() } else { ops.join(";") };
                (format!("C19 nbb {}", s), format!("op:nbb {}", if ops.len() > 2 { "nt" } else { "" }))
            }
            3 | 4 => {
                let (l, lo, len) = gen_range(rng, None);
                let (r, ro, _) = gen_range(rng, Some(len));
                let op = *rng.pick(&["and", "or", "xor"]);
                let uniq = rng.chance(2, 3);
                (
                    format!("C19 assign {} {} {} {} {} {} {}", op, uniq as u8, hex(&l), lo, hex(&r), ro, len),
                    format!("op:assign:{} {} {}", op, if uniq { "inplace" } else { "shared" }, nontrivial(lo.max(ro) + (lo != ro) as usize, len)),
                )
            }
            5 => {
                let len = if rng.chance(1, 4) { 200 + rng.usize(300) } else { rng.usize(140) };
                let k = 1 + rng.usize(5);
                let parts: Vec<String> = (0..k).map(|_| {
                    let (b, o, _) = gen_range(rng, Some(len));
                    format!("{}:{}", hex(&b), o)
                }).collect();
                (format!("C19 unionmany {} {}", len, parts.join(";")), format!("op:unionmany k:{} {}", k, if k >= 3 && len > 0 { "nt" } else { "" }))
            }
            6 => {
                let (l, lo, len) = gen_range(rng, None);
                let (mut r, ro, _) = gen_range(rng, Some(len));
                if rng.chance(2, 3) {
                    // make `r` a superset of `l` (contains = true), maybe clear one bit
                    for i in 0..len {
                        let b = (l[(lo + i) / 8] >> ((lo + i) % 8)) & 1;
                        if b == 1 { r[(ro + i) / 8] |= 1 << ((ro + i) % 8); }
                    }
                    if len > 0 && rng.bool() {
                        let i = ro + rng.usize(len);
                        r[i / 8] &= !(1 << (i % 8));
                    }
                }
                (format!("C19 contains {} {} {} {} {}", hex(&l), lo, hex(&r), ro, len), format!("op:contains {}", nontrivial(lo.max(ro), len)))
            }
            0 => {
                let (l, lo, len) = gen_range(rng, None);
                let (r, ro, _) = gen_range(rng, Some(len));
                (format!("C19 nullunion {} {} {} {} {}", hex(&l), lo, hex(&r), ro, len), format!("op:nullunion {}", nontrivial(lo.max(ro), len)))
            }
            1 => {
                let (l, lo, len) = gen_range(rng, None);
                let k = 1 + rng.usize(9);
                (format!("C19 nullexpand {} {} {} {}", hex(&l), lo, len, k), format!("op:nullexpand {}", nontrivial(lo, len)))
            }
            _ => {
                let n = rng.usize(201);
                let bits: Vec<bool> = (0..n).map(|_| rng.bool()).collect();
                (format!("C19 collect {}", show_bits(&bits)), format!("op:collect {}", if n > 64 { "nt" } else { "" }))
            }
        },
    }
}

fn main() {
    let args = parse_args();
    if std::env::var("VERIF_LOUD").is_err() { quiet_panics(); }
    let mut sink = Sink::new(&args.out);
    let _ = bits_of;
    if args.mode == "replay" {
        for line in read_cases(args.replay.as_ref().unwrap()) {
            let a = run_case(&line);
            sink.case(line, a, "replay");
        }
    } else {
        let mut rng = Rng::new(args.seed ^ 0xC19);
        let n = n_cases(&args, 20000, 400000);
        if args.tier == "thorough" && args.cases.is_none() {
            // exhaustive part of the quantifier: every offset 0..=130 and length 0..=200 for the
            // single-range operations (5 content classes each), and a dense grid of
            // (write offset, read offset, length) triples for set_bits / apply_bitwise_binary_op.
            let mut class = 0u64;
            for off in 0..=130usize {
                for len in 0..=200usize {
                    let nbytes = (off + len + 7) / 8 + 1;
                    for _ in 0..2 {
                        class += 1;
                        let b = match class % 5 {
                            0 => vec![0u8; nbytes],
                            1 => vec![0xFFu8; nbytes],
                            2 => vec![0xAAu8; nbytes],
                            _ => rng.bytes(nbytes),
                        };
                        let var = rng.usize(192);
                        let op = ["chunks", "not", "count", "bits", "indices", "slices", "hastf"][(class % 7) as usize];
                        let line = format!("C19 {} {} {} {} {}", op, var, hex(&b), off, len);
                        let a = run_case(&line);
                        sink.case(line, a, &format!("op:{} exhaustive {}", op, nontrivial(off, len)));
                    }
                }
            }
            let read_offs: Vec<usize> = (0..16).chain(56..73).chain(120..131).collect();
            for ow in 0..=130usize {
                for &or in &read_offs {
                    for len in 0..=200usize {
                        class += 1;
                        let s = rng.bytes((or + len + 7) / 8 + 1);
                        let nb = (ow + len + 7) / 8 + 1;
                        let mut d = rng.bytes(nb);
                        let line = if class % 3 == 0 {
                            let op = ["and", "or", "xor", "andnot"][(class % 4) as usize];
                            format!("C19 applybin {} {} {} {} {} {}", op, hex(&d), ow, hex(&s), or, len)
                        } else {
                            for i in ow..ow + len {
                                d[i / 8] &= !(1 << (i % 8));
                            }
                            format!("C19 setbits {} {} {} {} {}", hex(&d), hex(&s), ow, or, len)
                        };
                        let a = run_case(&line);
                        sink.case(line, a, &format!("exhaustive {}", nontrivial(ow.max(or), len)));
                    }
                }
            }
        }
        for _ in 0..n {
            let (line, tags) = gen_case(&mut rng);
            let a = run_case(&line);
            sink.case(line, a, &tags);
        }
    }
    sink.finish();
}
