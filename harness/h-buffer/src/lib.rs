// helpers
