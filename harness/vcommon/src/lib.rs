//! Shared helpers for the correspondence harness binaries.
//!
//! Every binary has the same command line:
//!   <bin> gen --seed N --tier quick|thorough --out DIR
//!   <bin> replay FILE --out DIR          (FILE = case lines)
//! and writes `DIR/cases.txt`, `DIR/impl.txt`, `DIR/tags.txt`, `DIR/oracle.txt`
//! and `DIR/stats.json`.  A case line is self-contained: gen mode serialises a case to a
//! line and then runs the implementation on the *parsed line*, so replay is exact.
use std::collections::BTreeMap;
use std::fmt::Write as _;
use std::io::Write;
use std::panic::{AssertUnwindSafe, catch_unwind};

/// xoshiro256** seeded through splitmix64
#[derive(Clone)]
pub struct Rng {
    s: [u64; 4],
}
impl Rng {
    pub fn new(seed: u64) -> Self {
        let mut x = seed;
        let mut sm = || {
            x = x.wrapping_add(0x9E3779B97F4A7C15);
            let mut z = x;
            z = (z ^ (z >> 30)).wrapping_mul(0xBF58476D1CE4E5B9);
            z = (z ^ (z >> 27)).wrapping_mul(0x94D049BB133111EB);
            z ^ (z >> 31)
        };
        Rng { s: [sm(), sm(), sm(), sm()] }
    }
    pub fn next_u64(&mut self) -> u64 {
        let r = self.s[1].wrapping_mul(5).rotate_left(7).wrapping_mul(9);
        let t = self.s[1] << 17;
        self.s[2] ^= self.s[0];
        self.s[3] ^= self.s[1];
        self.s[1] ^= self.s[2];
        self.s[0] ^= self.s[3];
        self.s[2] ^= t;
        self.s[3] = self.s[3].rotate_left(45);
        r
    }
    /// uniform in 0..n (n > 0)
    pub fn below(&mut self, n: u64) -> u64 {
        if n == 0 { 0 } else { self.next_u64() % n }
    }
    pub fn range(&mut self, lo: i64, hi_incl: i64) -> i64 {
        lo + self.below((hi_incl - lo + 1) as u64) as i64
    }
    pub fn usize(&mut self, n: usize) -> usize {
        self.below(n as u64) as usize
    }
    pub fn bool(&mut self) -> bool {
        self.next_u64() & 1 == 1
    }
    /// true with probability num/den
    pub fn chance(&mut self, num: u64, den: u64) -> bool {
        self.below(den) < num
    }
    pub fn pick<'a, T>(&mut self, xs: &'a [T]) -> &'a T {
        &xs[self.usize(xs.len())]
    }
    pub fn bytes(&mut self, n: usize) -> Vec<u8> {
        (0..n).map(|_| self.next_u64() as u8).collect()
    }
    /// a value biased to boundaries of the given set
    pub fn pick_or(&mut self, boundaries: &[i64], lo: i64, hi: i64) -> i64 {
        if self.chance(1, 2) { *self.pick(boundaries) } else { self.range(lo, hi) }
    }
}

pub fn hex(b: &[u8]) -> String {
    if b.is_empty() {
        return "-".to_string();
    }
    let mut s = String::with_capacity(b.len() * 2);
    for x in b {
        write!(s, "{:02x}", x).unwrap();
    }
    s
}
pub fn unhex(s: &str) -> Vec<u8> {
    if s == "-" {
        return vec![];
    }
    (0..s.len() / 2).map(|i| u8::from_str_radix(&s[2 * i..2 * i + 2], 16).expect("hex")).collect()
}
pub fn show_list<T: std::fmt::Display>(xs: &[T]) -> String {
    if xs.is_empty() {
        "-".to_string()
    } else {
        xs.iter().map(|x| x.to_string()).collect::<Vec<_>>().join(",")
    }
}
pub fn parse_list<T: std::str::FromStr>(s: &str) -> Vec<T>
where
    T::Err: std::fmt::Debug,
{
    if s == "-" { vec![] } else { s.split(',').map(|x| x.parse().expect("list item")).collect() }
}
pub fn show_bits(bs: &[bool]) -> String {
    if bs.is_empty() { "-".into() } else { bs.iter().map(|b| if *b { '1' } else { '0' }).collect() }
}
pub fn parse_bits(s: &str) -> Vec<bool> {
    if s == "-" { vec![] } else { s.chars().map(|c| c == '1').collect() }
}

/// run `f`, mapping a panic to the canonical answer `PANIC`
pub fn guarded<F: FnOnce() -> String>(f: F) -> String {
    match catch_unwind(AssertUnwindSafe(f)) {
        Ok(s) => s,
        Err(_) => "PANIC".to_string(),
    }
}

pub struct Args {
    pub mode: String,
    pub seed: u64,
    pub tier: String,
    pub out: String,
    pub replay: Option<String>,
    pub cases: Option<usize>,
}
pub fn parse_args() -> Args {
    let a: Vec<String> = std::env::args().collect();
    let mut r = Args { mode: "gen".into(), seed: 1, tier: "quick".into(), out: ".".into(), replay: None, cases: None };
    let mut i = 1;
    while i < a.len() {
        match a[i].as_str() {
            "gen" => r.mode = "gen".into(),
            "replay" => {
                r.mode = "replay".into();
                r.replay = Some(a[i + 1].clone());
                i += 1;
            }
            "--seed" => {
                r.seed = a[i + 1].parse().unwrap_or(1);
                i += 1;
            }
            "--tier" => {
                r.tier = a[i + 1].clone();
                i += 1;
            }
            "--out" => {
                r.out = a[i + 1].clone();
                i += 1;
            }
            "--cases" => {
                r.cases = a[i + 1].parse().ok();
                i += 1;
            }
            _ => {}
        }
        i += 1;
    }
    r
}

/// Collects cases, implementation answers, tags and oracle failures.
pub struct Sink {
    dir: String,
    cases: Vec<String>,
    answers: Vec<String>,
    tags: Vec<String>,
    oracle: Vec<String>,
    hist: BTreeMap<String, u64>,
}
impl Sink {
    pub fn new(dir: &str) -> Self {
        std::fs::create_dir_all(dir).ok();
        Sink { dir: dir.to_string(), cases: vec![], answers: vec![], tags: vec![], oracle: vec![], hist: BTreeMap::new() }
    }
    /// record one case: the line sent to the Lean driver, the implementation's canonical
    /// answer, and space-separated tags (`nt` marks a non-trivial case; others feed the
    /// branch histogram).
    pub fn case(&mut self, line: String, answer: String, tags: &str) {
        debug_assert!(!line.contains('\n') && !answer.contains('\n'));
        for t in tags.split_whitespace() {
            *self.hist.entry(t.to_string()).or_insert(0) += 1;
        }
        if answer == "PANIC" {
            *self.hist.entry("answer:PANIC".into()).or_insert(0) += 1;
        } else if let Some(e) = answer.strip_prefix("ERR:") {
            *self.hist.entry(format!("answer:ERR:{}", e.split(' ').next().unwrap_or(""))).or_insert(0) += 1;
        }
        self.cases.push(line);
        self.answers.push(answer);
        self.tags.push(tags.to_string());
    }
    /// an implementation-vs-oracle failure found by the harness itself (property
    /// checked directly on the implementation's output, independent of the Lean model)
    pub fn oracle_failure(&mut self, line: String, what: String, tags: &str) {
        self.oracle.push(format!("{}\t{}\t{}", line, what, tags));
    }
    pub fn count(&mut self, key: &str) {
        *self.hist.entry(key.to_string()).or_insert(0) += 1;
    }
    pub fn len(&self) -> usize {
        self.cases.len()
    }
    pub fn finish(self) {
        let w = |name: &str, v: &Vec<String>| {
            let mut f = std::io::BufWriter::new(std::fs::File::create(format!("{}/{}", self.dir, name)).unwrap());
            for l in v {
                writeln!(f, "{}", l).unwrap();
            }
        };
        w("cases.txt", &self.cases);
        w("impl.txt", &self.answers);
        w("tags.txt", &self.tags);
        w("oracle.txt", &self.oracle);
        let mut s = String::from("{");
        for (i, (k, v)) in self.hist.iter().enumerate() {
            if i > 0 {
                s.push(',');
            }
            write!(s, "\"{}\":{}", k.replace('"', "'"), v).unwrap();
        }
        s.push('}');
        std::fs::write(format!("{}/stats.json", self.dir), s).unwrap();
    }
}

/// read replay case lines (first tab-separated field of each non-empty line)
pub fn read_cases(path: &str) -> Vec<String> {
    std::fs::read_to_string(path)
        .expect("replay file")
        .lines()
        .filter(|l| !l.trim().is_empty() && !l.starts_with('#'))
        .map(|l| l.split('\t').next().unwrap().to_string())
        .collect()
}

/// number of cases for a tier unless overridden by --cases
pub fn n_cases(args: &Args, quick: usize, thorough: usize) -> usize {
    args.cases.unwrap_or(if args.tier == "thorough" { thorough } else { quick })
}

/// silence the default panic hook (panics are expected outcomes under `guarded`)
pub fn quiet_panics() {
    std::panic::set_hook(Box::new(|_| {}));
}
