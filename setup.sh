#!/bin/sh
# Build the framework from files on disk only (offline).
set -e
cd "$(dirname "$0")"
export CARGO_NET_OFFLINE=true
python3 tools/translate.py
python3 tools/gen_driver.py
(cd lean && lake build)
(cd harness && cargo build --release --offline --workspace --bins)
