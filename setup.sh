#!/bin/sh
# Build the framework from files on disk only (offline): for every claimed property
# (props/C*.json) the Lean theorem modules + driver executable and the harness binaries.
set -e
cd "$(dirname "$0")"
export CARGO_NET_OFFLINE=true
python3 tools/translate.py
python3 tools/gen_driver.py
python3 tools/setup_targets.py
