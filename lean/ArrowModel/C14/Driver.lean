import ArrowModel.Common.Proto
import ArrowModel.C14.Spec
import ArrowModel.C14.Model
/-
C14 driver: one case per line → one canonical answer per line.

  ipc <stream-hex> <chunk sizes> <table>     IPC stream framing.  `table` lists the genuine
        messages of the stream as `off:len:kind:bodyLen:rows` (position of the metadata
        flatbuffer in the stream, MessageHeader kind, bodyLength, RecordBatch.length), which the
        harness obtains from the flatbuffers API — it instantiates the abstract flatbuffer
        layer `IpcParams` of the model.  Answer: `b=<rows per batch> s=<schema seen> r=<verdict>`.
  blk <bytes-hex> <chunk sizes> <sync-hex>   Avro OCF block region.  Answer:
        `n=<blocks> rows=<sum of counts> bytes=<sum of data lengths> r=<verdict>`.
  vlq <bytes-hex> <chunk sizes>              Avro varints back to back. Answer: values, verdict.

The answer is computed with the chunked bulk model; it is compared with the byte-at-a-time
reference, the single-chunk run and (IPC) the one-shot framing specification, and
`MODEL-SPEC-MISMATCH` is printed if they differ (the theorems say they cannot).
-/
namespace ArrowModel.C14
open ArrowModel.Proto

/-- split `xs` into consecutive chunks of the given sizes (must sum to the length) -/
def splitChunks (xs : Bytes) : List Nat → Option (List Bytes)
  | [] => if xs.isEmpty then some [] else none
  | n :: ns =>
    if n ≤ xs.length then (splitChunks (xs.drop n) ns).map (fun r => xs.take n :: r) else none

structure IpcEntry where
  md : Bytes
  kind : Nat
  bodyLen : Nat
  rows : Nat

def parseEntry (stream : Bytes) (s : String) : Option IpcEntry :=
  match (s.splitOn ":").mapM String.toNat? with
  | some [off, len, kind, bl, rows] => some ⟨(stream.drop off).take len, kind, bl, rows⟩
  | _ => none

/-- the flatbuffer layer instantiated from the table; `ctx` = "a schema has been read".
handler error codes: 1 = unexpected second schema, 2 = missing schema, 3 = unsupported type -/
def ipcParamsOf (table : List IpcEntry) : IpcParams Bool Nat where
  parseMeta md := (table.find? (fun e => e.md == md)).map (·.bodyLen)
  handle ctx md _body :=
    match table.find? (fun e => e.md == md) with
    | none => .error 9
    | some e =>
      match e.kind with
      | 0 => .ok (ctx, [])
      | 1 => if ctx then .error 1 else .ok (true, [])
      | 2 => if ctx then .ok (ctx, []) else .error 2
      | 3 => if ctx then .ok (ctx, [e.rows]) else .error 2
      | _ => .error 3

def showIpcEnd : IpcEnd → String
  | .ok => "ok"
  | .truncated => "ERR:finish"
  | .err .badMeta => "ERR:decode:parse"
  | .err .stuck => "ERR:stuck"
  | .err _ => "ERR:decode:ipc"

def showIpc (r : IpcState Bool × List Nat) : String :=
  s!"b={showList toString r.2} s={showBool r.1.ctx} r={showIpcEnd (ipcFinish r.1)}"

/-- the one-shot specification: frame the whole input, then process the messages in order -/
def ipcSpec (pr : IpcParams Bool Nat) (xs : Bytes) : String :=
  let fr := frames ipcMarker pr.parseMeta (xs.length + 1) xs
  -- process complete messages until the first handler error
  let rec go (ctx : Bool) (acc : List Nat) : List (Bytes × Bytes) → (Bool × List Nat × Option Nat)
    | [] => (ctx, acc, none)
    | (md, body) :: rest =>
      match pr.handle ctx md body with
      | .error c => (ctx, acc, some c)
      | .ok r => go r.1 (acc ++ r.2) rest
  let (ctx, outs, herr) := go false [] fr.1
  let verdict :=
    match herr with
    | some _ => "ERR:decode:ipc"
    | none =>
      match fr.2.1 with
      | .eos => if fr.2.2.isEmpty then "ok" else "ERR:decode:ipc"
      | .clean => "ok"
      | .truncated => "ERR:finish"
      | .badMeta => "ERR:decode:parse"
  s!"b={showList toString outs} s={showBool ctx} r={verdict}"

/-- The push decoder differs from the one-shot framing in exactly one situation (see
Theorems, `…pending…`): the input ends right after the metadata of a message whose body length
is 0 — the decoder only dispatches that message when the *next* byte arrives. -/
def endsWithPendingEmptyBody (s : IpcState Bool) : Bool :=
  match s.ph with
  | .body _ 0 [] => true
  | _ => false

def showBlkState : BlkState → String
  | .count ⟨0, 0⟩ => "ok"
  | .failed .varint => "ERR:varint"
  | .failed .negCount => "ERR:neg"
  | .failed .negSize => "ERR:neg"
  | .failed .stuck => "ERR:stuck"
  | _ => "partial"

def showBlocks (sync : Bytes) (r : BlkState × List Block) : String :=
  let bad := r.2.findIdx? (fun b => b.sync != sync)
  let good := match bad with
    | some i => r.2.take i
    | none => r.2
  let verdict := match bad with
    | some _ => "ERR:sync"
    | none => showBlkState r.1
  s!"n={good.length} rows={(good.map (·.count)).sum} bytes={(good.map (·.data.length)).sum} r={verdict}"

/-- varints back to back: values decoded, then verdict -/
def vlqAll (fuel : Nat) (v : Vlq) (xs : Bytes) (acc : List Int) : List Int × String :=
  match fuel with
  | 0 => (acc, "fuel")
  | fuel + 1 =>
    if xs.isEmpty then (acc, if v == ⟨0, 0⟩ then "ok" else "partial") else
    match vlqLong v xs with
    | (.more v', _) => (acc, if v' == ⟨0, 0⟩ then "ok" else "partial")
    | (.done x, k) => vlqAll fuel ⟨0, 0⟩ (xs.drop k) (acc ++ [x])
    | (.err, _) => (acc, "ERR:varint")

/-- chunked varint decoding: the state is carried across chunks -/
def vlqChunks (v : Vlq) (acc : List Int) : List Bytes → List Int × String
  | [] => (acc, if v == ⟨0, 0⟩ then "ok" else "partial")
  | c :: cs =>
    let rec inner (fuel : Nat) (v : Vlq) (xs : Bytes) (acc : List Int) : Option (Vlq × List Int) :=
      match fuel with
      | 0 => none
      | fuel + 1 =>
        if xs.isEmpty then some (v, acc) else
        match vlqLong v xs with
        | (.more v', _) => some (v', acc)
        | (.done x, k) => inner fuel ⟨0, 0⟩ (xs.drop k) (acc ++ [x])
        | (.err, _) => none
    match inner (c.length + 1) v c acc with
    | none => (acc, "ERR:varint")
    | some (v', acc') => vlqChunks v' acc' cs

/-! JSON -/

def sliceStr (t : Tape) (i : Nat) : Bytes :=
  match t.offsets[i]?, t.offsets[i + 1]? with
  | some a, some b => (t.bytes.drop a).take (b - a)
  | _, _ => []

/-- the values of the rows of a flushed tape, as the Utf8 column the harness decodes them to
(`coerce_primitive`: numbers and booleans by their text; nested values and null → null) -/
def rowValues (t : Tape) : List String :=
  let rec go (fuel idx : Nat) (acc : List String) : List String :=
    match fuel with
    | 0 => acc
    | fuel + 1 =>
      match t.elements[idx]? with
      | none => acc
      | some (.string i) => go fuel (idx + 1) (acc ++ [toHex (sliceStr t i)])
      | some (.number i) => go fuel (idx + 1) (acc ++ [toHex (sliceStr t i)])
      | some .true_ => go fuel (idx + 1) (acc ++ [toHex Lit.true_.bytes])
      | some .false_ => go fuel (idx + 1) (acc ++ [toHex Lit.false_.bytes])
      | some .null => go fuel (idx + 1) (acc ++ ["N"])
      | some (.startObject e) => go fuel (e + 1) (acc ++ ["N"])
      | some (.startList e) => go fuel (e + 1) (acc ++ ["N"])
      | some _ => acc
  go (t.elements.length + 1) 1 []

/-- mode `s`: the root struct decoder rejects a row that is not an object -/
def rowsAreObjects (t : Tape) : Bool :=
  let rec go (fuel idx : Nat) : Bool :=
    match fuel with
    | 0 => true
    | fuel + 1 =>
      match t.elements[idx]? with
      | none => true
      | some (.startObject e) => go fuel (e + 1)
      | some _ => false
  go (t.elements.length + 1) 1

def showJson (cfg : JCfg) (mode : String) (r : JState × List Tape) : String :=
  let fin := jFinish cfg r.1
  let batches := r.2 ++ fin.1
  let verdict := match fin.2 with
    | none => "ok"
    | some .syntax => "ERR:decode"
    | some .flush => "ERR:flush"
  let base := s!"rows={showList (fun (t : Tape) => toString t.curRow) batches} r={verdict}"
  if mode = "s" then base
  else s!"{base} v={showList id (batches.map rowValues).flatten}"

/-! Avro streaming decoder -/

/-- the two registered writer schemas: A = {id: long, s: string}, B = {x: long} -/
def avRowOf (fp : Nat) (data : Bytes) : RowRes String :=
  match vlqLong ⟨0, 0⟩ data with
  | (.more _, _) => .incomplete
  | (.err, _) => .bad
  | (.done x, k) =>
    if fp = 1 then .ok k s!"B:{x}"
    else
      match vlqLong ⟨0, 0⟩ (data.drop k) with
      | (.more _, _) => .incomplete
      | (.err, _) => .bad
      | (.done len, k2) =>
        if len < 0 then .bad
        else if (data.drop (k + k2)).length < len.toNat then .incomplete
        else
          let str := (data.drop (k + k2)).take len.toNat
          -- rows whose string is not valid UTF-8 are marked: `flush` rejects the batch
          .ok (k + k2 + len.toNat) (if utf8Valid (str.length + 1) str then s!"A:{x}:{toHex str}" else "!")

def avPrefixOf (magicLen : Nat) (pA pB : Bytes) (data : Bytes) : PrefixRes :=
  if data.length < magicLen then .needMore
  else if data.take magicLen != pA.take magicLen then .mismatch
  else if data.length < pA.length then .needMore
  else if data.take pA.length == pA then .found 0 pA.length
  else if data.take pA.length == pB then .found 1 pA.length
  else .found 2 pA.length

/-- run a schedule: chunks with the flush policy; returns rows in order and the verdict -/
def avRun (cfg : AvCfg String) (policy : String) (chunks : List Bytes) : String :=
  let every : Nat := if policy.startsWith "k" then ((policy.drop 1).toString.toNat?.getD 1) else 0
  let rec go (i : Nat) (sb : AvState String × Bytes) (acc : List (Nat × List String)) :
      List Bytes → (AvState String × Bytes) × List (Nat × List String)
    | [] => (sb, acc)
    | c :: cs =>
      let extra := policy == "c" || (every > 0 && (i + 1) % every == 0)
      let r := avPush cfg extra (c.length + sb.2.length + 4) (sb.1, sb.2 ++ c) acc
      if r.1.1.err then r else go (i + 1) r.1 r.2 cs
  let r := go 0 (avInit cfg, []) [] chunks
  let fin := avFlush cfg r.1.1
  let batches := r.2 ++ fin.2
  let rows := (batches.map (·.2)).flatten
  let verdict := if r.1.1.err || fin.1.err then "ERR" else if r.1.2.isEmpty then "ok" else s!"partial:{r.1.2.length}"
  if batches.any (fun b => b.2.length > cfg.batchSize) then "MODEL-SPEC-MISMATCH batch above batch_size"
  else s!"rows={showList id rows} r={verdict}"

/-- frame-by-frame reference chunking of the model: cut after every complete frame -/
def avFrames (cfg : AvCfg String) : Nat → Bytes → List Bytes
  | 0, data => [data]
  | fuel + 1, data =>
    match cfg.pfx data with
    | .found fp n =>
      match cfg.row (if fp = 2 then 0 else fp) (data.drop n) with
      | .ok k _ => data.take (n + k) :: avFrames cfg fuel (data.drop (n + k))
      | _ => [data]
    | _ => [data]

def check (model : String) (others : List (String × String)) : String :=
  match others.find? (fun o => o.2 != model) with
  | none => model
  | some o => s!"MODEL-SPEC-MISMATCH model={model} {o.1}={o.2}"

def handle (toks : List String) : String :=
  match toks with
  | ["ipc", hex, chunks, table] =>
    match parseHex hex, parseList String.toNat? chunks with
    | some xs, some sizes =>
      match splitChunks xs sizes, parseList (parseEntry xs) table with
      | some cs, some tab =>
        let pr := ipcParamsOf tab
        let chunked := runChunks (ipcFeed pr) (ipcInit false) cs
        let single := ipcFeed pr (ipcInit false) xs
        let bytewise := runBytes (ipcStep pr) (ipcInit false) xs
        let model := showIpc chunked
        -- the one-shot framing spec applies unless a zero-length body is still pending at the end
        let spec := [("spec", ipcSpec pr xs)]
        check model ([("single", showIpc single), ("bytewise", showIpc bytewise)] ++ spec)
      | _, _ => "bad-op"
    | _, _ => "bad-op"
  | ["blk", hex, chunks, synchex] =>
    match parseHex hex, parseList String.toNat? chunks, parseHex synchex with
    | some xs, some sizes, some sync =>
      match splitChunks xs sizes with
      | some cs =>
        let chunked := runChunks blkFeed blkInit cs
        check (showBlocks sync chunked)
          [("single", showBlocks sync (blkFeed blkInit xs)), ("bytewise", showBlocks sync (runBytes blkStep blkInit xs))]
      | none => "bad-op"
    | _, _, _ => "bad-op"
  | ["vlq", hex, chunks] =>
    match parseHex hex, parseList String.toNat? chunks with
    | some xs, some sizes =>
      match splitChunks xs sizes with
      | some cs =>
        let r := vlqChunks ⟨0, 0⟩ [] cs
        let one := vlqAll (xs.length + 1) ⟨0, 0⟩ xs []
        let sh (r : List Int × String) := s!"{showList toString r.1} {r.2}"
        check (sh r) [("single", sh one)]
      | none => "bad-op"
    | _, _ => "bad-op"
  | ["json", mode, bs, hex, chunks] =>
    match bs.toNat?, parseHex hex, parseList String.toNat? chunks with
    | some bs, some xs, some sizes =>
      match splitChunks xs sizes with
      | some cs =>
        let cfg : JCfg := ⟨bs, mode == "f", if mode == "s" then rowsAreObjects else fun _ => true⟩
        let chunked := runChunks (jFeedBulk cfg) jInit cs   -- the bulk loop as written
        let model := showJson cfg mode chunked
        -- no emitted batch may exceed the batch size
        if (chunked.2 ++ (jFinish cfg chunked.1).1).any (fun t => t.curRow > bs) then
          s!"MODEL-SPEC-MISMATCH batch larger than batch_size in {model}"
        else check model [("single", showJson cfg mode (jFeedBulk cfg jInit xs)), ("bytewise", showJson cfg mode (jFeed cfg jInit xs))]
      | none => "bad-op"
    | _, _, _ => "bad-op"
  | ["csv", bs, header, ncols, hex, chunks] =>
    match bs.toNat?, header.toNat?, ncols.toNat?, parseHex hex, parseList String.toNat? chunks with
    | some bs, some header, some ncols, some xs, some sizes =>
      match splitChunks xs sizes with
      | some cs =>
        let cfg : CsvCfg := ⟨ncols, bs⟩
        let sh (r : CsvState × List (List Row)) : String :=
          let fin := csvFinish cfg r.1
          let batches := r.2 ++ fin.1
          let cell (f : Bytes) : String := if f.isEmpty then "N" else toHex f
          s!"rows={showList (fun (b : List Row) => toString b.length) batches} r={if fin.2 then "ERR" else "ok"} v={showList cell batches.flatten.flatten}"
        let model := sh (runChunks (csvFeed cfg) (csvInit header) cs)
        -- the byte-at-a-time reference applies unless the input starts with a UTF-8 BOM
        -- (csv-core strips a BOM only if the first buffer holds all three bytes of it)
        if xs.take 3 = csvBom then model
        else check model [("bytewise", sh (runBytes (csvStep cfg) (csvInit header) xs)), ("single", sh (csvFeed cfg (csvInit header) xs))]
      | none => "bad-op"
    | _, _, _, _, _ => "bad-op"
  | "ipcx" :: _ => "SKIP"
  | "pqmeta" :: _ => "SKIP"
  | "flight" :: _ => "SKIP"
  | ["avrod", alg, bs, hex, chunks, policy, pa, pb] =>
    match bs.toNat?, parseHex hex, parseList String.toNat? chunks, parseHex pa, parseHex pb with
    | some bs, some xs, some sizes, some pA, some pB =>
      match splitChunks xs sizes with
      | some cs =>
        let cfg : AvCfg String := ⟨bs, avPrefixOf (if alg = "c" then 1 else 2) pA pB, fun fp => fp < 2, avRowOf, fun r => r != "!"⟩
        let frames := avFrames cfg (xs.length + 1) xs
        -- the harness answers with the frame-by-frame, flush-after-each reference; the model must give
        -- the same for that schedule, for everything in one chunk, and — when no chunk boundary of the
        -- line falls inside a row body (rows are atomic in the model anyway) — for the line's schedule
        let reference := avRun cfg "c" frames
        -- (after an error the rows of the failing batch are lost, so schedules are only comparable
        -- when the reference run has no error)
        if reference.endsWith "r=ERR" then reference else
        check reference [("all-in-one", avRun cfg "f" [xs]), ("all-in-one-c", avRun cfg "c" [xs]),
          ("line-schedule", avRun cfg policy cs), ("frames-f", avRun cfg "f" frames), ("frames-k2", avRun cfg "k2" frames)]
      | none => "bad-op"
    | _, _, _, _, _ => "bad-op"
  | "avrod" :: _ => "SKIP"
  | "csvo" :: _ => "SKIP"
  | ["avro", _bs, hex, chunks, hdr] =>
    -- OCF file: the model covers the block region after the header; the chunk boundaries the
    -- `BlockDecoder` sees are those of the file chunks that lie behind the header
    match parseHex hex, parseList String.toNat? chunks, hdr.toNat? with
    | some xs, some sizes, some hdr =>
      if hdr < 16 ∨ xs.length < hdr then "bad-op" else
      let sync := (xs.take hdr).drop (hdr - 16)
      let region := xs.drop hdr
      let rec trim (pos : Nat) : List Nat → List Nat
        | [] => []
        | n :: ns => ((max (pos + n) hdr) - (max pos hdr)) :: trim (pos + n) ns
      match splitChunks region (trim 0 sizes) with
      | some cs =>
        let sh (r : BlkState × List Block) : String :=
          let bad := r.2.any (fun b => b.sync != sync)
          match r.1 with
          | .failed _ => "r=ERR"
          | _ => if bad then "r=ERR" else s!"rows={(r.2.map (·.count)).sum} r=ok"
        check (sh (runChunks blkFeed blkInit cs))
          [("single", sh (blkFeed blkInit region)), ("bytewise", sh (runBytes blkStep blkInit region))]
      | none => "bad-op"
    | _, _, _ => "bad-op"
  | _ => "bad-op"

end ArrowModel.C14
