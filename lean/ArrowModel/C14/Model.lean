import ArrowModel.Generated.C14
import ArrowModel.C14.Spec
/-
C14 algorithm models: the push decoders of arrow-rs *as written* — one function per Rust
loop iteration (`…Iter`, the bulk path: slice copies, `min(remaining, buf.len())`
arithmetic, zero-copy slices) driven by `bulkLoop`, next to the byte-at-a-time reference
transducer (`…Step`) the refinement theorems compare it with.

Conventions
* a byte is a `Nat` (the harness only sends values < 256), a buffer a `List Nat`;
* `&mut self` becomes the returned state; `return Err(..)` becomes an absorbing `failed`
  state and a halt (`consumed = 0`) of the loop;
* every `…Iter` returns `(state', outputs, consumed)`; `bulkLoop` calls it again on
  `buffer.drop consumed` until the buffer is empty or nothing was consumed;
* a Rust loop iteration that consumes nothing but changes the state (IPC `Body` with
  `bodyLength = 0`, Avro `Data` with `bytes_remaining = 0`) is fused with the iteration
  that follows it on the same buffer;
* states that the Rust code can never be in at the top of its loop (scratch buffer already
  as long as the unit it is collecting) map to `failed stuck` in both the bulk and the
  byte-wise function: there the Rust code would index out of bounds / underflow.
-/
namespace ArrowModel.C14
open ArrowModel.Generated.C14

abbrev Bytes := List Nat

/-- The caller loop `while !buf.is_empty() { consumed = decode(buf)?; buf = &buf[consumed..] }`
around one decoder iteration.  `consumed = 0` means the iteration returned early (error
or nothing it can do with the bytes): the loop stops. -/
def bulkLoop {S B O : Type} (iter : S → List B → S × List O × Nat) (s : S) (buf : List B) :
    S × List O :=
  match buf with
  | [] => (s, [])
  | b :: bs =>
    if _h : (iter s (b :: bs)).2.2 = 0 then ((iter s (b :: bs)).1, (iter s (b :: bs)).2.1)
    else
      let r2 := bulkLoop iter (iter s (b :: bs)).1 ((b :: bs).drop (iter s (b :: bs)).2.2)
      (r2.1, (iter s (b :: bs)).2.1 ++ r2.2)
termination_by buf.length
decreasing_by simp only [List.length_drop, List.length_cons]; omega

/-! ## IPC `StreamDecoder` (arrow-ipc/src/reader/stream.rs) -/

inductive IpcErr
  | eosData              -- `DecoderState::Finished` and more bytes: "Unexpected EOS"
  | badMeta              -- `MessageBuffer::try_new` failed
  | handler (code : Nat) -- the `match message.header_type()` block returned `Err`
  | stuck                -- unreachable (see file header)
  deriving DecidableEq, Repr

/-- The flatbuffer / array layer, abstract: `parseMeta` = `MessageBuffer::try_new` followed by
`bodyLength()`; `handle ctx md body` = the `match message.header_type()` block of
`StreamDecoder::decode` (schema, dictionaries kept in `ctx`; a record batch is an output). -/
structure IpcParams (P O : Type) where
  parseMeta : Bytes → Option Nat
  handle : P → Bytes → Bytes → Except Nat (P × List O)

/-- `DecoderState` together with the scratch buffer `self.buf` (which is only ever non-empty
in `Message` and `Body`). `header buf cont`: `buf` = the first `read` bytes of `buf: [u8; 4]`. -/
inductive IpcPhase
  | header (buf : Bytes) (cont : Bool)
  | message (size : Nat) (buf : Bytes)
  | body (md : Bytes) (bodyLen : Nat) (buf : Bytes)
  | finished
  | failed (e : IpcErr)
  deriving DecidableEq, Repr

structure IpcState (P : Type) where
  ph : IpcPhase
  ctx : P

/-- `CONTINUATION_MARKER` -/
def ipcMarker : Bytes := List.replicate IPC_MARKER_LEN IPC_MARKER_BYTE

def ipcInit {P : Type} (ctx : P) : IpcState P := ⟨.header [] false, ctx⟩

/-- `if *read == 4 { … }`: continuation marker, zero length (EOS) or metadata length -/
def headerDone {P : Type} (ctx : P) (buf : Bytes) (cont : Bool) : IpcState P :=
  if !cont && buf == ipcMarker then ⟨.header (buf.take IPC_HEADER_COPY_FROM) true, ctx⟩  -- `*read = 0`
  else if leVal buf = 0 then ⟨.finished, ctx⟩
  else ⟨.message (leVal buf) [], ctx⟩

/-- the body is complete: `match message.header_type() { … }`, then `DecoderState::default()` -/
def bodyDone {P O : Type} (pr : IpcParams P O) (ctx : P) (md body : Bytes) : IpcState P × List O :=
  match pr.handle ctx md body with
  | .error c => (⟨.failed (.handler c), ctx⟩, [])
  | .ok r => (⟨.header [] false, r.1⟩, r.2)

/-- `MessageBuffer::try_new(..)?; self.state = DecoderState::Body { message }`; a message whose
`bodyLength` is 0 has its (empty) body already: the loop `while !buffer.is_empty() ||
self.has_pending_empty_body()` dispatches it at once, without waiting for another byte -/
def messageDone {P O : Type} (pr : IpcParams P O) (ctx : P) (md : Bytes) : IpcState P × List O :=
  match pr.parseMeta md with
  | none => (⟨.failed .badMeta, ctx⟩, [])
  | some 0 => bodyDone pr ctx md []
  | some bl => (⟨.body md bl [], ctx⟩, [])

/-- one iteration of the `while !buffer.is_empty()` loop of `StreamDecoder::decode` in a state
other than `Body` (`buffer` is non-empty) -/
def ipcIterNoBody {P O : Type} (pr : IpcParams P O) (s : IpcState P) (buffer : Bytes) :
    IpcState P × List O × Nat :=
  match s.ph with
  | .header buf cont =>
    if IPC_HEADER_LEN ≤ buf.length then (⟨.failed .stuck, s.ctx⟩, [], 0) else
    let toRead := min buffer.length (IPC_HEADER_LEN - buf.length)
    let buf' := buf ++ buffer.take toRead
    if buf'.length = IPC_HEADER_FULL then (headerDone s.ctx buf' cont, [], toRead)
    else (⟨.header buf' cont, s.ctx⟩, [], toRead)
  | .message size buf =>
    if size ≤ buf.length then (⟨.failed .stuck, s.ctx⟩, [], 0) else
    if buf.isEmpty ∧ buffer.length > size then
      -- zero-copy: the metadata is `buffer.slice_with_length(0, len)`
      ((messageDone pr s.ctx ((buffer.drop IPC_MSG_SLICE_START).take size)).1,
        (messageDone pr s.ctx ((buffer.drop IPC_MSG_SLICE_START).take size)).2, size)
    else
      let toRead := min buffer.length (size - buf.length)
      let buf' := buf ++ buffer.take toRead
      if buf'.length = size then ((messageDone pr s.ctx buf').1, (messageDone pr s.ctx buf').2, toRead)
      else (⟨.message size buf', s.ctx⟩, [], toRead)
  | .finished => (⟨.failed .eosData, s.ctx⟩, [], 0)
  | .failed _ => (s, [], 0)
  | .body _ _ _ => (⟨.failed .stuck, s.ctx⟩, [], 0)

/-- one iteration of the loop of `StreamDecoder::decode` (`buffer` non-empty).  A `Body` of
length 0 consumes nothing, dispatches the message and goes round the loop again with the same
buffer: that second iteration is `ipcIterNoBody`. -/
def ipcIter {P O : Type} (pr : IpcParams P O) (s : IpcState P) (buffer : Bytes) :
    IpcState P × List O × Nat :=
  match s.ph with
  | .body md bl buf =>
    if ¬ buf.isEmpty ∧ bl ≤ buf.length then (⟨.failed .stuck, s.ctx⟩, [], 0) else
    if buf.isEmpty ∧ buffer.length ≥ bl then
      -- zero-copy body: `buffer.slice_with_length(0, body_length)`
      let r := bodyDone pr s.ctx md ((buffer.drop IPC_BODY_SLICE_START).take bl)
      if bl = 0 then
        let r2 := ipcIterNoBody pr r.1 buffer
        (r2.1, r.2 ++ r2.2.1, r2.2.2)
      else (r.1, r.2, bl)
    else
      let toRead := min buffer.length (bl - buf.length)
      let buf' := buf ++ buffer.take toRead
      if buf'.length ≠ bl then (⟨.body md bl buf', s.ctx⟩, [], toRead)
      else
        let r := bodyDone pr s.ctx md buf'
        (r.1, r.2, toRead)
  | _ => ipcIterNoBody pr s buffer

/-- `for mut x in chunks { while !x.is_empty() { decoder.decode(&mut x)? } }` for one chunk -/
def ipcFeed {P O : Type} (pr : IpcParams P O) (s : IpcState P) (chunk : Bytes) : IpcState P × List O :=
  bulkLoop (ipcIter pr) s chunk

/-- byte-at-a-time reference, states other than `Body` -/
def ipcStepNoBody {P O : Type} (pr : IpcParams P O) (s : IpcState P) (b : Nat) : IpcState P × List O :=
  match s.ph with
  | .header buf cont =>
    if IPC_HEADER_LEN ≤ buf.length then (⟨.failed .stuck, s.ctx⟩, []) else
    if (buf ++ [b]).length = IPC_HEADER_FULL then (headerDone s.ctx (buf ++ [b]) cont, [])
    else (⟨.header (buf ++ [b]) cont, s.ctx⟩, [])
  | .message size buf =>
    if size ≤ buf.length then (⟨.failed .stuck, s.ctx⟩, []) else
    if (buf ++ [b]).length = size then messageDone pr s.ctx (buf ++ [b])
    else (⟨.message size (buf ++ [b]), s.ctx⟩, [])
  | .finished => (⟨.failed .eosData, s.ctx⟩, [])
  | .failed _ => (s, [])
  | .body _ _ _ => (⟨.failed .stuck, s.ctx⟩, [])

/-- byte-at-a-time reference transducer for the IPC stream decoder -/
def ipcStep {P O : Type} (pr : IpcParams P O) (s : IpcState P) (b : Nat) : IpcState P × List O :=
  match s.ph with
  | .body md bl buf =>
    if ¬ buf.isEmpty ∧ bl ≤ buf.length then (⟨.failed .stuck, s.ctx⟩, []) else
    if bl = 0 then
      let r := bodyDone pr s.ctx md []
      let r2 := ipcStepNoBody pr r.1 b
      (r2.1, r.2 ++ r2.2)
    else if (buf ++ [b]).length ≠ bl then (⟨.body md bl (buf ++ [b]), s.ctx⟩, [])
    else bodyDone pr s.ctx md (buf ++ [b])
  | _ => ipcStepNoBody pr s b

/-- verdict of `StreamDecoder::finish` (or of the first error, which is sticky) -/
inductive IpcEnd
  | ok
  | truncated          -- "Unexpected End of Stream"
  | err (e : IpcErr)
  deriving DecidableEq, Repr

/-- `StreamDecoder::finish` -/
def ipcFinish {P : Type} (s : IpcState P) : IpcEnd :=
  match s.ph with
  | .finished => .ok
  | .header [] false => .ok
  | .failed e => .err e
  | _ => .truncated

/-! ## Avro `VLQDecoder::long` (arrow-avro/src/reader/vlq.rs) -/

/-- `VLQDecoder { in_progress, shift }` -/
structure Vlq where
  acc : Nat
  shift : Nat
  deriving DecidableEq, Repr

inductive VlqRes
  | more (v : Vlq)   -- `Ok(None)`: ran out of input
  | done (x : Int)   -- `Ok(Some(x))`
  | err              -- too many continuation bytes
  deriving DecidableEq, Repr

/-- the body of the `while let Some(byte)` loop of `VLQDecoder::long`, for one byte -/
def vlqByte (v : Vlq) (b : Nat) : VlqRes :=
  if v.shift = VLQ_MAX_SHIFT ∧ b ≥ VLQ_LAST_LIMIT then .err
  else
    let acc := v.acc ||| ((b &&& VLQ_PAYLOAD_MASK) <<< v.shift)
    if b &&& VLQ_CONT_BIT = 0 then .done (zigzag acc)
    else .more ⟨acc, v.shift + VLQ_SHIFT_STEP⟩

/-- `VLQDecoder::long(&mut buf)`: result and number of bytes consumed.  (On the error return the
Rust code leaves the offending byte unconsumed; errors are fatal, so counting it as consumed
is unobservable and keeps "consumed = 0" to mean "halt" only in `failed` states.) -/
def vlqLong (v : Vlq) : Bytes → VlqRes × Nat
  | [] => (.more v, 0)
  | b :: bs =>
    match vlqByte v b with
    | .more v' => let r := vlqLong v' bs; (r.1, r.2 + 1)
    | .done x => (.done x, 1)
    | .err => (.err, 1)

/-! ## Avro `BlockDecoder` (arrow-avro/src/reader/block.rs) with the `flush` that
`Reader::read` performs right after every `decode` -/

structure Block where
  count : Nat
  data : Bytes
  sync : Bytes
  deriving DecidableEq, Repr

inductive BlkErr
  | varint | negCount | negSize | stuck
  deriving DecidableEq, Repr

/-- `BlockDecoderState` + `in_progress` + `vlq_decoder` + `bytes_remaining` -/
inductive BlkState
  | count (v : Vlq)
  | size (v : Vlq) (count : Nat)
  | data (count : Nat) (data : Bytes) (rem : Nat)
  | sync (count : Nat) (data : Bytes) (sync : Bytes) (rem : Nat)
  | failed (e : BlkErr)
  deriving DecidableEq, Repr

def blkInit : BlkState := .count ⟨0, 0⟩

/-- `sync[offset..offset + src.len()].copy_from_slice(src)` -/
def writeAt (dst : Bytes) (offset : Nat) (src : Bytes) : Bytes :=
  dst.take offset ++ src ++ dst.drop (offset + src.length)

def syncZero : Bytes := List.replicate AVRO_SYNC_LEN 0

/-- `i64 → usize` conversion of a decoded count -/
def afterCount (x : Int) : BlkState :=
  if x < 0 then .failed .negCount else .size ⟨0, 0⟩ x.toNat

def afterSize (count : Nat) (x : Int) : BlkState :=
  if x < 0 then .failed .negSize else .data count [] x.toNat

/-- `BlockDecoderState::Sync` iteration followed (when complete) by `Finished` + `flush()` -/
def blkIterSync (count : Nat) (data sync : Bytes) (rem : Nat) (buf : Bytes) : BlkState × List Block × Nat :=
  if rem = 0 ∨ AVRO_SYNC_OFFSET_BASE < rem then (.failed .stuck, [], 0) else
  let toDecode := min buf.length rem
  let offset := AVRO_SYNC_OFFSET_BASE - rem
  let sync' := writeAt sync offset (buf.take toDecode)
  if rem - toDecode = 0 then (blkInit, [⟨count, data, sync'⟩], toDecode)
  else (.sync count data sync' (rem - toDecode), [], toDecode)

/-- one iteration of the loop of `BlockDecoder::decode` (`buf` non-empty) -/
def blkIter (s : BlkState) (buf : Bytes) : BlkState × List Block × Nat :=
  match s with
  | .count v =>
    match vlqLong v buf with
    | (.more v', k) => (.count v', [], k)
    | (.done x, k) => (afterCount x, [], k)
    | (.err, k) => (.failed .varint, [], k)
  | .size v count =>
    match vlqLong v buf with
    | (.more v', k) => (.size v' count, [], k)
    | (.done x, k) => (afterSize count x, [], k)
    | (.err, k) => (.failed .varint, [], k)
  | .data count data rem =>
    if rem = 0 then
      -- `to_read = 0`; `bytes_remaining == 0` ⇒ Sync; the next iteration sees the same buffer
      blkIterSync count data syncZero AVRO_SYNC_REMAINING buf
    else
      let toRead := min rem buf.length
      let data' := data ++ buf.take toRead
      if rem - toRead = 0 then (.sync count data' syncZero AVRO_SYNC_REMAINING, [], toRead)
      else (.data count data' (rem - toRead), [], toRead)
  | .sync count data sync rem => blkIterSync count data sync rem buf
  | .failed _ => (s, [], 0)

/-- `Reader::read`'s inner loop for one `fill_buf` chunk: `decode`, `consume`, `flush` -/
def blkFeed (s : BlkState) (chunk : Bytes) : BlkState × List Block := bulkLoop blkIter s chunk

def blkStepSync (count : Nat) (data sync : Bytes) (rem : Nat) (b : Nat) : BlkState × List Block :=
  if rem = 0 ∨ AVRO_SYNC_OFFSET_BASE < rem then (.failed .stuck, []) else
  let sync' := writeAt sync (AVRO_SYNC_OFFSET_BASE - rem) [b]
  if rem - 1 = 0 then (blkInit, [⟨count, data, sync'⟩])
  else (.sync count data sync' (rem - 1), [])

/-- byte-at-a-time reference transducer for the block decoder -/
def blkStep (s : BlkState) (b : Nat) : BlkState × List Block :=
  match s with
  | .count v =>
    match vlqByte v b with
    | .more v' => (.count v', [])
    | .done x => (afterCount x, [])
    | .err => (.failed .varint, [])
  | .size v count =>
    match vlqByte v b with
    | .more v' => (.size v' count, [])
    | .done x => (afterSize count x, [])
    | .err => (.failed .varint, [])
  | .data count data rem =>
    if rem = 0 then blkStepSync count data syncZero AVRO_SYNC_REMAINING b
    else if rem - 1 = 0 then (.sync count (data ++ [b]) syncZero AVRO_SYNC_REMAINING, [])
    else (.data count (data ++ [b]) (rem - 1), [])
  | .sync count data sync rem => blkStepSync count data sync rem b
  | .failed _ => (s, [])

/-! ## JSON `TapeDecoder` (arrow-json/src/reader/tape.rs) and the `Decoder::decode`/`flush`
protocol around it

The model is the byte-at-a-time reading of `TapeDecoder::decode`: one function per
`DecoderState`, each doing for one byte what the Rust arm does for the run of bytes it scans
(`skip_chrs`/`memchr2`, `advance_until`, `skip_whitespace`, the `zip` over a literal).  The
bulk scans are related to it by the `json_*_run` lemmas.  `Decoder::flush` is folded into the
step at the only place where `decode` stops short of its input: a new row would start and
`cur_row >= batch_size`. -/

inductive Lit | null | true_ | false_
  deriving DecidableEq, Repr

def Lit.bytes : Lit → Bytes
  | .null => [110, 117, 108, 108]
  | .true_ => [116, 114, 117, 101]
  | .false_ => [102, 97, 108, 115, 101]

/-- `TapeElement` (the variants the decoder produces) -/
inductive TapeEl
  | startObject (e : Nat) | endObject (s : Nat) | startList (e : Nat) | endList (s : Nat)
  | string (i : Nat) | number (i : Nat) | true_ | false_ | null
  deriving DecidableEq, Repr

def Lit.element : Lit → TapeEl
  | .null => .null
  | .true_ => .true_
  | .false_ => .false_

/-- `DecoderState` -/
inductive JSt
  | topLevelList | object (start : Nat) | list (start : Nat) | string | value | number | colon
  | escape | unicode (high low idx : Nat) | literal (lit : Lit) (idx : Nat)
  deriving DecidableEq, Repr

inductive JErr
  | syntax      -- `Err` from `decode`
  | flush       -- `Err` from `flush` (`finish`: truncated record / invalid UTF-8)
  deriving DecidableEq, Repr

/-- the tape under construction: `elements`, `bytes`, `offsets`, `cur_row` -/
structure Tape where
  elements : List TapeEl
  bytes : Bytes
  offsets : List Nat
  curRow : Nat
  deriving DecidableEq, Repr

def Tape.empty : Tape := ⟨[.null], [], [0], 0⟩

/-- decoder configuration; `accept` is the array-decoding layer (`ArrayDecoder::decode` returns
`Ok` for this tape), a function of the flushed tape only -/
structure JCfg where
  batchSize : Nat
  flatten : Bool
  accept : Tape → Bool

/-- decoder state; the stack has its top at the head -/
structure JState where
  tape : Tape
  stack : List JSt
  err : Option JErr
  deriving DecidableEq, Repr

def jInit : JState := ⟨Tape.empty, [], none⟩

def jsonWs (b : Nat) : Bool := b == 32 || b == 10 || b == 13 || b == 9
def numChar (b : Nat) : Bool :=
  (48 ≤ b && b ≤ 57) || b == 45 || b == 43 || b == 46 || b == 101 || b == 69

/-- `char::to_digit(16)` -/
def hexDigit? (b : Nat) : Option Nat :=
  if 48 ≤ b ∧ b ≤ 57 then some (b - 48)
  else if 97 ≤ b ∧ b ≤ 102 then some (b - 87)
  else if 65 ≤ b ∧ b ≤ 70 then some (b - 55)
  else none

/-- `char::encode_utf8` -/
def utf8Enc (c : Nat) : Bytes :=
  if c < 0x80 then [c]
  else if c < 0x800 then [0xC0 + c / 64, 0x80 + c % 64]
  else if c < 0x10000 then [0xE0 + c / 4096, 0x80 + c / 64 % 64, 0x80 + c % 64]
  else [0xF0 + c / 262144, 0x80 + c / 4096 % 64, 0x80 + c / 64 % 64, 0x80 + c % 64]

/-- `char::from_u32` succeeds -/
def isScalar (c : Nat) : Bool := c < 0xD800 || (0xE000 ≤ c && c < 0x110000)

/-- `char_from_surrogate_pair(low, high)` as written (after the `fix:` commit 37156b2 in /repo):
`(((high - 0xD800) as u32) << 10) + (low - 0xDC00) as u32 + 0x1_0000`. -/
def surrogatePair (low high : Nat) : Option Nat :=
  if 0xDC00 ≤ low ∧ low ≤ 0xDFFF ∧ 0xD800 ≤ high ∧ high ≤ 0xDBFF then
    let n := ((high - 0xD800) <<< 10) + (low - 0xDC00) + 0x10000
    if isScalar n then some n else none
  else none

/-- a well-formed UTF-8 prefix check: returns the remaining bytes after one valid scalar -/
def utf8One : Bytes → Option Bytes
  | [] => none
  | b0 :: rest =>
    let cont (b : Nat) : Bool := 0x80 ≤ b && b ≤ 0xBF
    if b0 < 0x80 then some rest
    else if 0xC2 ≤ b0 ∧ b0 ≤ 0xDF then
      match rest with
      | b1 :: r => if cont b1 then some r else none
      | _ => none
    else if 0xE0 ≤ b0 ∧ b0 ≤ 0xEF then
      match rest with
      | b1 :: b2 :: r =>
        let lo := if b0 = 0xE0 then 0xA0 else 0x80
        let hi := if b0 = 0xED then 0x9F else 0xBF
        if lo ≤ b1 ∧ b1 ≤ hi ∧ cont b2 then some r else none
      | _ => none
    else if 0xF0 ≤ b0 ∧ b0 ≤ 0xF4 then
      match rest with
      | b1 :: b2 :: b3 :: r =>
        let lo := if b0 = 0xF0 then 0x90 else 0x80
        let hi := if b0 = 0xF4 then 0x8F else 0xBF
        if lo ≤ b1 ∧ b1 ≤ hi ∧ cont b2 ∧ cont b3 then some r else none
      | _ => none
    else none

/-- `simdutf8::basic::from_utf8(..).is_ok()` -/
def utf8Valid (fuel : Nat) (bs : Bytes) : Bool :=
  match fuel with
  | 0 => bs.isEmpty
  | fuel + 1 =>
    if bs.isEmpty then true else
    match utf8One bs with
    | none => false
    | some r => utf8Valid fuel r

/-- `str::is_char_boundary(off)` on valid UTF-8 -/
def charBoundary (bs : Bytes) (off : Nat) : Bool :=
  off == bs.length || (match bs[off]? with
    | some b => !(0x80 ≤ b && b ≤ 0xBF)
    | none => false)

/-- `TapeDecoder::finish` succeeds (stack condition checked by the caller) -/
def tapeOk (t : Tape) : Bool :=
  utf8Valid (t.bytes.length + 1) t.bytes && t.offsets.all (charBoundary t.bytes)

/-- `Decoder::flush` when no record is in progress: emits the tape as a batch (if it has rows)
and clears it; an invalid tape is an error -/
def jFlush (cfg : JCfg) (s : JState) : JState × List Tape :=
  if !tapeOk s.tape then ({ s with err := some .flush }, [])
  else if s.tape.curRow = 0 then (s, [])
  else if !cfg.accept s.tape then ({ s with err := some .flush }, [])
  else ({ s with tape := Tape.empty }, [s.tape])

def jFail (s : JState) : JState × List Tape := ({ s with err := some .syntax }, [])

def Tape.pushEl (t : Tape) (e : TapeEl) : Tape := { t with elements := t.elements ++ [e] }
def Tape.pushByte (t : Tape) (b : Nat) : Tape := { t with bytes := t.bytes ++ [b] }
def Tape.pushBytes (t : Tape) (bs : Bytes) : Tape := { t with bytes := t.bytes ++ bs }
/-- finish a string / number: element pointing at the current offset slot, new offset -/
def Tape.closeStr (t : Tape) (mk : Nat → TapeEl) : Tape :=
  { t with elements := t.elements ++ [mk (t.offsets.length - 1)], offsets := t.offsets ++ [t.bytes.length] }

/-- `DecoderState::Value` arm for a non-whitespace byte; `rest` is the stack below the `Value` -/
def jValue (s : JState) (rest : List JSt) (b : Nat) : JState × List Tape :=
  if b = 34 then ({ s with stack := .string :: rest }, [])
  else if b = 45 ∨ (48 ≤ b ∧ b ≤ 57) then
    ({ s with tape := s.tape.pushByte b, stack := .number :: rest }, [])
  else if b = 110 then ({ s with stack := .literal .null 1 :: rest }, [])
  else if b = 102 then ({ s with stack := .literal .false_ 1 :: rest }, [])
  else if b = 116 then ({ s with stack := .literal .true_ 1 :: rest }, [])
  else if b = 91 then
    ({ s with tape := s.tape.pushEl (.startList 0xFFFFFFFF), stack := .list s.tape.elements.length :: rest }, [])
  else if b = 123 then
    ({ s with tape := s.tape.pushEl (.startObject 0xFFFFFFFF), stack := .object s.tape.elements.length :: rest }, [])
  else jFail s

/-- start of a new row (`cur_row += 1; push(Value)`), flushing first when the batch is full -/
def jStartRow (cfg : JCfg) (s : JState) (b : Nat) : JState × List Tape :=
  let r := if s.tape.curRow ≥ cfg.batchSize then jFlush cfg s else (s, [])
  if r.1.err.isSome then r else
  let s1 := r.1
  match s1.stack with
  | [] =>
    if b = 91 ∧ cfg.flatten then ({ s1 with stack := [.topLevelList] }, r.2)
    else
      let r2 := jValue { s1 with tape := { s1.tape with curRow := s1.tape.curRow + 1 } } s1.stack b
      (r2.1, r.2 ++ r2.2)
  | _ =>
    -- top-level list
    if b = 93 then ({ s1 with stack := s1.stack.drop 1 }, r.2)
    else
      let r2 := jValue { s1 with tape := { s1.tape with curRow := s1.tape.curRow + 1 } } s1.stack b
      (r2.1, r.2 ++ r2.2)

/-- every `DecoderState` arm except `Number`, for one byte -/
def jStepMain (cfg : JCfg) (s : JState) (b : Nat) : JState × List Tape :=
  match s.stack with
  | [] => if jsonWs b then (s, []) else jStartRow cfg s b
  | .topLevelList :: _ => if jsonWs b || b == 44 then (s, []) else jStartRow cfg s b
  | .object start :: rest =>
    if jsonWs b || b == 44 then (s, [])
    else if b = 34 then ({ s with stack := .string :: .colon :: .value :: .object start :: rest }, [])
    else if b = 125 then
      let endIdx := s.tape.elements.length
      ({ s with tape := { s.tape with elements := (s.tape.elements.set start (.startObject endIdx)) ++ [.endObject start] },
                stack := rest }, [])
    else jFail s
  | .list start :: rest =>
    if jsonWs b || b == 44 then (s, [])
    else if b = 93 then
      let endIdx := s.tape.elements.length
      ({ s with tape := { s.tape with elements := (s.tape.elements.set start (.startList endIdx)) ++ [.endList start] },
                stack := rest }, [])
    else jValue s (.list start :: rest) b
  | .string :: rest =>
    if b = 92 then ({ s with stack := .escape :: .string :: rest }, [])
    else if b = 34 then ({ s with tape := s.tape.closeStr .string, stack := rest }, [])
    else ({ s with tape := s.tape.pushByte b }, [])
  | .value :: rest => if jsonWs b then (s, []) else jValue s rest b
  | .number :: _ => jFail s   -- handled by `jStep`
  | .colon :: rest =>
    if jsonWs b then (s, []) else if b = 58 then ({ s with stack := rest }, []) else jFail s
  | .literal lit idx :: rest =>
    if lit.bytes[idx]? = some b then
      if idx + 1 = lit.bytes.length then ({ s with tape := s.tape.pushEl lit.element, stack := rest }, [])
      else ({ s with stack := .literal lit (idx + 1) :: rest }, [])
    else jFail s
  | .escape :: rest =>
    if b = 117 then ({ s with stack := .unicode 0 0 0 :: rest }, [])
    else
      let v : Option Nat :=
        if b = 34 then some 34 else if b = 92 then some 92 else if b = 47 then some 47
        else if b = 98 then some 8 else if b = 102 then some 12 else if b = 110 then some 10
        else if b = 114 then some 13 else if b = 116 then some 9 else none
      match v with
      | some v => ({ s with tape := s.tape.pushByte v, stack := rest }, [])
      | none => jFail s
  | .unicode high low idx :: rest =>
    if idx ≤ 3 then
      match hexDigit? b with
      | none => jFail s
      | some d =>
        let high' := (high * 16 + d) % 65536
        if idx + 1 = 4 ∧ isScalar high' then
          ({ s with tape := s.tape.pushBytes (utf8Enc high'), stack := rest }, [])
        else ({ s with stack := .unicode high' low (idx + 1) :: rest }, [])
    else if idx = 4 then
      if b = 92 then ({ s with stack := .unicode high low 5 :: rest }, []) else jFail s
    else if idx = 5 then
      if b = 117 then ({ s with stack := .unicode high low 6 :: rest }, []) else jFail s
    else
      match hexDigit? b with
      | none => jFail s
      | some d =>
        let low' := (low * 16 + d) % 65536
        if idx + 1 ≥ 10 then
          match surrogatePair low' high with
          | some c => ({ s with tape := s.tape.pushBytes (utf8Enc c), stack := rest }, [])
          | none => jFail s
        else ({ s with stack := .unicode high low' (idx + 1) :: rest }, [])

/-- byte-at-a-time transducer for the JSON decoder: `TapeDecoder::decode` + the `flush` calls
of the push protocol.  A number ends only at the first byte that cannot belong to it; that
byte is then handled by the state below. -/
def jStep (cfg : JCfg) (s : JState) (b : Nat) : JState × List Tape :=
  if s.err.isSome then (s, []) else
  match s.stack with
  | .number :: rest =>
    if numChar b then ({ s with tape := s.tape.pushByte b }, [])
    else jStepMain cfg { s with tape := s.tape.closeStr .number, stack := rest } b
  | _ => jStepMain cfg s b

def jFeed (cfg : JCfg) (s : JState) (chunk : Bytes) : JState × List Tape := runBytes (jStep cfg) s chunk

/-! ### the bulk loop of `TapeDecoder::decode` as written

Each round of `while !iter.is_empty()` first scans a run of bytes in bulk — `skip_chrs`
(`memchr2`) in `String`, `advance_until` in `Number`, `skip_whitespace` /
`advance_until(not ws, not ',')` in the value / colon / object / list / top-level arms — and
then handles the byte that stopped the scan (`next!`/`peek`).  `Escape`, `Unicode` and
`Literal` are byte loops in the Rust code as well.  Rounds that consume nothing but change the
stack (push `Value`, pop a finished `Number`) are fused with the round that follows. -/

/-- `states based on skipsByte`: defined below `jStep` users; the bytes the arm on top of the
stack scans over in bulk -/
def scanPred (s : JState) (b : Nat) : Bool :=
  match s.stack with
  | [] => jsonWs b
  | .topLevelList :: _ => jsonWs b || b == 44
  | .object _ :: _ => jsonWs b || b == 44
  | .list _ :: _ => jsonWs b || b == 44
  | .value :: _ => jsonWs b
  | .colon :: _ => jsonWs b
  | .string :: _ => !(b == 92 || b == 34)
  | .number :: _ => numChar b
  | _ => false

/-- effect of the scanned run: `self.bytes.extend_from_slice(s)` in `String`/`Number` -/
def scanAbsorb (s : JState) (run : Bytes) : JState :=
  match s.stack with
  | .string :: _ => { s with tape := s.tape.pushBytes run }
  | .number :: _ => { s with tape := s.tape.pushBytes run }
  | _ => s

/-- one round of the loop of `TapeDecoder::decode` (with the `flush` of the push protocol) -/
def jIter (cfg : JCfg) (s : JState) (buf : Bytes) : JState × List Tape × Nat :=
  if s.err.isSome then (s, [], 0) else
  let run := buf.takeWhile (scanPred s)
  let s1 := scanAbsorb s run
  match buf.drop run.length with
  | [] => (s1, [], run.length)
  | c :: _ => let r := jStep cfg s1 c; (r.1, r.2, run.length + 1)

/-- `Decoder::decode` + `flush` driven by the push protocol for one chunk, bulk scans included -/
def jFeedBulk (cfg : JCfg) (s : JState) (chunk : Bytes) : JState × List Tape :=
  bulkLoop (jIter cfg) s chunk

/-- the final `flush()`: `(last batch, verdict)` -/
def jFinish (cfg : JCfg) (s : JState) : List Tape × Option JErr :=
  match s.err with
  | some e => ([], some e)
  | none =>
    match s.stack with
    | [] | [.topLevelList] =>
      let r := jFlush cfg s
      (r.2, r.1.err)
    | _ => ([], some .flush)

/-! ## CSV `RecordDecoder` / `Decoder` (arrow-csv/src/reader/{records,mod}.rs) around a concrete
tokenizer mirroring `csv_core::Reader` as arrow-csv configures it by default
(delimiter `,`, quote `"` with `""` doubling, no escape byte, no comment byte, terminator
`CRLF` = any of `\r`, `\n`, `\r\n`; blank lines skipped; a final record needs no terminator).

The tokenizer states are the states of csv-core's DFA (its NFA with the epsilon moves
collapsed).  `csvStep` is the byte-at-a-time machine; `csvIter` is one round of the loop of
`read_record_dfa` as written: the UTF-8 BOM check of `strip_utf8_bom` on the first call, one
DFA step, and `scan_and_copy` (a bulk copy of the run of ordinary bytes) while inside a field.
Completed records are validated against `num_columns` (`RecordDecoder::decode`), skipped while
`to_skip > 0`, buffered, and flushed as a batch as soon as `batch_size` rows are buffered
(`Decoder::capacity() == 0` ⇒ `BufReader::read` stops reading and calls `flush`). -/

inductive CsvSt
  | startRecord | inField | inQuoted | inDoubleQuote | endFieldDelim | endRecord | crlf
  deriving DecidableEq, Repr

structure CsvCfg where
  ncols : Nat
  batchSize : Nat

abbrev Row := List Bytes

structure CsvState where
  st : CsvSt
  field : Bytes          -- the field in progress
  fields : List Bytes    -- completed fields of the record in progress
  rows : List Row        -- buffered complete rows (`RecordDecoder::num_rows`)
  toSkip : Nat           -- `Decoder::to_skip`
  hasRead : Bool         -- `csv_core::Reader::has_read`
  err : Bool
  deriving DecidableEq, Repr

def csvInit (toSkip : Nat) : CsvState := ⟨.startRecord, [], [], [], toSkip, false, false⟩

def csvBom : Bytes := [0xEF, 0xBB, 0xBF]
def isTerm (c : Nat) : Bool := c == 13 || c == 10
def csvPlain (c : Nat) : Bool := !(c == 44 || c == 34 || c == 13 || c == 10)

/-- `StringRecords` → batch: the checks of `RecordDecoder::flush`: the concatenated field data is
valid UTF-8 and (since /repo 3501bbe) every field boundary is a character boundary of it -/
def rowsValid (rows : List Row) : Bool :=
  let fields := rows.flatten
  let data := fields.flatten
  -- cumulative end offsets of the fields (`offsets[1..]`; `offsets[0] = 0` is always a boundary)
  let offsets := (fields.foldl (fun (acc : List Nat × Nat) f => (acc.1 ++ [acc.2 + f.length], acc.2 + f.length)) ([], 0)).1
  utf8Valid (data.length + 1) data && offsets.all (charBoundary data)

/-- `Decoder::flush`: the buffered rows become a batch -/
def csvFlush (s : CsvState) : CsvState × List (List Row) :=
  if s.rows.isEmpty then (s, [])
  else if !rowsValid s.rows then ({ s with err := true }, [])
  else ({ s with rows := [] }, [s.rows])

/-- a record is complete (`ReadRecordResult::Record`): field-count check, skip, buffer, flush
when the batch is full.  `st'` is the tokenizer state after the terminator. -/
def csvEndRecord (cfg : CsvCfg) (s : CsvState) (st' : CsvSt) : CsvState × List (List Row) :=
  let record := s.fields ++ [s.field]
  let s1 := { s with st := st', field := [], fields := [] }
  if record.length ≠ cfg.ncols then ({ s1 with err := true }, [])
  else if s1.toSkip > 0 then ({ s1 with toSkip := s1.toSkip - 1 }, [])
  else
    let s2 := { s1 with rows := s1.rows ++ [record] }
    if s2.rows.length ≥ cfg.batchSize then csvFlush s2 else (s2, [])

def termState (c : Nat) : CsvSt := if c = 13 then .crlf else .endRecord

/-- NFA `StartField` on byte `c` -/
def csvStartField (cfg : CsvCfg) (s : CsvState) (c : Nat) : CsvState × List (List Row) :=
  if c = 34 then ({ s with st := .inQuoted }, [])
  else if c = 44 then ({ s with st := .endFieldDelim, fields := s.fields ++ [s.field], field := [] }, [])
  else if isTerm c then csvEndRecord cfg s (termState c)
  else ({ s with st := .inField, field := s.field ++ [c] }, [])

/-- NFA `StartRecord` on byte `c`: blank lines are discarded -/
def csvStartRecord (cfg : CsvCfg) (s : CsvState) (c : Nat) : CsvState × List (List Row) :=
  if isTerm c then ({ s with st := .startRecord }, []) else csvStartField cfg s c

/-- one DFA step of csv-core (plus the record handling of `RecordDecoder::decode`) -/
def csvStep (cfg : CsvCfg) (s : CsvState) (c : Nat) : CsvState × List (List Row) :=
  if s.err then (s, []) else
  let s := { s with hasRead := true }
  match s.st with
  | .startRecord => csvStartRecord cfg s c
  | .endRecord => csvStartRecord cfg s c
  | .crlf => if c = 10 then ({ s with st := .startRecord }, []) else csvStartRecord cfg s c
  | .endFieldDelim => csvStartField cfg s c
  | .inField =>
    if c = 44 then ({ s with st := .endFieldDelim, fields := s.fields ++ [s.field], field := [] }, [])
    else if isTerm c then csvEndRecord cfg s (termState c)
    else ({ s with field := s.field ++ [c] }, [])
  | .inQuoted =>
    if c = 34 then ({ s with st := .inDoubleQuote }, [])
    else ({ s with field := s.field ++ [c] }, [])
  | .inDoubleQuote =>
    if c = 34 then ({ s with st := .inQuoted, field := s.field ++ [c] }, [])
    else if c = 44 then ({ s with st := .endFieldDelim, fields := s.fields ++ [s.field], field := [] }, [])
    else if isTerm c then csvEndRecord cfg s (termState c)
    else ({ s with st := .inField, field := s.field ++ [c] }, [])

/-- one round of `read_record_dfa` on a non-empty input: BOM strip on the very first call,
`scan_and_copy` of a run of ordinary bytes inside a field, otherwise one DFA step -/
def csvIter (cfg : CsvCfg) (s : CsvState) (buf : Bytes) : CsvState × List (List Row) × Nat :=
  if s.err then (s, [], 0)
  else if !s.hasRead ∧ buf.length ≥ 3 ∧ buf.take 3 = csvBom then
    ({ s with hasRead := true }, [], 3)
  else if (s.st = .inField ∨ s.st = .inQuoted) ∧ (buf.takeWhile csvPlain).length > 0 then
    let run := buf.takeWhile csvPlain
    ({ s with hasRead := true, field := s.field ++ run }, [], run.length)
  else
    match buf with
    | [] => (s, [], 0)
    | c :: _ => let r := csvStep cfg s c; (r.1, r.2, 1)

/-- `Decoder::decode` + `flush` driven by `BufReader::read` for one non-empty `fill_buf` chunk -/
def csvFeed (cfg : CsvCfg) (s : CsvState) (chunk : Bytes) : CsvState × List (List Row) :=
  bulkLoop (csvIter cfg) s chunk

/-- end of input (`decode(&[])`: `transition_final_dfa`) and the last `flush` -/
def csvFinish (cfg : CsvCfg) (s : CsvState) : List (List Row) × Bool :=
  if s.err then ([], true) else
  let r := match s.st with
    | .startRecord | .endRecord | .crlf => (s, [])
    | _ => csvEndRecord cfg s .startRecord
  if r.1.err then (r.2, true) else
  let f := csvFlush r.1
  (r.2 ++ f.2, f.1.err)

/-! ## Avro streaming `Decoder` (arrow-avro/src/reader/mod.rs): the decode / flush state machine
for single-object / Confluent framed rows, over an abstract prefix parser and an abstract
*atomic* row decoder (`RecordDecoder::decode(buf, 1)` either appends one complete row or, on
incomplete data, nothing — the behaviour the property demands; see known finding
`avrod-partial-row` for where the code falls short of it). -/

inductive PrefixRes
  | needMore                      -- `Ok(Some(0))`: magic or fingerprint not complete yet
  | mismatch                      -- `Ok(None)`: "Missing magic bytes and fingerprint"
  | found (fp : Nat) (len : Nat)  -- `Ok(Some(len))`
  deriving DecidableEq, Repr

inductive RowRes (R : Type)
  | incomplete | bad | ok (len : Nat) (row : R)

structure AvCfg (R : Type) where
  batchSize : Nat
  pfx : Bytes → PrefixRes
  known : Nat → Bool
  row : Nat → Bytes → RowRes R
  valid : R → Bool   -- the row's values pass the checks `flush` performs (e.g. UTF-8)

/-- `Decoder { active_fingerprint, pending_schema, awaiting_body, remaining_capacity }` plus the
rows buffered in the active `RecordDecoder` -/
structure AvState (R : Type) where
  active : Option Nat
  pending : Option Nat
  awaiting : Bool
  cap : Nat
  rows : List R
  err : Bool

def avInit {R : Type} (cfg : AvCfg R) : AvState R := ⟨none, none, false, cfg.batchSize, [], false⟩

/-- `apply_pending_schema` -/
def avApplyPending {R : Type} (s : AvState R) : AvState R :=
  match s.pending with
  | some fp => { s with active := some fp, pending := none }
  | none => s

/-- `handle_fingerprint`: a new fingerprint becomes the pending schema; if rows of the current
schema are buffered, `remaining_capacity = 0` forces the caller to flush first -/
def avFingerprint {R : Type} (cfg : AvCfg R) (s : AvState R) (fp : Nat) : Option (AvState R) :=
  if s.active = some fp then some s
  else if cfg.known fp then
    some { s with pending := some fp, cap := if s.cap < cfg.batchSize then 0 else s.cap }
  else none

/-- `Decoder::decode`: the `while total_consumed < data.len() && self.remaining_capacity > 0`
loop; returns the state and the number of bytes consumed -/
def avDecode {R : Type} (cfg : AvCfg R) : Nat → AvState R → Bytes → AvState R × Nat
  | 0, s, _ => (s, 0)
  | fuel + 1, s, data =>
    if data.isEmpty ∨ s.cap = 0 ∨ s.err then (s, 0)
    else if s.awaiting then
      match s.active with
      | none => ({ s with err := true }, 0)
      | some fp =>
        match cfg.row fp data with
        | .ok n r =>
          let r2 := avDecode cfg fuel { s with cap := s.cap - 1, awaiting := false, rows := s.rows ++ [r] } (data.drop n)
          (r2.1, n + r2.2)
        | .incomplete => (s, 0)
        | .bad => ({ s with err := true }, 0)
    else
      match cfg.pfx data with
      | .needMore => (s, 0)
      | .mismatch => ({ s with err := true }, 0)
      | .found fp n =>
        match avFingerprint cfg s fp with
        | none => ({ s with err := true }, 0)
        | some s1 =>
          -- `total_consumed += n; self.apply_pending_schema_if_batch_empty(); self.awaiting_body = true;`
          let s2 := if s1.cap = cfg.batchSize then avApplyPending s1 else s1
          let r2 := avDecode cfg fuel { s2 with awaiting := true } (data.drop n)
          (r2.1, n + r2.2)

/-- `Decoder::flush`: the buffered rows (with their schema) if any, then the pending schema -/
def avFlush {R : Type} (cfg : AvCfg R) (s : AvState R) : AvState R × List (Nat × List R) :=
  if s.cap = cfg.batchSize then (avApplyPending { s with rows := [] }, [])
  else if !s.rows.all cfg.valid then ({ s with err := true, rows := [] }, [])   -- `flush` returns `Err`
  else (avApplyPending { s with cap := cfg.batchSize, rows := [] }, [(s.active.getD 0, s.rows)])

/-- the caller's loop for one chunk: append to the rolling buffer, `decode`, drop what was
consumed, `flush` whenever the batch is full; then the extra flush of the policy -/
def avPush {R : Type} (cfg : AvCfg R) (extraFlush : Bool) :
    Nat → AvState R × Bytes → List (Nat × List R) → (AvState R × Bytes) × List (Nat × List R)
  | 0, sb, acc => (sb, acc)
  | fuel + 1, (s, buf), acc =>
    let r := avDecode cfg (2 * buf.length + 4) s buf
    let buf' := buf.drop r.2
    if r.1.err then ((r.1, buf'), acc)
    else if r.1.cap = 0 then
      let f := avFlush cfg r.1
      if buf'.isEmpty || f.1.err then
        ((f.1, buf'), acc ++ f.2)
      else avPush cfg extraFlush fuel (f.1, buf') (acc ++ f.2)
    else if extraFlush then
      let f := avFlush cfg r.1
      ((f.1, buf'), acc ++ f.2)
    else ((r.1, buf'), acc)

end ArrowModel.C14
