import ArrowModel.Generated.C14
import ArrowModel.C14.Spec
/-
C14 algorithm models: the push decoders of arrow-rs *as written* — one function per Rust
loop iteration (`…Iter`, the bulk path: slice copies, `min(remaining, buf.len())`
arithmetic, zero-copy slices) driven by `bulkLoop`, next to the byte-at-a-time reference
transducer (`…Step`) the refinement theorems compare it with.

Conventions
* a byte is a `Nat` (the harness only sends values < 256), a buffer a `List Nat`;
* `&mut self` becomes the returned state; `return Err(..)` becomes an absorbing `failed`
  state and a halt (`consumed = 0`) of the loop;
* every `…Iter` returns `(state', outputs, consumed)`; `bulkLoop` calls it again on
  `buffer.drop consumed` until the buffer is empty or nothing was consumed;
* a Rust loop iteration that consumes nothing but changes the state (IPC `Body` with
  `bodyLength = 0`, Avro `Data` with `bytes_remaining = 0`) is fused with the iteration
  that follows it on the same buffer;
* states that the Rust code can never be in at the top of its loop (scratch buffer already
  as long as the unit it is collecting) map to `failed stuck` in both the bulk and the
  byte-wise function: there the Rust code would index out of bounds / underflow.
-/
namespace ArrowModel.C14
open ArrowModel.Generated.C14

abbrev Bytes := List Nat

/-- The caller loop `while !buf.is_empty() { consumed = decode(buf)?; buf = &buf[consumed..] }`
around one decoder iteration.  `consumed = 0` means the iteration returned early (error
or nothing it can do with the bytes): the loop stops. -/
def bulkLoop {S B O : Type} (iter : S → List B → S × List O × Nat) (s : S) (buf : List B) :
    S × List O :=
  match buf with
  | [] => (s, [])
  | b :: bs =>
    if _h : (iter s (b :: bs)).2.2 = 0 then ((iter s (b :: bs)).1, (iter s (b :: bs)).2.1)
    else
      let r2 := bulkLoop iter (iter s (b :: bs)).1 ((b :: bs).drop (iter s (b :: bs)).2.2)
      (r2.1, (iter s (b :: bs)).2.1 ++ r2.2)
termination_by buf.length
decreasing_by simp only [List.length_drop, List.length_cons]; omega

/-! ## IPC `StreamDecoder` (arrow-ipc/src/reader/stream.rs) -/

inductive IpcErr
  | eosData              -- `DecoderState::Finished` and more bytes: "Unexpected EOS"
  | badMeta              -- `MessageBuffer::try_new` failed
  | handler (code : Nat) -- the `match message.header_type()` block returned `Err`
  | stuck                -- unreachable (see file header)
  deriving DecidableEq, Repr

/-- The flatbuffer / array layer, abstract: `parseMeta` = `MessageBuffer::try_new` followed by
`bodyLength()`; `handle ctx md body` = the `match message.header_type()` block of
`StreamDecoder::decode` (schema, dictionaries kept in `ctx`; a record batch is an output). -/
structure IpcParams (P O : Type) where
  parseMeta : Bytes → Option Nat
  handle : P → Bytes → Bytes → Except Nat (P × List O)

/-- `DecoderState` together with the scratch buffer `self.buf` (which is only ever non-empty
in `Message` and `Body`). `header buf cont`: `buf` = the first `read` bytes of `buf: [u8; 4]`. -/
inductive IpcPhase
  | header (buf : Bytes) (cont : Bool)
  | message (size : Nat) (buf : Bytes)
  | body (md : Bytes) (bodyLen : Nat) (buf : Bytes)
  | finished
  | failed (e : IpcErr)
  deriving DecidableEq, Repr

structure IpcState (P : Type) where
  ph : IpcPhase
  ctx : P

/-- `CONTINUATION_MARKER` -/
def ipcMarker : Bytes := List.replicate IPC_MARKER_LEN IPC_MARKER_BYTE

def ipcInit {P : Type} (ctx : P) : IpcState P := ⟨.header [] false, ctx⟩

/-- `if *read == 4 { … }`: continuation marker, zero length (EOS) or metadata length -/
def headerDone {P : Type} (ctx : P) (buf : Bytes) (cont : Bool) : IpcState P :=
  if !cont && buf == ipcMarker then ⟨.header [] true, ctx⟩
  else if leVal buf = 0 then ⟨.finished, ctx⟩
  else ⟨.message (leVal buf) [], ctx⟩

/-- `MessageBuffer::try_new(..)?; self.state = DecoderState::Body { message }` -/
def messageDone {P O : Type} (pr : IpcParams P O) (ctx : P) (md : Bytes) : IpcState P :=
  match pr.parseMeta md with
  | none => ⟨.failed .badMeta, ctx⟩
  | some bl => ⟨.body md bl [], ctx⟩

/-- the body is complete: `match message.header_type() { … }`, then `DecoderState::default()` -/
def bodyDone {P O : Type} (pr : IpcParams P O) (ctx : P) (md body : Bytes) : IpcState P × List O :=
  match pr.handle ctx md body with
  | .error c => (⟨.failed (.handler c), ctx⟩, [])
  | .ok r => (⟨.header [] false, r.1⟩, r.2)

/-- one iteration of the `while !buffer.is_empty()` loop of `StreamDecoder::decode` in a state
other than `Body` (`buffer` is non-empty) -/
def ipcIterNoBody {P O : Type} (pr : IpcParams P O) (s : IpcState P) (buffer : Bytes) :
    IpcState P × List O × Nat :=
  match s.ph with
  | .header buf cont =>
    if IPC_HEADER_LEN ≤ buf.length then (⟨.failed .stuck, s.ctx⟩, [], 0) else
    let toRead := min buffer.length (IPC_HEADER_LEN - buf.length)
    let buf' := buf ++ buffer.take toRead
    if buf'.length = IPC_HEADER_FULL then (headerDone s.ctx buf' cont, [], toRead)
    else (⟨.header buf' cont, s.ctx⟩, [], toRead)
  | .message size buf =>
    if size ≤ buf.length then (⟨.failed .stuck, s.ctx⟩, [], 0) else
    if buf.isEmpty ∧ buffer.length > size then
      -- zero-copy: the metadata is a slice of the input buffer
      (messageDone pr s.ctx (buffer.take size), [], size)
    else
      let toRead := min buffer.length (size - buf.length)
      let buf' := buf ++ buffer.take toRead
      if buf'.length = size then (messageDone pr s.ctx buf', [], toRead)
      else (⟨.message size buf', s.ctx⟩, [], toRead)
  | .finished => (⟨.failed .eosData, s.ctx⟩, [], 0)
  | .failed _ => (s, [], 0)
  | .body _ _ _ => (⟨.failed .stuck, s.ctx⟩, [], 0)

/-- one iteration of the loop of `StreamDecoder::decode` (`buffer` non-empty).  A `Body` of
length 0 consumes nothing, dispatches the message and goes round the loop again with the same
buffer: that second iteration is `ipcIterNoBody`. -/
def ipcIter {P O : Type} (pr : IpcParams P O) (s : IpcState P) (buffer : Bytes) :
    IpcState P × List O × Nat :=
  match s.ph with
  | .body md bl buf =>
    if ¬ buf.isEmpty ∧ bl ≤ buf.length then (⟨.failed .stuck, s.ctx⟩, [], 0) else
    if buf.isEmpty ∧ buffer.length ≥ bl then
      -- zero-copy body
      let r := bodyDone pr s.ctx md (buffer.take bl)
      if bl = 0 then
        let r2 := ipcIterNoBody pr r.1 buffer
        (r2.1, r.2 ++ r2.2.1, r2.2.2)
      else (r.1, r.2, bl)
    else
      let toRead := min buffer.length (bl - buf.length)
      let buf' := buf ++ buffer.take toRead
      if buf'.length ≠ bl then (⟨.body md bl buf', s.ctx⟩, [], toRead)
      else
        let r := bodyDone pr s.ctx md buf'
        (r.1, r.2, toRead)
  | _ => ipcIterNoBody pr s buffer

/-- `for mut x in chunks { while !x.is_empty() { decoder.decode(&mut x)? } }` for one chunk -/
def ipcFeed {P O : Type} (pr : IpcParams P O) (s : IpcState P) (chunk : Bytes) : IpcState P × List O :=
  bulkLoop (ipcIter pr) s chunk

/-- byte-at-a-time reference, states other than `Body` -/
def ipcStepNoBody {P O : Type} (pr : IpcParams P O) (s : IpcState P) (b : Nat) : IpcState P × List O :=
  match s.ph with
  | .header buf cont =>
    if IPC_HEADER_LEN ≤ buf.length then (⟨.failed .stuck, s.ctx⟩, []) else
    if (buf ++ [b]).length = IPC_HEADER_FULL then (headerDone s.ctx (buf ++ [b]) cont, [])
    else (⟨.header (buf ++ [b]) cont, s.ctx⟩, [])
  | .message size buf =>
    if size ≤ buf.length then (⟨.failed .stuck, s.ctx⟩, []) else
    if (buf ++ [b]).length = size then (messageDone pr s.ctx (buf ++ [b]), [])
    else (⟨.message size (buf ++ [b]), s.ctx⟩, [])
  | .finished => (⟨.failed .eosData, s.ctx⟩, [])
  | .failed _ => (s, [])
  | .body _ _ _ => (⟨.failed .stuck, s.ctx⟩, [])

/-- byte-at-a-time reference transducer for the IPC stream decoder -/
def ipcStep {P O : Type} (pr : IpcParams P O) (s : IpcState P) (b : Nat) : IpcState P × List O :=
  match s.ph with
  | .body md bl buf =>
    if ¬ buf.isEmpty ∧ bl ≤ buf.length then (⟨.failed .stuck, s.ctx⟩, []) else
    if bl = 0 then
      let r := bodyDone pr s.ctx md []
      let r2 := ipcStepNoBody pr r.1 b
      (r2.1, r.2 ++ r2.2)
    else if (buf ++ [b]).length ≠ bl then (⟨.body md bl (buf ++ [b]), s.ctx⟩, [])
    else bodyDone pr s.ctx md (buf ++ [b])
  | _ => ipcStepNoBody pr s b

/-- verdict of `StreamDecoder::finish` (or of the first error, which is sticky) -/
inductive IpcEnd
  | ok
  | truncated          -- "Unexpected End of Stream"
  | err (e : IpcErr)
  deriving DecidableEq, Repr

/-- `StreamDecoder::finish` -/
def ipcFinish {P : Type} (s : IpcState P) : IpcEnd :=
  match s.ph with
  | .finished => .ok
  | .header [] false => .ok
  | .failed e => .err e
  | _ => .truncated

/-! ## Avro `VLQDecoder::long` (arrow-avro/src/reader/vlq.rs) -/

/-- `VLQDecoder { in_progress, shift }` -/
structure Vlq where
  acc : Nat
  shift : Nat
  deriving DecidableEq, Repr

inductive VlqRes
  | more (v : Vlq)   -- `Ok(None)`: ran out of input
  | done (x : Int)   -- `Ok(Some(x))`
  | err              -- too many continuation bytes
  deriving DecidableEq, Repr

/-- the body of the `while let Some(byte)` loop of `VLQDecoder::long`, for one byte -/
def vlqByte (v : Vlq) (b : Nat) : VlqRes :=
  if v.shift = VLQ_MAX_SHIFT ∧ b ≥ VLQ_LAST_LIMIT then .err
  else
    let acc := v.acc ||| ((b &&& VLQ_PAYLOAD_MASK) <<< v.shift)
    if b &&& VLQ_CONT_BIT = 0 then .done (zigzag acc)
    else .more ⟨acc, v.shift + VLQ_SHIFT_STEP⟩

/-- `VLQDecoder::long(&mut buf)`: result and number of bytes consumed.  (On the error return the
Rust code leaves the offending byte unconsumed; errors are fatal, so counting it as consumed
is unobservable and keeps "consumed = 0" to mean "halt" only in `failed` states.) -/
def vlqLong (v : Vlq) : Bytes → VlqRes × Nat
  | [] => (.more v, 0)
  | b :: bs =>
    match vlqByte v b with
    | .more v' => let r := vlqLong v' bs; (r.1, r.2 + 1)
    | .done x => (.done x, 1)
    | .err => (.err, 1)

/-! ## Avro `BlockDecoder` (arrow-avro/src/reader/block.rs) with the `flush` that
`Reader::read` performs right after every `decode` -/

structure Block where
  count : Nat
  data : Bytes
  sync : Bytes
  deriving DecidableEq, Repr

inductive BlkErr
  | varint | negCount | negSize | stuck
  deriving DecidableEq, Repr

/-- `BlockDecoderState` + `in_progress` + `vlq_decoder` + `bytes_remaining` -/
inductive BlkState
  | count (v : Vlq)
  | size (v : Vlq) (count : Nat)
  | data (count : Nat) (data : Bytes) (rem : Nat)
  | sync (count : Nat) (data : Bytes) (sync : Bytes) (rem : Nat)
  | failed (e : BlkErr)
  deriving DecidableEq, Repr

def blkInit : BlkState := .count ⟨0, 0⟩

/-- `sync[offset..offset + src.len()].copy_from_slice(src)` -/
def writeAt (dst : Bytes) (offset : Nat) (src : Bytes) : Bytes :=
  dst.take offset ++ src ++ dst.drop (offset + src.length)

def syncZero : Bytes := List.replicate AVRO_SYNC_LEN 0

/-- `i64 → usize` conversion of a decoded count -/
def afterCount (x : Int) : BlkState :=
  if x < 0 then .failed .negCount else .size ⟨0, 0⟩ x.toNat

def afterSize (count : Nat) (x : Int) : BlkState :=
  if x < 0 then .failed .negSize else .data count [] x.toNat

/-- `BlockDecoderState::Sync` iteration followed (when complete) by `Finished` + `flush()` -/
def blkIterSync (count : Nat) (data sync : Bytes) (rem : Nat) (buf : Bytes) : BlkState × List Block × Nat :=
  if rem = 0 ∨ AVRO_SYNC_OFFSET_BASE < rem then (.failed .stuck, [], 0) else
  let toDecode := min buf.length rem
  let offset := AVRO_SYNC_OFFSET_BASE - rem
  let sync' := writeAt sync offset (buf.take toDecode)
  if rem - toDecode = 0 then (blkInit, [⟨count, data, sync'⟩], toDecode)
  else (.sync count data sync' (rem - toDecode), [], toDecode)

/-- one iteration of the loop of `BlockDecoder::decode` (`buf` non-empty) -/
def blkIter (s : BlkState) (buf : Bytes) : BlkState × List Block × Nat :=
  match s with
  | .count v =>
    match vlqLong v buf with
    | (.more v', k) => (.count v', [], k)
    | (.done x, k) => (afterCount x, [], k)
    | (.err, k) => (.failed .varint, [], k)
  | .size v count =>
    match vlqLong v buf with
    | (.more v', k) => (.size v' count, [], k)
    | (.done x, k) => (afterSize count x, [], k)
    | (.err, k) => (.failed .varint, [], k)
  | .data count data rem =>
    if rem = 0 then
      -- `to_read = 0`; `bytes_remaining == 0` ⇒ Sync; the next iteration sees the same buffer
      blkIterSync count data syncZero AVRO_SYNC_REMAINING buf
    else
      let toRead := min rem buf.length
      let data' := data ++ buf.take toRead
      if rem - toRead = 0 then (.sync count data' syncZero AVRO_SYNC_REMAINING, [], toRead)
      else (.data count data' (rem - toRead), [], toRead)
  | .sync count data sync rem => blkIterSync count data sync rem buf
  | .failed _ => (s, [], 0)

/-- `Reader::read`'s inner loop for one `fill_buf` chunk: `decode`, `consume`, `flush` -/
def blkFeed (s : BlkState) (chunk : Bytes) : BlkState × List Block := bulkLoop blkIter s chunk

def blkStepSync (count : Nat) (data sync : Bytes) (rem : Nat) (b : Nat) : BlkState × List Block :=
  if rem = 0 ∨ AVRO_SYNC_OFFSET_BASE < rem then (.failed .stuck, []) else
  let sync' := writeAt sync (AVRO_SYNC_OFFSET_BASE - rem) [b]
  if rem - 1 = 0 then (blkInit, [⟨count, data, sync'⟩])
  else (.sync count data sync' (rem - 1), [])

/-- byte-at-a-time reference transducer for the block decoder -/
def blkStep (s : BlkState) (b : Nat) : BlkState × List Block :=
  match s with
  | .count v =>
    match vlqByte v b with
    | .more v' => (.count v', [])
    | .done x => (afterCount x, [])
    | .err => (.failed .varint, [])
  | .size v count =>
    match vlqByte v b with
    | .more v' => (.size v' count, [])
    | .done x => (afterSize count x, [])
    | .err => (.failed .varint, [])
  | .data count data rem =>
    if rem = 0 then blkStepSync count data syncZero AVRO_SYNC_REMAINING b
    else if rem - 1 = 0 then (.sync count (data ++ [b]) syncZero AVRO_SYNC_REMAINING, [])
    else (.data count (data ++ [b]) (rem - 1), [])
  | .sync count data sync rem => blkStepSync count data sync rem b
  | .failed _ => (s, [])

end ArrowModel.C14
